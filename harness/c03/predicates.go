package main

import (
	"fmt"

	"github.com/gobwas/ws"

	"verifharness/mon"
)

// subPredicates checks the exported classification predicates that the two
// checks are built from, for every opcode value and every status code, against
// the ranges RFC 6455 §5.2, §7.4.1 and §7.4.2 give. What the RFC leaves to
// interpretation is not compared (IsProtocolDefined for 1004 and 1012..1014).
func subPredicates() mon.Sub {
	return mon.Sub{
		Name: "predicates", Exhaustive: true, Required: true,
		N: func(string) int { return 256 },
		Do: func(c *mon.C) {
			// one opcode value per case ...
			op := ws.OpCode(c.I)
			c.Count(1)
			wantCtl := c.I&0x8 != 0
			if op.IsControl() != wantCtl || op.IsData() != !wantCtl {
				c.Fail("predicates/opcode/control-data", fmt.Sprintf("opcode %#x: IsControl=%v IsData=%v, bit 3 says control=%v", c.I, op.IsControl(), op.IsData(), wantCtl), nil)
				return
			}
			if c.I < 16 {
				wantRes := (c.I >= 3 && c.I <= 7) || (c.I >= 0xb && c.I <= 0xf)
				if op.IsReserved() != wantRes {
					c.Fail("predicates/opcode/reserved", fmt.Sprintf("opcode %#x: IsReserved=%v, RFC 6455 §5.2 says %v", c.I, op.IsReserved(), wantRes), nil)
					return
				}
			}
			// ... and 256 status codes per case
			for k := 0; k < 256; k++ {
				c.Count(1)
				code := c.I*256 + k
				s := ws.StatusCode(code)
				type pr struct {
					name      string
					got, want bool
				}
				ps := []pr{
					{"IsNotUsed", s.IsNotUsed(), code <= 999},
					{"IsProtocolSpec", s.IsProtocolSpec(), code >= 1000 && code <= 2999},
					{"IsApplicationSpec", s.IsApplicationSpec(), code >= 3000 && code <= 3999},
					{"IsPrivateSpec", s.IsPrivateSpec(), code >= 4000 && code <= 4999},
					{"IsProtocolReserved", s.IsProtocolReserved(), code == 1005 || code == 1006 || code == 1015},
					{"Empty", s.Empty(), code == 0},
					{"In(NotInUse)", s.In(ws.StatusRangeNotInUse), code <= 999},
					{"In(Protocol)", s.In(ws.StatusRangeProtocol), code >= 1000 && code <= 2999},
					{"In(Application)", s.In(ws.StatusRangeApplication), code >= 3000 && code <= 3999},
					{"In(Private)", s.In(ws.StatusRangePrivate), code >= 4000 && code <= 4999},
					{"In({code,code})", s.In(ws.StatusCodeRange{Min: s, Max: s}), true},
					{"In({code+1,65535})", code < 65535 && s.In(ws.StatusCodeRange{Min: s + 1, Max: 65535}), false},
				}
				switch {
				case (code >= 1000 && code <= 1003) || (code >= 1007 && code <= 1011) || code == 1005 || code == 1006 || code == 1015:
					ps = append(ps, pr{"IsProtocolDefined", s.IsProtocolDefined(), true})
				case code == 1004 || (code >= 1012 && code <= 1014):
					// open
				default:
					ps = append(ps, pr{"IsProtocolDefined", s.IsProtocolDefined(), false})
				}
				for _, p := range ps {
					if p.got != p.want {
						c.Fail("predicates/status/"+p.name, fmt.Sprintf("StatusCode(%d).%s = %v, RFC 6455 §7.4 says %v", code, p.name, p.got, p.want), nil)
						return
					}
				}
			}
			c.Classf("op%#x", c.I&0xf)
		},
	}
}
