// C03 — header and close-payload validity checks decide exactly the RFC 6455 rules.
package main

import (
	"bytes"
	"fmt"
	"sort"
	"strings"
	"unicode/utf8"

	"github.com/gobwas/ws"

	"verifharness/mon"
	"verifharness/ref"
	"verifharness/xport"
	"verifharness/wsx"
)

var errRule = map[error]ref.Rule{
	ws.ErrProtocolOpCodeReserved:         ref.RuleReservedOp,
	ws.ErrProtocolControlPayloadOverflow: ref.RuleControlTooLong,
	ws.ErrProtocolControlNotFinal:        ref.RuleControlNotFinal,
	ws.ErrProtocolNonZeroRsv:             ref.RuleRsv,
	ws.ErrProtocolMaskRequired:           ref.RuleMaskRequired,
	ws.ErrProtocolMaskUnexpected:         ref.RuleMaskUnexpected,
	ws.ErrProtocolContinuationExpected:   ref.RuleContinuationWanted,
	ws.ErrProtocolContinuationUnexpected: ref.RuleContinuationStray,
}

var lenClasses = []int64{0, 1, 125, 126, 65535, 65536, 1 << 40}

func rulesKey(m map[ref.Rule]bool) string {
	var s []string
	for r := range m {
		s = append(s, string(r))
	}
	sort.Strings(s)
	return strings.Join(s, ",")
}

func subHeaderGrid() mon.Sub {
	return mon.Sub{
		Name: "checkheader-grid", Exhaustive: true, Required: true,
		N: func(string) int { return 16 * 3 * 2 * 2 },
		Do: func(c *mon.C) {
			i := c.I
			op := byte(i % 16)
			side := ref.Side(i / 16 % 3)
			ext := i/48%2 == 1
			frag := i/96%2 == 1
			st := wsx.State(side, ext, frag)
			for fin := 0; fin < 2; fin++ {
				for rsv := byte(0); rsv < 8; rsv++ {
					// m: the Masked flag x the key bytes the header happens to carry. The rule is about the
					// flag: a key left in a header whose flag was cleared (the README idiom for re-using a
					// received header) or an all-zero key under a set flag do not change the verdict.
					for m := 0; m < 4; m++ {
						for _, l := range lenClasses {
							c.Count(1)
							h := ref.Header{Fin: fin == 1, Rsv: rsv, Op: op, Masked: m%2 == 1, Length: l}
							if m == 1 || m == 2 {
								h.Mask = [4]byte{9, 8, 7, 6}
							}
							broken := ref.BrokenRules(h, side, ext, frag)
							err := ws.CheckHeader(wsx.ToWS(h), st)
							det := map[string]interface{}{"header": h.String(), "side": side, "extended": ext, "fragmented": frag, "broken_rules": rulesKey(broken), "error": fmt.Sprint(err)}
							switch {
							case err == nil && len(broken) > 0:
								c.Fail("checkheader/accepts/"+rulesKey(broken), "CheckHeader accepts a header that breaks: "+rulesKey(broken), det)
								return
							case err != nil && len(broken) == 0:
								c.Fail("checkheader/rejects-valid/"+fmt.Sprint(err), "CheckHeader rejects a header that breaks no rule: "+err.Error(), det)
								return
							case err != nil:
								r, known := errRule[err]
								if !known {
									c.Fail("checkheader/unknown-error", "CheckHeader rejects with an error that names no rule: "+err.Error(), det)
									return
								}
								if !broken[r] {
									c.Fail("checkheader/wrong-rule/"+string(r), "CheckHeader names rule "+string(r)+" which is not broken (broken: "+rulesKey(broken)+")", det)
									return
								}
							}
							c.Classf("op=%x side=%d ext=%v frag=%v broken=%s", op, side, ext, frag, rulesKey(broken))
						}
					}
				}
			}
			c.Sample(map[string]interface{}{"opcode": op, "side": side, "extended": ext, "fragmented": frag, "fin x rsv x (masked, key bytes) x length-classes": 2 * 8 * 4 * len(lenClasses)})
		},
	}
}

var reasons = []string{"", "bye", "café", "€ uro", "\U0001F600", "replacement \uFFFD character is a character", "\uFFFD", "\uFFFE\uFFFF non-characters", "\U0010FFFF", "\x00 nul", "\xff", "ab\xc3", "\xed\xa0\x80 surrogate", "\xc0\xaf overlong"}

func subCloseCodes() mon.Sub {
	return mon.Sub{
		Name: "close-codes", Exhaustive: true, Required: true,
		N: func(string) int { return 256 },
		Do: func(c *mon.C) {
			for lo := 0; lo < 256; lo++ {
				code := uint16(c.I<<8 | lo)
				cls := ref.CloseCodeClass(code)
				for ri, reason := range reasons {
					c.Count(1)
					err := ws.CheckCloseFrameData(ws.StatusCode(code), reason)
					valid := utf8.ValidString(reason)
					det := map[string]interface{}{"code": code, "reason": fmt.Sprintf("%q", reason), "error": fmt.Sprint(err)}
					switch {
					case !valid && err == nil:
						c.Fail("closecheck/accepts-invalid-utf8", fmt.Sprintf("CheckCloseFrameData accepts an invalid UTF-8 reason (code %d)", code), det)
						return
					case cls == ref.CodeRefuse && err == nil:
						c.Fail(fmt.Sprintf("closecheck/accepts-code/%s", codeRange(code)), fmt.Sprintf("CheckCloseFrameData accepts code %d which must be refused", code), det)
						return
					case cls == ref.CodeAccept && valid && err != nil:
						c.Fail(fmt.Sprintf("closecheck/refuses-code/%s", codeRange(code)), fmt.Sprintf("CheckCloseFrameData refuses code %d with a valid reason: %v", code, err), det)
						return
					}
					if err != nil {
						if _, ok := err.(ws.ProtocolError); !ok {
							c.Fail("closecheck/error-type", "CheckCloseFrameData error is not a ws.ProtocolError", det)
							return
						}
					}
					c.Classf("%s class=%d reason=%d", codeRange(code), cls, ri)
				}
			}
			c.Sample(map[string]interface{}{"codes": fmt.Sprintf("%d..%d", c.I<<8, c.I<<8|255), "reasons": len(reasons)})
		},
	}
}

func codeRange(code uint16) string {
	switch {
	case code < 1000:
		return "0-999"
	case code <= 1015:
		return fmt.Sprint(code)
	case code < 3000:
		return "1016-2999"
	case code < 4000:
		return "3000-3999"
	case code < 5000:
		return "4000-4999"
	default:
		return "5000+"
	}
}

func mkReason(n int, kind int) string {
	var b strings.Builder
	units := []string{"a", "é", "€", "\U0001F600"}
	for b.Len() < n {
		u := units[0]
		if kind > 0 {
			u = units[(b.Len()+kind)%4]
		}
		if b.Len()+len(u) > n {
			u = "z"
		}
		b.WriteString(u)
	}
	return b.String()
}

func checkBody(c *mon.C, code uint16, reason string) bool {
	c.Count(1)
	body := ws.NewCloseFrameBody(ws.StatusCode(code), reason)
	det := map[string]interface{}{"code": code, "reason_len": len(reason), "body_len": len(body)}
	if len(body) > 125 {
		c.Fail("closebody/too-long", fmt.Sprintf("NewCloseFrameBody built %d bytes", len(body)), det)
		return false
	}
	wantReason := reason
	if len(wantReason) > 123 {
		wantReason = wantReason[:123]
	}
	want := append([]byte{byte(code >> 8), byte(code)}, wantReason...)
	if !bytes.Equal(body, want) {
		c.Fail("closebody/bytes", "NewCloseFrameBody is not code(2, big endian) ++ reason cropped to 123 bytes", det)
		return false
	}
	for name, parse := range map[string]func([]byte) (ws.StatusCode, string){"ParseCloseFrameData": ws.ParseCloseFrameData, "ParseCloseFrameDataUnsafe": ws.ParseCloseFrameDataUnsafe} {
		gc, gr := parse(body)
		if uint16(gc) != code || gr != wantReason {
			c.Fail("closebody/parse/"+name, fmt.Sprintf("%s(body) = (%d, %d bytes), want (%d, %d bytes)", name, gc, len(gr), code, len(wantReason)), det)
			return false
		}
	}
	// the body belongs to the caller (a client masks it in place before sending):
	// scribbling over it must not influence the next body built from the same arguments
	for i := range body {
		body[i] ^= 0xa5
	}
	again := ws.NewCloseFrameBody(ws.StatusCode(code), reason)
	if !bytes.Equal(again, want) {
		c.Fail("closebody/shared-memory", "a body built after the caller modified an earlier body for the same (code, reason) differs: builder results share memory", det)
		return false
	}
	body = again
	if len(reason) <= 123 {
		// (the destination is a view into a larger buffer of the caller's: exactly 2+len(reason) bytes are written)
		p, _, neighbours := xport.Arena3(make([]byte, 2+len(reason)))
		ws.PutCloseFrameBody(p, ws.StatusCode(code), reason)
		if !bytes.Equal(p, body) {
			c.Fail("closebody/put", "PutCloseFrameBody differs from NewCloseFrameBody", det)
			return false
		}
		if w := neighbours(); w != "" {
			c.Fail("closebody/put-overrun", "PutCloseFrameBody: "+w, det)
			return false
		}
	}
	return true
}

func subCloseBody() mon.Sub {
	return mon.Sub{
		Name: "close-body", Required: true,
		N: func(t string) int { return 256 },
		Do: func(c *mon.C) {
			// all 256 codes of this block x boundary reason lengths, and for 8 codes every reason length 0..130 x 2 kinds
			lens := []int{0, 1, 2, 122, 123, 124, 125, 130, 300}
			full := 8
			if c.Tier == "thorough" {
				full = 256
			}
			for lo := 0; lo < 256; lo++ {
				code := uint16(c.I<<8 | lo)
				if lo < full {
					for n := 0; n <= 130; n++ {
						for kind := 0; kind < 2; kind++ {
							if !checkBody(c, code, mkReason(n, kind*(1+n%3))) {
								return
							}
						}
					}
				} else {
					for _, n := range lens {
						if !checkBody(c, code, mkReason(n, lo%4)) {
							return
						}
					}
				}
			}
			// payloads shorter than 2 bytes parse as "no code"
			for _, p := range [][]byte{nil, {}, {0x03}, {0xe8}, {byte(c.I)}} {
				c.Count(1)
				for name, parse := range map[string]func([]byte) (ws.StatusCode, string){"ParseCloseFrameData": ws.ParseCloseFrameData, "ParseCloseFrameDataUnsafe": ws.ParseCloseFrameDataUnsafe} {
					gc, gr := parse(p)
					if gc != 0 || gr != "" {
						c.Fail("closebody/short/"+name, fmt.Sprintf("%s(%x) = (%d,%q), want no code", name, p, gc, gr), nil)
						return
					}
				}
			}
			c.Classf("block=%d", c.I)
			c.Sample(map[string]interface{}{"codes": fmt.Sprintf("%d..%d", c.I<<8, c.I<<8|255), "reason_lengths": "0..130 for the first codes, boundary lengths for the rest"})
		},
	}
}

func main() {
	mon.Main(&mon.Spec{
		Property: "C03",
		Level:    "exploration",
		Rule: "exhaustive: (a) Fin x Rsv(8) x OpCode(16) x (Masked flag x key bytes zero / non-zero, independently) x 7 length classes x side{none,server,client} x extended x fragmented = 86016 (header,state) pairs against the reference rule set (accept iff no rule broken; reported error must name a broken rule), " +
			"(b) all 65536 close codes x 14 reasons (valid - incl. U+FFFD, non-characters, U+10FFFF, NUL - and invalid UTF-8) against the code classes of the statement, (c) body construction/parsing for all codes x reason lengths (0..130 for a subset in quick, for all codes in thorough), each body modified in place by the caller and built again (results must not share memory); (d) the exported classification predicates for all 256 opcode values and all 65536 status codes. " +
			"distinct = (opcode, side, extended, fragmented, broken-rule set) / (code range, class, reason kind) classes.",
		Assumptions: []string{"ref.BrokenRules and ref.CloseCodeClass transcribe the rule list of the property statement", "the exported ErrProtocol* values are mapped one-to-one to rules"},
		Subs:        []mon.Sub{subPredicates(), subHeaderGrid(), subCloseCodes(), subCloseBody()},
	})
}
