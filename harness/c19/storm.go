package main

import (
	"bytes"
	"fmt"
	"io"
	"math/rand"
	"runtime"
	"strings"
	"sync"
	"verifharness/ref"

	"github.com/gobwas/httphead"
	"github.com/gobwas/ws"
	"github.com/gobwas/ws/wsflate"
	"github.com/gobwas/ws/wsutil"

	"verifharness/mon"
)

// yieldW is a destination that yields the processor between taking a call and
// copying its bytes (a connection whose send buffer is full for a moment).
type yieldW struct{ b []byte }

func (w *yieldW) Write(p []byte) (int, error) {
	runtime.Gosched()
	w.b = append(w.b, p...)
	return len(p), nil
}

// yieldR hands out its bytes a few at a time, yielding before every read.
type yieldR struct {
	b    []byte
	step int
}

func (r *yieldR) Read(p []byte) (int, error) {
	runtime.Gosched()
	if len(r.b) == 0 {
		return 0, io.EOF
	}
	n := r.step
	if n > len(p) {
		n = len(p)
	}
	if n > len(r.b) {
		n = len(r.b)
	}
	copy(p, r.b[:n])
	r.b = r.b[n:]
	return n, nil
}

// statelessScript runs K calls of API functions that have no connection of
// their own - codecs, checks, constructors, one-call helpers - with inputs
// derived from seed only, and returns one line per call.
func statelessScript(seed int64, k int) []string {
	rng := rand.New(rand.NewSource(seed))
	var out []string
	add := func(format string, a ...interface{}) { out = append(out, fmt.Sprintf(format, a...)) }
	bytesOf := func(n int) []byte {
		p := make([]byte, n)
		rng.Read(p)
		return p
	}
	for i := 0; i < k; i++ {
		n := []int{0, 1, 5, 125, 126, 300, 4000}[rng.Intn(7)]
		h := ws.Header{Fin: rng.Intn(2) == 0, Rsv: byte(rng.Intn(8)), OpCode: ws.OpCode(rng.Intn(16)), Masked: rng.Intn(2) == 0, Length: int64(n)}
		if h.Masked {
			rng.Read(h.Mask[:])
		}
		switch rng.Intn(17) {
		case 0:
			var w yieldW
			err := ws.WriteHeader(&w, h)
			add("WriteHeader %v %x", err, w.b)
		case 1:
			f := ws.Frame{Header: h, Payload: bytesOf(n)}
			var w yieldW
			err := ws.WriteFrame(&w, f)
			add("WriteFrame %v %s", err, sum(w.b))
		case 2:
			f := ws.Frame{Header: h, Payload: bytesOf(n)}
			b, err := ws.CompileFrame(f)
			add("CompileFrame %v %s size=%d", err, sum(b), ws.HeaderSize(h))
		case 3:
			f := ws.Frame{Header: h, Payload: bytesOf(n)}
			b, _ := ws.CompileFrame(f)
			g, err := ws.ReadFrame(&yieldR{b: b, step: 1 + rng.Intn(9)})
			add("ReadFrame %v %+v %s", err, g.Header, sum(g.Payload))
		case 4:
			code := ws.StatusCode(rng.Intn(5000))
			reason := strings.Repeat(string(rune('a'+rng.Intn(26))), rng.Intn(140))
			body := ws.NewCloseFrameBody(code, reason)
			c2, r2 := ws.ParseCloseFrameData(body)
			add("CloseBody %d %s -> %d %q check=%v", code, sum(body), c2, r2, ws.CheckCloseFrameData(c2, r2))
		case 5:
			st := []ws.State{ws.StateServerSide, ws.StateClientSide, ws.StateServerSide | ws.StateExtended, ws.StateClientSide | ws.StateFragmented}[rng.Intn(4)]
			add("CheckHeader %v", ws.CheckHeader(h, st))
		case 6:
			f := ws.NewFrame(ws.OpBinary, true, bytesOf(n))
			m := ws.MaskFrame(f)
			u := ws.UnmaskFrame(m)
			add("Mask %x %s %v", m.Header.Mask != [4]byte{}, sum(ws.UnmaskFrame(m).Payload), bytes.Equal(u.Payload, f.Payload))
		case 7:
			p := bytesOf(n)
			var w yieldW
			err := wsutil.WriteClientMessage(&w, ws.OpBinary, p)
			g, op, err2 := wsutil.ReadClientData(struct {
				io.Reader
				io.Writer
			}{&yieldR{b: w.b, step: 1 + rng.Intn(50)}, io.Discard})
			add("ClientMessage %v %v %x %v", err, err2, op, bytes.Equal(g, p))
		case 8:
			p := bytesOf(n)
			var w yieldW
			err := wsutil.WriteServerMessage(&w, ws.OpText, p)
			add("ServerMessage %v %s", err, sum(w.b))
		case 9:
			p := bytes.Repeat([]byte{byte('a' + rng.Intn(26)), byte('A' + rng.Intn(26))}, n/2+1)
			f := ws.NewFrame(ws.OpText, true, p)
			cf, err := wsflate.CompressFrame(f)
			df, err2 := wsflate.DecompressFrame(cf)
			comp, _ := wsflate.IsCompressed(cf.Header)
			add("Flate %v %v %s rsv=%d compressed=%v %v", err, err2, sum(cf.Payload), cf.Header.Rsv, comp, bytes.Equal(df.Payload, p))
		case 10:
			g, err := wsflate.SetBit(h)
			u, was, err2 := wsflate.UnsetBit(h)
			add("Bits %v %d | %d %v %v", err, g.Rsv, u.Rsv, was, err2)
		case 11:
			// a control message answered through the handler helpers
			// (either role; empty frames - the replies built from the package's precompiled frames - as often as not)
			p := bytesOf(rng.Intn(126))
			if rng.Intn(2) == 0 {
				p = nil
			}
			op := ws.OpPing
			if p == nil && rng.Intn(3) == 0 {
				op = ws.OpClose
			}
			var w yieldW
			var err error
			clientRole := rng.Intn(2) == 0
			if clientRole {
				err = wsutil.HandleServerControlMessage(&w, wsutil.Message{OpCode: op, Payload: p})
			} else {
				err = wsutil.HandleClientControlMessage(&w, wsutil.Message{OpCode: op, Payload: p})
			}
			// the reply is a frame its peer can parse, masked exactly when a client sent it
			fs, consumed, bad := ref.ParseFrames(w.b)
			ok := bad == "" && consumed == len(w.b) && len(fs) == 1 && fs[0].H.Masked == clientRole && len(fs[0].Payload) == len(p)
			add("HandleControl client=%v op=%x %v parses=%v", clientRole, op, err, ok)
			if !ok {
				add("!! a reply no peer can parse: % x", w.b)
			}
		case 12:
			var e wsflate.Extension
			e.Parameters = wsflate.Parameters{ServerNoContextTakeover: rng.Intn(2) == 0, ClientMaxWindowBits: wsflate.WindowBits(8 + rng.Intn(8))}
			opt := httphead.Option{Name: []byte("permessage-deflate")}
			if rng.Intn(2) == 0 {
				opt.Parameters.Set([]byte("client_max_window_bits"), []byte(fmt.Sprint(8+rng.Intn(8))))
			}
			a, err := e.Negotiate(opt)
			p, ok := e.Accepted()
			add("Negotiate %v %s %+v %v", err, a.String(), p, ok)
		case 13:
			var hw yieldW
			n, err := ws.HandshakeHeaderString(fmt.Sprintf("X-K: %d\r\n", rng.Intn(1000))).WriteTo(&hw)
			add("HeaderString %d %v %s", n, err, hw.b)
		case 14, 15, 16:
			// a session that SKIPS payload: a message thrown away with Reader.Discard, a message of the unwanted type
			// dropped by the type-filtered helpers, an intermediate control frame its handler leaves unread - over a
			// source that captures what it delivers (a traffic recorder: io.TeeReader). The capture holds this
			// session's bytes, whatever other sessions are skipping at the same moment.
			var stream []byte
			enc := func(op byte, fin bool, p []byte) {
				f := ref.Frame{H: ref.Header{Fin: fin, Op: op, Masked: true}, Payload: p}
				rng.Read(f.H.Mask[:])
				stream = append(stream, f.Encode()...)
			}
			skipped, wanted := bytesOf(200+rng.Intn(3000)), []byte(fmt.Sprintf("wanted-%d", rng.Intn(100000)))
			enc(ref.OpBinary, false, skipped[:len(skipped)/2])
			enc(ref.OpPing, true, bytesOf(1+rng.Intn(100)))
			enc(ref.OpCont, true, skipped[len(skipped)/2:])
			enc(ref.OpText, true, wanted)
			var capture bytes.Buffer
			src := io.TeeReader(&yieldR{b: stream, step: 7 + rng.Intn(900)}, &capture)
			var got []byte
			var err error
			switch i % 3 {
			case 0:
				rd := &wsutil.Reader{Source: src, State: ws.StateServerSide}
				rd.OnIntermediate = func(ws.Header, io.Reader) error { return nil } // (leaves the ping unread)
				if _, err = rd.NextFrame(); err == nil {
					if err = rd.Discard(); err == nil {
						if _, err = rd.NextFrame(); err == nil {
							got, err = io.ReadAll(rd)
						}
					}
				}
			case 1:
				got, err = wsutil.ReadClientText(struct {
					io.Reader
					io.Writer
				}{src, io.Discard})
			default:
				var h ws.Header
				var r io.Reader
				if h, r, err = wsutil.NextReader(src, ws.StateServerSide); err == nil {
					_ = h
					io.CopyN(io.Discard, r, 3)
					if d, ok := r.(*wsutil.Reader); ok {
						err = d.Discard()
					}
					if err == nil {
						if _, r, err = wsutil.NextReader(src, ws.StateServerSide); err == nil {
							got, err = io.ReadAll(r)
						}
					}
				}
			}
			add("Skip %d %v %q capture-intact=%v", i%3, err, got, bytes.Equal(capture.Bytes(), stream[:capture.Len()]))
		}
	}
	return out
}

// subStatelessStorm: the functions that have no connection of their own are
// what concurrent connections share most: G goroutines run seeded scripts of
// them at the same time (under the race detector, destinations and sources
// yielding inside every call); each script's results must be those of the same
// script run alone.
// pristineShared: the package-level values as they are before this process has made a single library call.
var pristineShared = sharedHash()

func subStatelessStorm() mon.Sub {
	alone := map[int64][]string{}
	var mu sync.Mutex
	return mon.Sub{
		Name: "stateless-storm", Required: true,
		N: func(t string) int {
			if t == "thorough" {
				return 40
			}
			return 6
		},
		Do: func(c *mon.C) {
			g := []int{4, 16, 48}[c.I%3]
			procs := []int{1, 4, 16}[c.I/3%3]
			const k = 300
			seeds := make([]int64, g)
			for i := range seeds {
				seeds[i] = int64(c.I*1000 + i%7) // (some goroutines run the SAME script)
				mu.Lock()
				_, ok := alone[seeds[i]]
				mu.Unlock()
				if !ok {
					a := statelessScript(seeds[i], k)
					mu.Lock()
					alone[seeds[i]] = a
					mu.Unlock()
				}
			}
			old := runtime.GOMAXPROCS(procs)
			together := make([][]string, g)
			var wg sync.WaitGroup
			for i := range seeds {
				wg.Add(1)
				go func(i int) {
					defer wg.Done()
					together[i] = statelessScript(seeds[i], k)
				}(i)
			}
			wg.Wait()
			runtime.GOMAXPROCS(old)
			c.Count(g * k)
			for i := range seeds {
				mu.Lock()
				a := alone[seeds[i]]
				mu.Unlock()
				for j := range a {
					if j >= len(together[i]) || a[j] != together[i][j] {
						got := "<missing>"
						if j < len(together[i]) {
							got = together[i][j]
						}
						c.Fail("storm/"+strings.SplitN(a[j], " ", 2)[0], fmt.Sprintf("call %d of a script gave a different result when %d scripts ran at once", j, g),
							map[string]interface{}{"goroutines": g, "gomaxprocs": procs, "alone": a[j], "together": got, "script_seed": seeds[i]})
						return
					}
				}
			}
			if now := sharedHash(); now != pristineShared {
				c.Fail("storm/shared-state-changed", "after the scripts the package-level values every session shares (compiled frames, defaults) are not what they were when the process started", map[string]interface{}{"goroutines": g})
				return
			}
			for i := range seeds {
				for j, l := range together[i] {
					if strings.HasPrefix(l, "!!") {
						c.Fail("storm/unparsable-reply", fmt.Sprintf("call %d of a script: %s %s", j, together[i][j-1], l), map[string]interface{}{"goroutines": g, "script_seed": seeds[i]})
						return
					}
				}
			}
			c.Classf("g=%d procs=%d", g, procs)
			mu.Lock()
			first := alone[seeds[0]]
			mu.Unlock()
			c.Sample(map[string]interface{}{"goroutines": g, "gomaxprocs": procs, "calls_per_script": k, "first_lines": firstN(first, 3)})
		},
	}
}
