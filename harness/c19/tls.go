//go:build shim

package main

import (
	"crypto/ecdsa"
	"crypto/elliptic"
	"crypto/rand"
	"crypto/tls"
	"crypto/x509"
	"crypto/x509/pkix"
	"encoding/pem"
	"fmt"
	"math/big"
	"os"
	"time"
)

// wss sessions: a private CA (trusted by this process through SSL_CERT_FILE, set
// before crypto/x509 loads the system pool for the first time) and one server
// certificate per host name, so that sessions can dial wss://hostN.c19.test with
// NO TLSConfig and NO TLSClient - the library's own default TLS configuration,
// which is one more value shared by all connections.
const tlsHosts = 4

var hostCerts [tlsHosts]tls.Certificate

// caPool holds the private CA alone (for sessions that bring a TLS configuration of their own).
var caPool = x509.NewCertPool()

func hostName(i int) string { return fmt.Sprintf("host%d.c19.test", i%tlsHosts) }

func init() {
	caKey, err := ecdsa.GenerateKey(elliptic.P256(), rand.Reader)
	if err != nil {
		panic(err)
	}
	now := time.Now()
	caTpl := &x509.Certificate{SerialNumber: big.NewInt(1), Subject: pkix.Name{CommonName: "c19 test CA"}, NotBefore: now.Add(-time.Hour), NotAfter: now.Add(48 * time.Hour),
		IsCA: true, BasicConstraintsValid: true, KeyUsage: x509.KeyUsageCertSign | x509.KeyUsageDigitalSignature}
	caDER, err := x509.CreateCertificate(rand.Reader, caTpl, caTpl, &caKey.PublicKey, caKey)
	if err != nil {
		panic(err)
	}
	caCert, _ := x509.ParseCertificate(caDER)
	caPool.AddCert(caCert)
	f, err := os.CreateTemp("", "c19-ca-*.pem")
	if err != nil {
		panic(err)
	}
	pem.Encode(f, &pem.Block{Type: "CERTIFICATE", Bytes: caDER})
	f.Close()
	os.Setenv("SSL_CERT_FILE", f.Name())
	os.Setenv("SSL_CERT_DIR", "/nonexistent")
	for i := 0; i < tlsHosts; i++ {
		k, err := ecdsa.GenerateKey(elliptic.P256(), rand.Reader)
		if err != nil {
			panic(err)
		}
		tpl := &x509.Certificate{SerialNumber: big.NewInt(int64(10 + i)), Subject: pkix.Name{CommonName: hostName(i)}, DNSNames: []string{hostName(i)},
			NotBefore: now.Add(-time.Hour), NotAfter: now.Add(48 * time.Hour), KeyUsage: x509.KeyUsageDigitalSignature, ExtKeyUsage: []x509.ExtKeyUsage{x509.ExtKeyUsageServerAuth}}
		der, err := x509.CreateCertificate(rand.Reader, tpl, caCert, &k.PublicKey, caKey)
		if err != nil {
			panic(err)
		}
		hostCerts[i] = tls.Certificate{Certificate: [][]byte{der}, PrivateKey: k}
	}
	// the pool is loaded once per process: do it now, while the file certainly exists, then remove the file
	if _, err := x509.SystemCertPool(); err != nil {
		panic(err)
	}
	os.Remove(f.Name())
}
