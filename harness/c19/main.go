//go:build shim

// C19 — concurrent connections do not interfere through the library's shared pools.
package main

import (
	"bufio"
	"bytes"
	"compress/flate"
	"context"
	"crypto/sha1"
	"crypto/tls"
	"crypto/x509"
	"fmt"
	"io"
	"log"
	"net"
	"net/http"
	"net/url"
	"reflect"
	"regexp"
	"runtime"
	"strings"
	"sync"
	"sync/atomic"
	"time"

	"github.com/gobwas/httphead"
	"github.com/gobwas/pool"
	"github.com/gobwas/ws"
	"github.com/gobwas/ws/wsflate"
	"github.com/gobwas/ws/wsutil"

	"verifharness/fakeconn"
	"verifharness/mon"
	"verifharness/ref"
	"verifharness/xport"
)

// spec of one session (a client and a server talking over an in-memory duplex).
type spec struct {
	// shared is the extension offer list handed to the Dialer. In the concurrent run
	// all sessions of a case share ONE slice (a Dialer value with Extensions set is
	// meant to be reused); in the run-alone baseline every session has its own.
	shared  []httphead.Option
	id      int
	seed    int64
	server  int // 0 ws.Upgrader, 1 ws.HTTPUpgrader behind net/http
	client  int // 0 ws.Dialer, 1 wsutil.DebugDialer
	traffic int // 0 helpers, 1 Reader + GetWriter/PutWriter echo, 2 compressed frames via wsflate.Helper, 3 compressed writer/reader stack
	nmsg    int
	// fault: 0 none; 1 every client-side connection write fails from message faultAt on; 2 the same on the
	// server side. A failed session hands its writers/buffers back to the shared pools like any other; what
	// is checked is that the OTHER sessions do not notice. Error texts of a faulty session are normalised
	// (which of EOF / closed pipe the surviving peer sees is a race of the harness, not of the library).
	fault   int
	faultAt int
	// wss: the session dials wss://host<id>.c19.test with the library's DEFAULT TLS configuration (no TLSConfig,
	// no TLSClient) against a crypto/tls server holding that host's certificate (ws.Upgrader / ws.Dialer sessions only)
	wss bool
	// tlsMode (wss sessions): 0, 1 the library's default TLS configuration; 2 a Dialer.TLSConfig of the session's own
	// that trusts the private CA; 3 one that trusts NOBODY (empty RootCAs): its handshake must fail, however many
	// sessions to the same host name trusted the server before it
	tlsMode int
}

var errInjectedFault = fmt.Errorf("c19: injected connection write fault")

type faultConn struct {
	net.Conn
	mu    sync.Mutex
	armed bool
}

func (f *faultConn) arm() { f.mu.Lock(); f.armed = true; f.mu.Unlock() }
func (f *faultConn) Write(p []byte) (int, error) {
	f.mu.Lock()
	a := f.armed
	f.mu.Unlock()
	if a {
		return 0, errInjectedFault
	}
	return f.Conn.Write(p)
}

func errText(s spec, err error) string {
	if s.fault != 0 {
		return "(session with an injected fault)"
	}
	return fmt.Sprint(err)
}

func (s spec) String() string {
	return fmt.Sprintf("session %d: server=%d client=%d traffic=%d nmsg=%d seed=%d fault=%d@%d wss=%v", s.id, s.server, s.client, s.traffic, s.nmsg, s.seed, s.fault, s.faultAt, s.wss)
}

var sizeClasses = []int{0, 1, 100, 127, 128, 129, 255, 256, 4095, 4096, 4097, 65535, 65536, 65537, 100000}

func payloadOf(s spec, i int) []byte {
	x := uint64(s.seed)*2862933555777941757 + uint64(i)*3037000493 + 1
	n := sizeClasses[int(x>>33)%len(sizeClasses)]
	if n > 5000 && (x>>40)%3 != 0 {
		n = 300 + int(x>>45)%900
	}
	p := make([]byte, n)
	for j := range p {
		x = x*6364136223846793005 + 1442695040888963407
		p[j] = "abcdefghijklmnopqrstuvwxyz ABCDEF0123456789"[(x>>35)%43]
	}
	return p
}

// broadcastMsg is shared by all sessions of the process and never written to after init.
var broadcastMsg, broadcastSum = func() ([]byte, string) {
	p := make([]byte, 9000)
	for j := range p {
		p[j] = "the same bytes for every connection; "[j%37]
	}
	return p, sum(p)
}()

func sum(p []byte) string { h := sha1.Sum(p); return fmt.Sprintf("%d:%x", len(p), h[:6]) }

type transcript struct {
	mu    sync.Mutex
	lines []string
}

func (t *transcript) add(format string, a ...interface{}) {
	t.mu.Lock()
	t.lines = append(t.lines, fmt.Sprintf(format, a...))
	t.mu.Unlock()
}

// greets: the server of this session sends a message of its own right behind the handshake response.
func greets(s spec) bool { return s.server == 0 && !s.wss }

func greeting(s spec) []byte {
	return []byte(fmt.Sprintf("greeting for session %d: %s", s.id, strings.Repeat(string(rune('a'+s.id%26)), 20+s.id%200)))
}

var sideKeyRe = regexp.MustCompile(`(?i)Sec-WebSocket-Key: ([A-Za-z0-9+/=]{24})`)

// sideDial runs one more client handshake against a scripted peer whose (valid) response is padded with
// bytes that look nothing like a frame.
func sideDial(s spec, t *transcript) {
	sc := &fakeconn.Script{Plan: xport.Plan{Kind: "whole"}}
	sc.Respond = func(written []byte) []byte {
		m := sideKeyRe.FindSubmatch(written)
		if m == nil {
			return []byte("HTTP/1.1 400 Bad\r\n\r\n")
		}
		return []byte("HTTP/1.1 101 Switching Protocols\r\nUpgrade: websocket\r\nConnection: Upgrade\r\nSec-WebSocket-Accept: " + ref.Accept(string(m[1])) + "\r\nX-Fill: " + strings.Repeat("#", 600+s.id%300) + "\r\n\r\n")
	}
	u, _ := url.ParseRequestURI("ws://side.example/ctl")
	br, _, err := ws.Dialer{}.Upgrade(sc, u)
	if br != nil {
		ws.PutReader(br)
	}
	t.add("C side dial err=%v", err)
}

// coalesceConn holds the first write (the handshake response) back until the next one, so that both reach
// the peer in one piece, as they do when a server answers and greets in one TCP segment.
type coalesceConn struct {
	net.Conn
	mu   sync.Mutex
	held []byte
	done bool
}

func (c *coalesceConn) Write(p []byte) (int, error) {
	c.mu.Lock()
	defer c.mu.Unlock()
	if !c.done && c.held == nil {
		c.held = append([]byte{}, p...)
		return len(p), nil
	}
	if !c.done {
		c.done = true
		if _, err := c.Conn.Write(append(c.held, p...)); err != nil {
			return 0, err
		}
		return len(p), nil
	}
	return c.Conn.Write(p)
}

func (c *coalesceConn) Close() error {
	c.mu.Lock()
	if !c.done && c.held != nil {
		c.done = true
		c.Conn.Write(c.held) // a refused handshake: the error response still goes out
	}
	c.mu.Unlock()
	return c.Conn.Close()
}

func protoOf(s spec) string { return fmt.Sprintf("proto-%d.v%d", s.seed%7, s.seed%3) }

func compressedMode(s spec) bool { return s.traffic >= 2 }

func newFlateWriter(w io.Writer) wsflate.Compressor   { f, _ := flate.NewWriter(w, 5); return f }
func newFlateReader(r io.Reader) wsflate.Decompressor { return flate.NewReader(r) }

// Every session has its OWN wsflate.Helper value, and the sessions differ in codec configuration (flate level 9 /
// 1 / Huffman-only; a decompressor that refuses more than 1 MiB): what a session puts on the wire, and how its
// input is inflated, must be its own helper's doing.
var helpers = func() (hs [3]*wsflate.Helper) {
	for i, lvl := range []int{9, 1, flate.HuffmanOnly} {
		lvl := lvl
		hs[i] = &wsflate.Helper{
			Compressor:   func(w io.Writer) wsflate.Compressor { f, _ := flate.NewWriter(w, lvl); return f },
			Decompressor: func(r io.Reader) wsflate.Decompressor { return flate.NewReader(io.LimitReader(r, 1<<20+int64(lvl))) },
		}
	}
	return
}()

// One session in four works with the library's SHARED default helper instead of one of its own.
func helperOf(s spec) *wsflate.Helper {
	if s.seed%4 == 3 {
		return &wsflate.DefaultHelper
	}
	return helpers[int(s.seed)%3]
}

// sessionFlate compresses one message of a Writer/Reader-stack session into w. Half of the sessions keep ONE
// wsflate.Writer for the life of the connection - Reset, Write, Flush, Close per message, the documented way to re-use
// it - built on the constructor of the library's default helper (which every session using the defaults shares); the
// others make a new one per message from their own constructor.
func sessionFlate(s spec, keep **wsflate.Writer, w io.Writer, p []byte) error {
	if s.seed%2 == 1 {
		fw := wsflate.NewWriter(w, newFlateWriter)
		if _, err := fw.Write(p); err != nil {
			return err
		}
		return fw.Flush()
	}
	if *keep == nil {
		*keep = wsflate.NewWriter(w, wsflate.DefaultHelper.Compressor)
	} else {
		(*keep).Reset(w)
	}
	fw := *keep
	if _, err := fw.Write(p); err != nil {
		return err
	}
	if err := fw.Flush(); err != nil {
		return err
	}
	return fw.Close()
}

// ---- server side

func serve(s spec, conn net.Conn, hs ws.Handshake, herr error, t *transcript) {
	defer conn.Close()
	t.add("S handshake err=%v protocol=%q ext=%s", herr, hs.Protocol, extString(hs.Extensions))
	if herr != nil {
		if s.fault == 4 {
			// the application logs the refusal LATER (a log pipeline, an error channel): other sessions shake hands
			// in the meantime; the error is this session's, whenever it is formatted
			for i := 0; i < 2+s.id%5; i++ {
				runtime.Gosched()
			}
			t.add("S refused offer, formatted later: %v", herr)
		}
		return
	}
	st := ws.StateServerSide
	fc := &faultConn{Conn: conn}
	conn = fc
	var sfw *wsflate.Writer
	for mi := 0; ; mi++ {
		if s.fault == 2 && mi == s.faultAt {
			fc.arm()
		}
		var payload []byte
		var op ws.OpCode
		var err error
		switch s.traffic {
		case 0:
			payload, op, err = wsutil.ReadClientData(conn)
			if err == nil {
				err = wsutil.WriteServerMessage(conn, op, payload)
			}
		case 1:
			rd := wsutil.NewServerSideReader(conn)
			rd.OnIntermediate = wsutil.ControlFrameHandler(conn, st)
			var h ws.Header
			for {
				h, err = rd.NextFrame()
				if err != nil || !h.OpCode.IsControl() {
					break
				}
				if err = wsutil.ControlFrameHandler(conn, st)(h, rd); err != nil {
					break
				}
			}
			if err == nil {
				op = h.OpCode
				w := wsutil.GetWriter(conn, st, op, 512)
				var n int64
				n, err = io.Copy(w, rd)
				_ = n
				if err == nil {
					err = w.Flush()
				}
				wsutil.PutWriter(w)
				payload = nil
				t.add("S echoed-stream op=%x", op)
			}
		case 2:
			var f ws.Frame
			for {
				f, err = ws.ReadFrame(conn)
				if err != nil {
					break
				}
				f = ws.UnmaskFrameInPlace(f)
				if f.Header.OpCode.IsControl() {
					err = wsutil.HandleClientControlMessage(conn, wsutil.Message{OpCode: f.Header.OpCode, Payload: f.Payload})
					if err != nil {
						break
					}
					continue
				}
				break
			}
			if err == nil {
				var df ws.Frame
				t.add("S got compressed %s", sum(f.Payload))
				df, err = helperOf(s).DecompressFrame(f)
				if err == nil {
					payload, op = df.Payload, df.Header.OpCode
					var cf ws.Frame
					cf, err = helperOf(s).CompressFrame(ws.NewFrame(op, true, payload))
					if err == nil {
						err = ws.WriteFrame(conn, cf)
					}
				}
			}
		case 3:
			ms := &wsflate.MessageState{}
			rd := &wsutil.Reader{Source: conn, State: st | ws.StateExtended, Extensions: []wsutil.RecvExtension{ms}, OnIntermediate: wsutil.ControlFrameHandler(conn, st)}
			var h ws.Header
			for {
				h, err = rd.NextFrame()
				if err != nil || !h.OpCode.IsControl() {
					break
				}
				if err = wsutil.ControlFrameHandler(conn, st)(h, rd); err != nil {
					break
				}
			}
			if err == nil {
				op = h.OpCode
				var src io.Reader = rd
				if ms.IsCompressed() {
					src = wsflate.NewReader(rd, newFlateReader)
				}
				payload, err = io.ReadAll(src)
				if err == nil {
					wms := &wsflate.MessageState{}
					wms.SetCompressed(true)
					w := wsutil.GetWriter(conn, st, op, 256)
					w.SetExtensions(wms)
					err = sessionFlate(s, &sfw, w, payload)
					if err == nil {
						err = w.Flush()
					}
					wsutil.PutWriter(w)
				}
			}
		}
		if err != nil {
			if ce, ok := err.(wsutil.ClosedError); ok {
				t.add("S closed code=%d reason=%q", ce.Code, ce.Reason)
			} else {
				t.add("S error %s", errText(s, err))
			}
			return
		}
		if payload != nil {
			t.add("S echoed op=%x %s", op, sum(payload))
		}
	}
}

func extString(opts []httphead.Option) string {
	var parts []string
	for _, o := range opts {
		s := string(o.Name)
		o.Parameters.ForEach(func(k, v []byte) bool { s += fmt.Sprintf(";%s=%s", k, v); return true })
		parts = append(parts, s)
	}
	return strings.Join(parts, ",")
}

func negotiator(t *transcript) func(httphead.Option) (httphead.Option, error) {
	e := &wsflate.Extension{Parameters: wsflate.DefaultParameters}
	return func(o httphead.Option) (httphead.Option, error) {
		t.add("S offer %s", extString([]httphead.Option{o}))
		return e.Negotiate(o)
	}
}

// badOffer: a permessage-deflate offer whose server_max_window_bits value (16 + the session's id: unique among the
// sessions of a case) is out of range; the server's negotiator refuses it with an error that names the value.
func badOffer(s spec) []httphead.Option {
	o := httphead.Option{Name: []byte("permessage-deflate")}
	o.Parameters.Set([]byte("server_max_window_bits"), []byte(fmt.Sprint(16+s.id)))
	return []httphead.Option{o}
}

func offerList() []httphead.Option {
	o := httphead.Option{Name: []byte("permessage-deflate")}
	o.Parameters.Set([]byte("client_max_window_bits"), nil)
	o.Parameters.Set([]byte("server_no_context_takeover"), nil)
	o.Parameters.Set([]byte("client_no_context_takeover"), nil)
	return []httphead.Option{o}
}

// ---- net/http server for the HTTPUpgrader role

var (
	httpOnce sync.Once
	httpCh   chan net.Conn
)

type tagged struct {
	net.Conn
	s spec
	t *transcript
	d chan struct{}
}
type key struct{}
type plistener struct{}

func (plistener) Accept() (net.Conn, error) { return <-httpCh, nil }
func (plistener) Close() error              { return nil }
func (plistener) Addr() net.Addr            { return &net.TCPAddr{} }

func startHTTP() {
	httpOnce.Do(func() {
		httpCh = make(chan net.Conn)
		srv := &http.Server{
			ErrorLog: log.New(io.Discard, "", 0),
			ConnContext: func(ctx context.Context, c net.Conn) context.Context {
				return context.WithValue(ctx, key{}, c.(*tagged))
			},
			Handler: http.HandlerFunc(func(w http.ResponseWriter, r *http.Request) {
				tg := r.Context().Value(key{}).(*tagged)
				defer close(tg.d)
				u := ws.HTTPUpgrader{Protocol: func(p string) bool { return p == protoOf(tg.s) }}
				if compressedMode(tg.s) {
					u.Negotiate = negotiator(tg.t)
				}
				conn, rw, hs, err := u.Upgrade(r, w)
				if err != nil {
					tg.t.add("S handshake err=%v", err)
					if conn != nil {
						conn.Close()
					}
					return
				}
				_ = rw
				serve(tg.s, conn, hs, nil, tg.t)
			}),
		}
		go srv.Serve(plistener{})
	})
}

// ---- client side

func runSession(s spec) *transcript {
	t := &transcript{}
	cc, sc := fakeconn.BufPipe()
	sdone := make(chan struct{})
	if s.server == 1 {
		startHTTP()
		httpCh <- &tagged{Conn: sc, s: s, t: t, d: sdone}
	} else {
		go func() {
			defer close(sdone)
			u := ws.Upgrader{Protocol: func(p []byte) bool { return string(p) == protoOf(s) }}
			if compressedMode(s) {
				u.Negotiate = negotiator(t)
			}
			if s.id%3 != 0 {
				// the application's callbacks take part in the handshake (and take their time:
				// an auth backend, say), each seeing this session's request only
				u.OnRequest = func(uri []byte) error { t.add("S on-request %s", uri); runtime.Gosched(); return nil }
				u.OnHost = func(h []byte) error { t.add("S on-host %s", h); return nil }
				u.OnHeader = func(k, v []byte) error {
					if strings.HasPrefix(string(k), "X-Session") {
						t.add("S on-header %s=%s", k, v)
					}
					return nil
				}
				u.OnBeforeUpgrade = func() (ws.HandshakeHeader, error) {
					for i := 0; i < 1+s.id%4; i++ {
						runtime.Gosched()
					}
					return ws.HandshakeHeaderString(fmt.Sprintf("X-Session-Reply: %d\r\n", s.id)), nil
				}
			}
			var conn net.Conn = sc
			if s.wss {
				tc := tls.Server(sc, &tls.Config{Certificates: []tls.Certificate{hostCerts[s.id%tlsHosts]}})
				herr := tc.Handshake()
				t.add("S tls sni=%q err=%v", tc.ConnectionState().ServerName, herr != nil)
				if herr != nil {
					sc.Close()
					return
				}
				conn = tc
			}
			if greets(s) {
				conn = &coalesceConn{Conn: conn}
			}
			hs, err := u.Upgrade(conn)
			if err == nil && greets(s) {
				// the server speaks first: its greeting leaves in the same burst as the 101 response
				if gerr := wsutil.WriteServerMessage(conn, ws.OpText, greeting(s)); gerr != nil {
					t.add("S greeting error")
				}
			}
			serve(s, conn, hs, err, t)
		}()
	}
	d := ws.Dialer{Protocols: []string{"other.v9", protoOf(s)}, NetDial: func(ctx context.Context, n, a string) (net.Conn, error) { return cc, nil }}
	if s.id%3 != 0 {
		d.Header = ws.HandshakeHeaderString(fmt.Sprintf("X-Session-Id: %d\r\n", s.id))
		d.OnHeader = func(k, v []byte) error {
			if strings.HasPrefix(string(k), "X-Session") {
				t.add("C on-header %s=%s", k, v)
			}
			return nil
		}
	}
	if compressedMode(s) {
		d.Extensions = s.shared
		if d.Extensions == nil {
			d.Extensions = offerList()
		}
		if s.fault == 4 {
			d.Extensions = badOffer(s)
		}
	}
	var conn net.Conn
	var br *bufio.Reader
	var hs ws.Handshake
	var err error
	ctx := context.Background()
	if s.id%2 == 1 {
		var cancel context.CancelFunc
		ctx, cancel = context.WithTimeout(ctx, 5*time.Minute)
		defer cancel()
	}
	target := "ws://c19.example/s"
	if s.wss {
		target = "wss://" + hostName(s.id) + "/s"
		switch s.tlsMode {
		case 2:
			d.TLSConfig = &tls.Config{RootCAs: caPool}
		case 3:
			d.TLSConfig = &tls.Config{RootCAs: x509.NewCertPool()}
		}
	}
	if s.client == 1 {
		dd := wsutil.DebugDialer{Dialer: d, OnRequest: func(p []byte) { t.add("C request %d bytes", len(keyless(p))) }, OnResponse: func(p []byte) {}}
		conn, br, hs, err = dd.Dial(ctx, target)
	} else {
		conn, br, hs, err = d.Dial(ctx, target)
	}
	t.add("C handshake err=%v protocol=%q ext=%s", err, hs.Protocol, extString(hs.Extensions))
	if err != nil {
		cc.Close()
		<-sdone
		return t
	}
	if greets(s) {
		// frames sent with the response sit in the buffer Dial returned; other sessions shake hands in the
		// meantime (and take their read buffers from the same pool) before this one gets round to reading it
		for i := 0; i < 1+s.id%5; i++ {
			runtime.Gosched()
		}
		if s.id%4 != 0 {
			// ... and this very goroutine dials a second connection (a control channel, say) before it
			// looks at the first greeting: that handshake takes ITS read buffer from the pool as well
			sideDial(s, t)
		}
		var src io.Reader = conn
		if br != nil {
			src = br
		}
		g, gop, gerr := wsutil.ReadServerData(struct {
			io.Reader
			io.Writer
		}{src, conn})
		t.add("C greeting op=%x ok=%v err=%v", gop, bytes.Equal(g, greeting(s)), gerr)
	}
	if br != nil {
		ws.PutReader(br)
	}
	st := ws.StateClientSide
	cfc := &faultConn{Conn: conn}
	conn = cfc
	var cfw *wsflate.Writer // (kept for the life of the connection by half of the stack sessions, see sessionFlate)
	for i := 0; i < s.nmsg; i++ {
		if s.fault == 1 && i == s.faultAt {
			cfc.arm()
		}
		p := payloadOf(s, i)
		if s.traffic <= 1 && i == 1 {
			// a broadcast: every such session sends THE SAME slice (what a hub does with one encoded message and
			// many connections) - it is the caller's, read-only for everybody
			p = broadcastMsg[:len(broadcastMsg)-s.id%3]
		}
		op := []ws.OpCode{ws.OpText, ws.OpBinary}[i%2]
		if i%2 == 1 {
			if err = wsutil.WriteClientMessage(conn, ws.OpPing, pingOf(s, i)); err != nil {
				break
			}
		}
		switch s.traffic {
		case 0:
			if s.fault == 3 && i == s.faultAt {
				// this session's client misbehaves: a text message cut inside a character. Its server refuses it - and
				// that is this session's business only
				bad := append([]byte("text cut inside a character: caf"), 0xc3)
				err = ws.WriteFrame(conn, ws.MaskFrameInPlace(ws.NewTextFrame(bad)))
				t.add("C sent invalid text")
				break
			}
			if i%3 == 2 {
				// header + streaming mask writer (its scratch buffers come from the shared byte pool)
				h := ws.Header{Fin: true, OpCode: op, Masked: true, Mask: ws.NewMask(), Length: int64(len(p))}
				if err = ws.WriteHeader(conn, h); err == nil {
					cw := wsutil.NewCipherWriter(conn, h.Mask)
					for off := 0; off < len(p) && err == nil; off += 700 {
						end := off + 700
						if end > len(p) {
							end = len(p)
						}
						_, err = cw.Write(p[off:end])
					}
				}
			} else {
				err = wsutil.WriteClientMessage(conn, op, p)
			}
		case 1:
			w := wsutil.GetWriter(conn, st, op, 256)
			for off := 0; off < len(p) && err == nil; off += 1000 {
				end := off + 1000
				if end > len(p) {
					end = len(p)
				}
				_, err = w.Write(p[off:end])
			}
			if len(p) == 0 {
				w.Write(nil)
			}
			if err == nil {
				err = w.Flush()
			}
			wsutil.PutWriter(w)
		case 2:
			var cf ws.Frame
			cf, err = helperOf(s).CompressFrame(ws.NewFrame(op, true, p))
			t.add("C sent compressed %s", sum(cf.Payload))
			if err == nil {
				err = ws.WriteFrame(conn, ws.MaskFrameInPlace(cf))
			}
		case 3:
			wms := &wsflate.MessageState{}
			wms.SetCompressed(i%3 != 2)
			w := wsutil.GetWriter(conn, st, op, 128)
			w.SetExtensions(wms)
			if wms.IsCompressed() {
				err = sessionFlate(s, &cfw, w, p)
			} else {
				_, err = w.Write(p)
			}
			if err == nil {
				err = w.Flush()
			}
			wsutil.PutWriter(w)
		}
		if err != nil {
			break
		}
		// read the echo
		var got []byte
		var gop ws.OpCode
		switch s.traffic {
		case 1:
			// message by message through NextReader, with the defensive drain some applications do after the end of
			// a message: that reader is finished - nothing more comes out of it, whatever other sessions are reading
			for err == nil {
				var h ws.Header
				var r io.Reader
				if h, r, err = wsutil.NextReader(conn, st); err != nil {
					break
				}
				var p []byte
				if p, err = io.ReadAll(r); err != nil {
					break
				}
				for y := 0; y < 1+s.id%3; y++ {
					runtime.Gosched()
				}
				var extra [16]byte
				if n, e2 := r.Read(extra[:]); n != 0 || e2 == nil {
					t.add("C read %d more bytes (err=%v) from a message reader that had reported its end ok=false", n, e2)
				}
				if h.OpCode.IsControl() {
					t.add("C control op=%x %s", h.OpCode, p)
					continue
				}
				got, gop = p, h.OpCode
				break
			}
		case 0:
			if s.traffic == 0 && i%2 == 1 {
				// a ping went out before this message: read frame by frame so that the pong
				// payload gets into the transcript (the echo of mode 0 is a single frame)
				var f ws.Frame
				for {
					f, err = ws.ReadFrame(conn)
					if err != nil || !f.Header.OpCode.IsControl() {
						break
					}
					t.add("C control op=%x %s", f.Header.OpCode, f.Payload)
				}
				got, gop = f.Payload, f.Header.OpCode
				break
			}
			got, gop, err = wsutil.ReadServerData(conn)
		case 2:
			var f ws.Frame
			for {
				f, err = ws.ReadFrame(conn)
				if err != nil || !f.Header.OpCode.IsControl() {
					break
				}
				t.add("C control op=%x %s", f.Header.OpCode, f.Payload)
			}
			if err == nil {
				t.add("C got compressed %s", sum(f.Payload))
				f, err = helperOf(s).DecompressFrame(f)
				got, gop = f.Payload, f.Header.OpCode
			}
		case 3:
			ms := &wsflate.MessageState{}
			rd := &wsutil.Reader{Source: conn, State: st | ws.StateExtended, Extensions: []wsutil.RecvExtension{ms}, OnIntermediate: wsutil.ControlFrameHandler(conn, st)}
			var h ws.Header
			for {
				h, err = rd.NextFrame()
				if err != nil || !h.OpCode.IsControl() {
					break
				}
				var cp []byte
				cp, err = io.ReadAll(rd)
				t.add("C control op=%x %s", h.OpCode, cp)
				if err != nil {
					break
				}
			}
			if err == nil {
				gop = h.OpCode
				var src io.Reader = rd
				if ms.IsCompressed() {
					src = wsflate.NewReader(rd, newFlateReader)
				}
				got, err = io.ReadAll(src)
			}
		}
		if err != nil {
			break
		}
		ok := bytes.Equal(got, p) && gop == op
		t.add("C echo %d op=%x %s ok=%v", i, gop, sum(got), ok)
	}
	if err != nil {
		t.add("C error %s", errText(s, err))
		conn.Close()
		<-sdone
		return t
	}
	// closing handshake
	if s.id%4 == 0 {
		// a reason-less close with a spec-defined code, built with the frame constructors and masked IN PLACE
		// (legal: the body belongs to the caller), as a client without the wsutil helpers does
		code := []ws.StatusCode{ws.StatusNormalClosure, ws.StatusGoingAway, ws.StatusPolicyViolation, ws.StatusInternalServerError}[int(s.seed)%4]
		ws.WriteFrame(conn, ws.MaskFrameInPlace(ws.NewCloseFrame(ws.NewCloseFrameBody(code, ""))))
	} else {
		wsutil.WriteClientMessage(conn, ws.OpClose, ws.NewCloseFrameBody(ws.StatusNormalClosure, reasonOf(s)))
	}
	f, err := ws.ReadFrame(conn)
	for err == nil && f.Header.OpCode != ws.OpClose {
		f, err = ws.ReadFrame(conn)
	}
	if err == nil {
		code, reason := ws.ParseCloseFrameData(f.Payload)
		t.add("C close-echo code=%d reason=%q", code, reason)
	} else {
		t.add("C close error %s", errText(s, err))
	}
	conn.Close()
	<-sdone
	return t
}

func keyless(p []byte) []byte { return p }

// pingOf: ping payloads from a few bytes up to the 125-byte limit, so that the
// control handler's reply buffer comes from the unpooled path as well as from
// the shared byte pool's 128 and 256 classes.
func pingOf(s spec, i int) []byte {
	if (s.id+i)%7 == 3 {
		return nil // (an empty ping: the reply is built from the package's precompiled frame)
	}
	p := []byte(fmt.Sprintf("ping-%d-%d.", s.id, i))
	n := []int{len(p), 63, 100, 125, 59, 64}[(s.id+i)%6]
	for k := 0; len(p) < n; k++ {
		p = append(p, byte('a'+(s.id*7+i*3+k)%26))
	}
	return p
}

// reasonOf: short and long (pooled reply buffer) close reasons.
func reasonOf(s spec) string {
	r := fmt.Sprintf("bye-%d", s.id)
	if s.id%2 == 1 {
		for k := 0; len(r) < 60+s.id%60; k++ {
			r += string(rune('A' + (s.id+k)%26))
		}
	}
	return r
}

func sortLines(t *transcript) (c, s []string) {
	for _, l := range t.lines {
		if strings.HasPrefix(l, "C ") {
			c = append(c, l)
		} else {
			s = append(s, l)
		}
	}
	return
}

// shared package-level values that must never change
func sharedHash() string {
	h := sha1.New()
	for _, b := range [][]byte{ws.CompiledPing, ws.CompiledPong, ws.CompiledClose, ws.CompiledCloseNormalClosure, ws.CompiledCloseGoingAway, ws.CompiledCloseProtocolError, ws.CompiledCloseUnsupportedData,
		ws.CompiledCloseNoMeaningYet, ws.CompiledCloseInvalidFramePayloadData, ws.CompiledClosePolicyViolation, ws.CompiledCloseMessageTooBig, ws.CompiledCloseMandatoryExt, ws.CompiledCloseInternalServerError, ws.CompiledCloseTLSHandshake} {
		h.Write(b)
		h.Write([]byte{0xff})
	}
	fmt.Fprintf(h, "%v|%v|%v|%v|%d|%v", reflect.ValueOf(ws.DefaultUpgrader).IsZero(), reflect.ValueOf(ws.DefaultHTTPUpgrader).IsZero(), reflect.ValueOf(ws.DefaultDialer).IsZero(), wsflate.DefaultParameters, wsutil.DefaultWriteBuffer,
		wsflate.DefaultHelper.Compressor != nil && wsflate.DefaultHelper.Decompressor != nil)
	return fmt.Sprintf("%x", h.Sum(nil))
}

var (
	baseMu   sync.Mutex
	baseline = map[string]*transcript{}
)

func specsFor(c *mon.C, n int, mix int) []spec {
	var out []spec
	for i := 0; i < n; i++ {
		s := spec{id: i, seed: int64(c.Rng.Intn(1000)), nmsg: 3 + c.Rng.Intn(4)}
		switch mix {
		case 0: // plain helpers, all roles
			s.server, s.client, s.traffic = i%2, (i/2)%2, 0
		case 1: // reader + pooled writers
			s.server, s.client, s.traffic = (i/2)%2, i%2, 1
		case 2: // compressed
			s.server, s.client, s.traffic = i%2, 0, 2+(i/2)%2
		case 3: // everything
			s.server, s.client, s.traffic = i%2, (i/2)%2, i%4
		}
		if s.server == 0 && i%3 != 2 {
			s.wss = true // most ws.Upgrader sessions run over TLS with the library's default client configuration
			s.tlsMode = int(s.seed+int64(s.id)) % 4
		}
		if s.traffic == 0 && i%7 == 2 && n > 4 {
			s.fault, s.faultAt = 3, 1+int(s.seed)%(s.nmsg-1) // its client sends invalid text
		} else if i%5 == 3 && n > 4 { // one session in five breaks half way
			s.fault = 1 + (i/5)%2
			s.faultAt = 1 + int(s.seed)%(s.nmsg-1)
		}
		if s.fault == 0 && compressedMode(s) && i%6 == 4 && n > 4 && !(s.wss && s.tlsMode == 3) {
			s.fault = 4 // its client offers permessage-deflate with a parameter value no server can take: refused
		}
		out = append(out, s)
	}
	return out
}

func subSessions() mon.Sub {
	return mon.Sub{
		Name: "sessions", Serial: true, Required: true,
		N: func(t string) int {
			if t == "thorough" {
				return 3 * 4 * 4 * 3
			}
			return 3 * 3 * 4
		},
		Do: func(c *mon.C) {
			ns := []int{4, 16, 40}
			procs := []int{1, 4, 16}
			if c.Tier == "thorough" {
				ns = []int{4, 16, 64}
				procs = []int{1, 2, 4, 16}
			}
			n := ns[c.I%len(ns)]
			gp := procs[c.I/len(ns)%len(procs)]
			mix := c.I / len(ns) / len(procs) % 4
			specs := specsFor(c, n, mix)
			before := sharedHash()
			// run-alone transcripts (memoised per session spec)
			pool.Configure(true, pool.ReuseLIFO, false, true)
			alone := make([]*transcript, n)
			for i, s := range specs {
				k := fmt.Sprintf("%d/%d/%d/%d/%d/%d@%d", s.seed, s.server, s.client, s.traffic, s.nmsg, s.fault, s.faultAt) + fmt.Sprint(s.id%2, s.id, s.wss, s.tlsMode)
				baseMu.Lock()
				b := baseline[k]
				baseMu.Unlock()
				if b == nil {
					b = runSession(s)
					baseMu.Lock()
					baseline[k] = b
					baseMu.Unlock()
				}
				alone[i] = b
			}
			// concurrent run, yields injected inside pool Put/Get
			old := runtime.GOMAXPROCS(gp)
			pool.Configure(true, pool.ReuseLIFO, true, true)
			st0 := pool.ReadStats()
			together := make([]*transcript, n)
			sharedOffer := offerList()
			for i := range specs {
				specs[i].shared = sharedOffer
			}
			var wg sync.WaitGroup
			done := make(chan struct{})
			for i := range specs {
				wg.Add(1)
				go func(i int) {
					defer wg.Done()
					together[i] = runSession(specs[i])
				}(i)
			}
			go func() { wg.Wait(); close(done) }()
			// (a round of sessions takes seconds; once one round of this process got stuck - which does not happen on
			// a healthy tree - the later ones are given 40 s instead of 240 s, so that a sick tree is reported in
			// minutes, by the rounds that do finish, rather than in half an hour)
			patience := 240 * time.Second
			if stuckRounds.Load() > 0 {
				patience = 40 * time.Second
			}
			select {
			case <-done:
			case <-time.After(patience):
				stuckRounds.Add(1)
				runtime.GOMAXPROCS(old)
				c.Inconclusive(fmt.Sprintf("sessions stuck for %v (n=%d procs=%d mix=%d)", patience, n, gp, mix))
				return
			}
			runtime.GOMAXPROCS(old)
			pool.Configure(true, pool.ReuseLIFO, false, true)
			st1 := pool.ReadStats()
			c.Count(n)
			msgs, faulty := 0, 0
			for i := range specs {
				ac, as := sortLines(alone[i])
				tc, ts := sortLines(together[i])
				msgs += len(tc) + len(ts)
				if strings.Join(ac, "\n") != strings.Join(tc, "\n") || strings.Join(as, "\n") != strings.Join(ts, "\n") {
					c.Fail(fmt.Sprintf("transcript/traffic%d", specs[i].traffic), "a session observed different results when run concurrently with others than when run alone: "+specs[i].String(),
						map[string]interface{}{"session": specs[i].String(), "n": n, "gomaxprocs": gp, "mix": mix, "alone_client": ac, "together_client": tc, "alone_server": as, "together_server": ts})
					return
				}
				if specs[i].wss && specs[i].tlsMode == 3 {
					// a session whose own TLS configuration trusts nobody: it never gets past the TLS handshake
					if !strings.Contains(strings.Join(tc, "\n"), "unknown authority") {
						c.Fail("tls/own-configuration-not-applied", "a session whose Dialer.TLSConfig trusts no authority completed the TLS handshake: "+specs[i].String(), map[string]interface{}{"client": tc, "server": ts})
						return
					}
					continue
				}
				if specs[i].fault == 4 {
					faulty++
					own := fmt.Sprintf("%q", fmt.Sprint(16+specs[i].id))
					seen := 0
					for _, l := range ts {
						if strings.HasPrefix(l, "S handshake err=") || strings.HasPrefix(l, "S refused offer") {
							seen++
							if !strings.Contains(l, own) || strings.Contains(l, "err=<nil>") {
								c.Fail("error-text/not-the-sessions-own-offer", "the error a server session got for its client's malformed extension offer does not name that offer's value "+own+": "+l, map[string]interface{}{"session": specs[i].String(), "server": ts})
								return
							}
						}
					}
					if seen == 0 {
						c.Fail("harness/refused-offer-not-reached", "the session with a malformed offer never reported its handshake", map[string]interface{}{"session": specs[i].String(), "server": ts, "client": tc})
						return
					}
					continue
				}
				if specs[i].fault != 0 {
					faulty++
					if !strings.Contains(strings.Join(tc, "\n"), "error") {
						c.Fail("fault-not-observed", "a session with an injected write fault reported no error: "+specs[i].String(), map[string]interface{}{"client": tc, "server": ts})
						return
					}
					continue
				}
				for _, l := range tc {
					if strings.Contains(l, "ok=false") || strings.Contains(l, "error") || (strings.HasPrefix(l, "C handshake") && !strings.Contains(l, "err=<nil>")) {
						c.Fail(fmt.Sprintf("session/traffic%d", specs[i].traffic), "a session failed (also when run alone): "+l, map[string]interface{}{"session": specs[i].String(), "client": tc, "server": ts})
						return
					}
				}
			}
			if sum(broadcastMsg) != broadcastSum {
				c.Fail("caller-bytes/broadcast", "the slice that the sessions sent as a broadcast no longer holds the caller's bytes after the sessions ended", map[string]interface{}{"n": n, "gomaxprocs": gp, "mix": mix})
				return
			}
			pool.VerifyQuarantine()
			if al := pool.TakeAlarms(); len(al) > 0 {
				kind := "write-after-put"
				if strings.HasPrefix(al[0], "double-put") {
					kind = "double-put"
				}
				c.Fail("shim/"+kind, "pool shim alarm: "+al[0], map[string]interface{}{"alarms": al})
				return
			}
			if after := sharedHash(); after != before {
				c.Fail("shared-value-changed", "a package-level shared value (compiled frames, defaults) changed", nil)
				return
			}
			c.Run.AddExtra("sessions_run_concurrently", int64(n))
			c.Run.AddExtra("sessions_with_injected_write_fault", int64(faulty))
			nw := 0
			for _, sp := range specs {
				if sp.wss {
					nw++
				}
			}
			c.Run.AddExtra("sessions_over_tls_with_the_default_client_config", int64(nw))
			c.Run.AddExtra("transcript_events_compared", int64(msgs))
			c.Run.AddExtra("cross_goroutine_buffer_handoffs_observed", st1.CrossGoroutineHandoffs-st0.CrossGoroutineHandoffs)
			c.Run.AddExtra("pool_objects_reused", st1.Reused-st0.Reused)
			c.Classf("n=%d procs=%d mix=%d", n, gp, mix)
			c.Sample(map[string]interface{}{"sessions": n, "gomaxprocs": gp, "mix": mix, "example": specs[0].String(), "example_client_transcript": firstN(together[0].lines, 8)})
		},
	}
}

func firstN(s []string, n int) []string {
	if len(s) > n {
		return s[:n]
	}
	return s
}

var stuckRounds atomic.Int64

func main() {
	mon.Main(&mon.Spec{
		Property: "C19",
		Level:    "exploration",
		Rule: "built with -race and the pool shim (poison-on-put, deterministic LIFO reuse, runtime.Gosched injected inside every pool Get/Put - the only place sessions meet - and goroutine tracking). A case = N in {4,16,64} sessions, each a client goroutine + server goroutine over a buffered in-memory duplex, roles {ws.Upgrader, ws.HTTPUpgrader behind net/http} x {ws.Dialer, wsutil.DebugDialer, background/non-background contexts}, two thirds of the ws.Upgrader sessions over wss:// with the library's DEFAULT TLS client configuration (4 host names, per-host certificates of a private CA, SNI recorded) and one session in five with an injected connection write fault half way, traffic {Read*Data/Write*Message helpers and header + CipherWriter streaming, Reader + GetWriter/PutWriter echo, compressed frames via per-session wsflate.Helper values of three different codec configurations (the compressed bytes are part of the transcript), compressed Writer/Reader stack with MessageState}, 3-6 messages of 0 B..100 KiB across the pool classes with pings carrying payloads and a closing handshake (with a long reason, or reason-less with a spec-defined code built by the frame constructors and masked in place); GOMAXPROCS in {1,2,4,16}; 4 session mixes. Plus stateless-storm: 4/16/48 goroutines each running a seeded script of 300 calls of the connection-less API (WriteHeader/WriteFrame/CompileFrame/ReadFrame over yielding destinations and sources, close-body builders and parsers, CheckHeader, mask helpers, one-call message helpers, wsflate frame and bit helpers, control-message handler, Extension.Negotiate, header writers) at once: every call returns what it returns when the script runs alone. " +
			"Oracle: each session's transcript (handshake results, every echo verified, control events, close codes, errors, on both sides) must equal the transcript of the same seeded session run alone; no shim alarm; shared package-level values unchanged; the Go race detector reports counted by the supervisor (GORACE log_path, halt_on_error=0) over repeated rounds. distinct = (N, GOMAXPROCS, mix).",
		Assumptions: []string{"race reports vary run to run: the whole workload is repeated (rounds) with different seeds", "a clean race-detector run is not freedom from races on unexplored interleavings: the evidence reports the cross-goroutine buffer hand-offs actually observed"},
		RaceLogs:    true,
		Rounds: func(t string) int {
			if t == "thorough" {
				return 6
			}
			return 1
		},
		HangSeconds: 400,
		Subs:        []mon.Sub{subSessions(), subStatelessStorm(), subStalledPeer(), subRejections()},
	})
}
