package main

import (
	"bufio"
	"bytes"
	"fmt"
	"net/http"
	"strings"
	"sync"

	"github.com/gobwas/ws"

	"verifharness/mon"
)

// subRejections: sessions that are REFUSED are sessions too. G server sessions, released from one barrier, each refuse
// their client with a status code of the application's own choosing (RejectConnectionError with RejectionStatus /
// RejectionReason / RejectionHeader; codes the process has never answered with before, so that whatever the library
// builds on first use of a code is built while other sessions are being refused), next to sessions refused by the
// library's own checks and accepted ones. Each gets the status line, headers and body it gets when it is alone; the
// race detector watches whatever the rejection path shares.
var rejectCodeMu sync.Mutex
var nextRejectCode = 430

func freshCode() int {
	rejectCodeMu.Lock()
	defer rejectCodeMu.Unlock()
	nextRejectCode++
	if nextRejectCode > 599 {
		nextRejectCode = 431
	}
	return nextRejectCode
}

const rejectReq = "GET /r HTTP/1.1\r\nHost: reject.example\r\nUpgrade: websocket\r\nConnection: Upgrade\r\nSec-WebSocket-Version: 13\r\nSec-WebSocket-Key: dGhlIHNhbXBsZSBub25jZQ==\r\n\r\n"

func refuseOnce(kind, code int, id int) (status int, body string, hdr string, err error) {
	var out bytes.Buffer
	rw := &memRW{in: bytes.NewReader([]byte(rejectReq))}
	u := ws.Upgrader{}
	switch kind {
	case 0: // the application's own status, reason and header
		u.OnRequest = func([]byte) error {
			return ws.RejectConnectionError(ws.RejectionStatus(code), ws.RejectionReason(fmt.Sprintf("session %d says no", id)), ws.RejectionHeader(ws.HandshakeHeaderString(fmt.Sprintf("X-Refused: %d\r\n", id))))
		}
	case 1: // refused by the library's own check
		rw.in = bytes.NewReader([]byte(strings.Replace(rejectReq, "Sec-WebSocket-Version: 13", "Sec-WebSocket-Version: 12", 1)))
	case 2: // accepted
	}
	_, err = u.Upgrade(rw)
	out.Write(rw.Bytes())
	resp, perr := http.ReadResponse(bufio.NewReader(bytes.NewReader(out.Bytes())), nil)
	if perr != nil {
		return 0, "", "", fmt.Errorf("response does not parse: %v (%q)", perr, out.Bytes())
	}
	var b bytes.Buffer
	b.ReadFrom(resp.Body)
	return resp.StatusCode, b.String(), resp.Header.Get("X-Refused"), err
}

func subRejections() mon.Sub {
	return mon.Sub{
		Name: "refused-sessions", Required: true,
		N: func(t string) int {
			if t == "thorough" {
				return 300
			}
			return 12
		},
		Do: func(c *mon.C) {
			g := []int{4, 16, 48}[c.I%3]
			type res struct {
				status    int
				body, hdr string
				err       error
			}
			kinds := make([]int, g)
			codes := make([]int, g)
			for i := range kinds {
				kinds[i] = []int{0, 0, 0, 1, 2}[(i+c.I)%5]
				if kinds[i] == 0 {
					codes[i] = freshCode()
				}
			}
			got := make([]res, g)
			start := make(chan struct{})
			var wg sync.WaitGroup
			for i := 0; i < g; i++ {
				wg.Add(1)
				go func(i int) {
					defer wg.Done()
					<-start
					s, b, h, err := refuseOnce(kinds[i], codes[i], i)
					got[i] = res{s, b, h, err}
				}(i)
			}
			close(start)
			wg.Wait()
			c.Count(g)
			for i := 0; i < g; i++ {
				r := got[i]
				det := map[string]interface{}{"sessions": g, "session": i, "kind": []string{"application status", "library check", "accepted"}[kinds[i]], "status": r.status, "body": r.body, "err": fmt.Sprint(r.err)}
				switch kinds[i] {
				case 0:
					if r.status != codes[i] || r.body != fmt.Sprintf("session %d says no", i) || r.hdr != fmt.Sprint(i) || r.err == nil {
						c.Fail("refused-sessions/own-status", fmt.Sprintf("session %d refused its client with status %d, its own reason and header; the client got %d %q X-Refused=%q (err=%v)", i, codes[i], r.status, r.body, r.hdr, r.err), det)
						return
					}
				case 1:
					if r.status != 426 || r.err == nil {
						c.Fail("refused-sessions/library-status", fmt.Sprintf("a version-12 request was answered %d (err=%v)", r.status, r.err), det)
						return
					}
				case 2:
					if r.status != 101 || r.err != nil {
						c.Fail("refused-sessions/accepted", fmt.Sprintf("a compliant request was answered %d (err=%v) while other sessions were being refused", r.status, r.err), det)
						return
					}
				}
			}
			c.Classf("refused|g=%d", g)
		},
	}
}
