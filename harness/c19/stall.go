package main

import (
	"bytes"
	"fmt"
	"io"
	"net/url"
	"strings"
	"sync"
	"time"

	"github.com/gobwas/ws"
	"github.com/gobwas/ws/wsflate"
	"github.com/gobwas/ws/wsutil"

	"verifharness/mon"
	"verifharness/ref"
)

// subStalledPeer: "observe exactly the results they would observe running alone" includes getting a result at all.
// ONE session is parked inside a write to its connection - its peer has stopped reading, a full send buffer - in the
// middle of one of the library's calls; the other sessions, which share nothing with it but the library's package-level
// state (default helper, pools, compiled frames, default upgrader / dialer), run a script of every kind of call to its
// end meanwhile. Nothing they do may wait for the parked session. Then the peer reads again and the parked call
// completes with the right bytes. "The others never finished" is decided by a 60 s watchdog over millisecond work.

// gateConn blocks its first Write (signalling that it was entered) until released; afterwards it records.
type gateConn struct {
	mu       sync.Mutex
	entered  chan struct{}
	release  chan struct{}
	once     sync.Once
	buf      bytes.Buffer
	response []byte // bytes served to Read (handshake kinds)
	rpos     int
}

func newGateConn() *gateConn {
	return &gateConn{entered: make(chan struct{}), release: make(chan struct{})}
}

func (g *gateConn) Write(p []byte) (int, error) {
	g.once.Do(func() { close(g.entered) })
	<-g.release
	g.mu.Lock()
	defer g.mu.Unlock()
	return g.buf.Write(p)
}

func (g *gateConn) Read(p []byte) (int, error) {
	g.mu.Lock()
	defer g.mu.Unlock()
	if g.rpos >= len(g.response) {
		return 0, io.EOF
	}
	n := copy(p, g.response[g.rpos:])
	g.rpos += n
	return n, nil
}

const stallRequest = "GET /stall HTTP/1.1\r\nHost: stall.example\r\nUpgrade: websocket\r\nConnection: Upgrade\r\nSec-WebSocket-Version: 13\r\nSec-WebSocket-Key: dGhlIHNhbXBsZSBub25jZQ==\r\n\r\n"

var stallKinds = []string{"DefaultHelper.CompressTo->Writer", "Helper.CompressTo->Writer", "WriteServerMessage", "WriteClientMessage", "GetWriter+Write", "WriteFrame", "WriteHeader", "wsflate.Writer(default compressor)", "Upgrader.Upgrade", "Dialer.Upgrade", "ControlHandler(ping)", "HandleClientControlMessage"}

// stallOp performs one call of the given kind on rw and returns what a peer must be able to make of the bytes.
func stallOp(kind string, rw io.ReadWriter, payload []byte) error {
	switch kind {
	case "DefaultHelper.CompressTo->Writer", "Helper.CompressTo->Writer":
		h := &wsflate.DefaultHelper
		if kind[0] == 'H' {
			h = helpers[1]
		}
		ms := &wsflate.MessageState{}
		ms.SetCompressed(true)
		w := wsutil.NewWriterSize(rw, ws.StateServerSide, ws.OpBinary, 128)
		w.SetExtensions(ms)
		if err := h.CompressTo(w, payload); err != nil {
			return err
		}
		return w.Flush()
	case "WriteServerMessage":
		return wsutil.WriteServerMessage(rw, ws.OpBinary, payload)
	case "WriteClientMessage":
		return wsutil.WriteClientMessage(rw, ws.OpBinary, payload)
	case "GetWriter+Write":
		w := wsutil.GetWriter(rw, ws.StateServerSide, ws.OpBinary, 256)
		defer wsutil.PutWriter(w)
		if _, err := w.Write(payload); err != nil {
			return err
		}
		return w.Flush()
	case "WriteFrame":
		return ws.WriteFrame(rw, ws.NewBinaryFrame(payload))
	case "WriteHeader":
		if err := ws.WriteHeader(rw, ws.Header{Fin: true, OpCode: ws.OpBinary, Length: int64(len(payload))}); err != nil {
			return err
		}
		_, err := rw.Write(payload)
		return err
	case "wsflate.Writer(default compressor)":
		fw := wsflate.NewWriter(rw, wsflate.DefaultHelper.Compressor)
		if _, err := fw.Write(payload); err != nil {
			return err
		}
		if err := fw.Flush(); err != nil {
			return err
		}
		return fw.Close()
	case "Upgrader.Upgrade":
		_, err := ws.Upgrader{}.Upgrade(rw)
		return err
	case "Dialer.Upgrade":
		u, _ := url.ParseRequestURI("ws://stall.example/stall")
		_, _, err := ws.Dialer{}.Upgrade(rw, u)
		if err != nil && (err == io.EOF || err == io.ErrUnexpectedEOF || strings.Contains(err.Error(), "EOF")) {
			return nil // (the scripted peer of this kind never answers: the request write is what is being stalled)
		}
		return err
	case "ControlHandler(ping)":
		p := payload
		if len(p) > 100 {
			p = p[:100]
		}
		return wsutil.ControlHandler{Src: bytes.NewReader(p), Dst: rw, State: ws.StateServerSide, DisableSrcCiphering: true}.Handle(ws.Header{Fin: true, OpCode: ws.OpPing, Length: int64(len(p))})
	case "HandleClientControlMessage":
		p := payload
		if len(p) > 100 {
			p = p[:100]
		}
		return wsutil.HandleClientControlMessage(rw, wsutil.Message{OpCode: ws.OpPing, Payload: p})
	}
	return fmt.Errorf("unknown kind %s", kind)
}

type memRW struct {
	bytes.Buffer
	in *bytes.Reader
}

func (m *memRW) Read(p []byte) (int, error) { return m.in.Read(p) }

func subStalledPeer() mon.Sub {
	return mon.Sub{
		Name: "stalled-peer", Required: true,
		N: func(t string) int {
			if t == "thorough" {
				return len(stallKinds) * 40
			}
			return len(stallKinds) * 2
		},
		Do: func(c *mon.C) {
			kind := stallKinds[c.I%len(stallKinds)]
			big := make([]byte, 20000+c.Rng.Intn(50000))
			c.Rng.Read(big)
			gc := newGateConn()
			if kind == "Upgrader.Upgrade" {
				gc.response = []byte(stallRequest)
			}
			parkedErr := make(chan error, 1)
			go func() { parkedErr <- stallOp(kind, gc, big) }()
			select {
			case <-gc.entered:
			case err := <-parkedErr:
				c.Inconclusive(fmt.Sprintf("the call of kind %s never wrote to its connection (err=%v)", kind, err))
				return
			case <-time.After(60 * time.Second):
				c.Inconclusive("the parked session did not reach its connection write in 60 s")
				return
			}
			// the other sessions: every kind of call, twice, each on a connection of its own
			nOthers := 3 + c.I%4
			done := make(chan string, nOthers)
			for s := 0; s < nOthers; s++ {
				go func(s int) {
					small := bytes.Repeat([]byte{byte('a' + s)}, 300+s*777)
					for round := 0; round < 2; round++ {
						for _, k := range stallKinds {
							rw := &memRW{in: bytes.NewReader(nil)}
							if k == "Upgrader.Upgrade" {
								rw.in = bytes.NewReader([]byte(stallRequest))
							}
							if err := stallOp(k, rw, small); err != nil {
								done <- fmt.Sprintf("session %d, %s: %v", s, k, err)
								return
							}
						}
					}
					done <- ""
				}(s)
			}
			c.Count(nOthers)
			for s := 0; s < nOthers; s++ {
				select {
				case msg := <-done:
					if msg != "" {
						close(gc.release)
						c.Fail("stalled-peer/other-session-failed/"+kind, "a session failed while another one was parked inside "+kind+": "+msg, map[string]interface{}{"parked_in": kind})
						return
					}
				case <-time.After(60 * time.Second):
					close(gc.release)
					c.Fail("stalled-peer/blocks-others/"+kind, fmt.Sprintf("one session is parked inside %s (its peer is not reading) and %d of the %d other sessions - which share only the library's package-level state with it - have not finished their calls 60 s later", kind, nOthers-s, nOthers), map[string]interface{}{"parked_in": kind, "other_sessions": nOthers})
					return
				}
			}
			// the peer reads again: the parked call completes, and what it sent is what it was given
			close(gc.release)
			select {
			case err := <-parkedErr:
				if err != nil {
					c.Fail("stalled-peer/parked-call-failed/"+kind, "the parked call failed once its peer read again: "+err.Error(), map[string]interface{}{"parked_in": kind})
					return
				}
			case <-time.After(60 * time.Second):
				c.Fail("stalled-peer/parked-call-stuck/"+kind, "the parked call did not complete within 60 s after its peer read again", map[string]interface{}{"parked_in": kind})
				return
			}
			gc.mu.Lock()
			out := append([]byte(nil), gc.buf.Bytes()...)
			gc.mu.Unlock()
			switch kind {
			case "WriteServerMessage", "GetWriter+Write", "WriteFrame", "WriteHeader", "WriteClientMessage":
				frames, consumed, bad := ref.ParseFrames(out)
				var got []byte
				for _, f := range frames {
					got = append(got, f.Payload...)
				}
				if bad != "" || consumed != len(out) || !bytes.Equal(got, big) {
					c.Fail("stalled-peer/parked-bytes/"+kind, "the bytes the parked call sent after its peer read again do not carry its message", map[string]interface{}{"parked_in": kind, "sent": len(out), "message": len(big)})
					return
				}
			}
			c.Classf("stalled|%s|others=%d", kind, nOthers)
		},
	}
}
