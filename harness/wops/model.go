package wops

import (
	"fmt"
	"io"

	"github.com/gobwas/ws/wsutil"

	"verifharness/ref"
	"verifharness/xport"
)

// Model is the reference model of the fragmenting writer's CONTRACT (not of
// where it places fragment boundaries): accepted-byte log, message open/closed,
// and the three clauses the property fixes (clean flush emits nothing; data
// that fits leaves as one frame; DisableFlush sends nothing before Flush).
type Model struct {
	Client  bool
	Op      byte
	NoFlush bool
	// Rsv returns the RSV bits expected on a frame (first of its message or not).
	Rsv func(first bool) byte

	Rec *xport.Rec

	parsed    int // bytes of Rec already parsed
	Frames    []ref.Frame
	Emitted   int // plaintext bytes emitted
	Accepted  int // plaintext bytes accepted
	MsgStart  int
	MsgOpen   bool
	MsgFrames int
	Closed    int
	plainOnly bool
	fits      bool
	writeOnly bool
}

// NewModel creates a model observing rec.
func NewModel(rec *xport.Rec, client bool, op byte, noFlush bool, rsv func(bool) byte) *Model {
	if rsv == nil {
		rsv = func(bool) byte { return 0 }
	}
	return &Model{Client: client, Op: op, NoFlush: noFlush, Rsv: rsv, Rec: rec, plainOnly: true, fits: true, writeOnly: true}
}

// Viol is a contract violation found by the model.
type Viol struct{ Sig, What string }

func v(sig, format string, a ...interface{}) *Viol { return &Viol{sig, fmt.Sprintf(format, a...)} }

// Before must be called before an op is applied; it returns the state the op
// meets.
func (m *Model) Before(w *wsutil.Writer) (buffered, size int) {
	return m.Accepted - m.Emitted, w.Size()
}

// After checks everything observable after op returned res. bufferedBefore and
// sizeBefore come from Before.
func (m *Model) After(op Op, res Result, bufferedBefore, sizeBefore int) *Viol {
	kind := kindNames[op.Kind]
	if res.CallerChanged != "" {
		// a second writer sending the same payload at that moment (a broadcast) would accept these bytes and put
		// others on the wire
		return v("shared-payload/"+kind, "the slice given to %s of %d bytes did not hold the caller's bytes %s", kind, res.K, res.CallerChanged)
	}
	// ---- return values (healthy destination)
	switch op.Kind {
	case Write, ReadFrom:
		if res.Err != nil || res.N != int64(res.K) {
			return v("ret/"+kind, "%s of %d bytes returned (%d, %v) on a healthy destination", kind, res.K, res.N, res.Err)
		}
		m.Accepted += int(res.N)
		m.MsgOpen = true
		if op.Kind == ReadFrom {
			m.plainOnly, m.writeOnly = false, false
		} else if m.Accepted-m.MsgStart > sizeBefore {
			m.fits = false
		}
	case ReadFromErr:
		// the source fails after delivering res.K bytes: they were accepted (reported in n)
		// and must leave with the message; the source's error is passed on.
		if res.Err != xport.ErrInjected || res.N != int64(res.K) {
			return v("ret/ReadFromErr", "ReadFrom from a source failing after %d bytes returned (%d, %v), want (%d, the source's error)", res.K, res.N, res.Err, res.K)
		}
		m.Accepted += int(res.N)
		if res.N > 0 {
			m.MsgOpen = true
		}
		m.plainOnly, m.writeOnly = false, false
	case ReadFromStall:
		// the source stops making progress after res.K bytes: those were accepted and must
		// leave with the message; ReadFrom gives up with io.ErrNoProgress.
		if res.Err != io.ErrNoProgress || res.N != int64(res.K) {
			return v("ret/ReadFromStall", "ReadFrom from a source stalling after %d bytes returned (%d, %v), want (%d, io.ErrNoProgress)", res.K, res.N, res.Err, res.K)
		}
		m.Accepted += int(res.N)
		if res.N > 0 {
			m.MsgOpen = true
		}
		m.plainOnly, m.writeOnly = false, false
	case WriteThrough:
		m.plainOnly, m.writeOnly = false, false
		if bufferedBefore != 0 {
			if res.Err != wsutil.ErrNotEmpty || res.N != 0 {
				return v("ret/WriteThrough-notempty", "WriteThrough with %d bytes buffered returned (%d, %v), want (0, ErrNotEmpty)", bufferedBefore, res.N, res.Err)
			}
		} else {
			if res.Err != nil || res.N != int64(res.K) {
				return v("ret/WriteThrough", "WriteThrough of %d bytes returned (%d, %v)", res.K, res.N, res.Err)
			}
			m.Accepted += int(res.N)
			m.MsgOpen = true
		}
	case FlushFragment, Flush:
		if res.Err != nil {
			return v("ret/"+kind, "%s returned %v on a healthy destination", kind, res.Err)
		}
		if op.Kind == FlushFragment {
			m.plainOnly, m.writeOnly = false, false
		}
	}

	// ---- bytes handed to the destination form whole frames at the call boundary
	all := m.Rec.Bytes()
	fresh, consumed, bad := ref.ParseFrames(all[m.parsed:])
	if bad != "" {
		return v("frames/bad-header", "after %s: %s in the bytes sent", res.Op, bad)
	}
	if m.parsed+consumed != len(all) {
		return v("frames/partial-at-call-boundary", "after %s: %d bytes sent do not end on a frame boundary (%d trailing)", res.Op, len(all), len(all)-m.parsed-consumed)
	}
	m.parsed += consumed
	wasOpen := m.MsgOpen
	msgFramesAtFlush := 0
	for i, f := range fresh {
		first := m.MsgFrames == 0
		if f.H.Masked != m.Client {
			return v("frames/mask-bit", "frame masked=%v from a writer with client=%v", f.H.Masked, m.Client)
		}
		wantOp := byte(ref.OpCont)
		if first {
			wantOp = m.Op
		}
		if f.H.Op != wantOp {
			return v("frames/opcode", "frame #%d of the message has opcode %#x, want %#x", m.MsgFrames, f.H.Op, wantOp)
		}
		if f.H.Rsv != m.Rsv(first) {
			return v("frames/rsv", "frame #%d of the message has rsv=%d, want %d", m.MsgFrames, f.H.Rsv, m.Rsv(first))
		}
		for j, b := range f.Payload {
			if b != Tag(m.Emitted+j) {
				return v("payload/content", "after %s: emitted plaintext byte %d is %#02x, want %#02x (byte lost, duplicated, reordered or wrongly masked)", res.Op, m.Emitted+j, b, Tag(m.Emitted+j))
			}
		}
		m.Emitted += len(f.Payload)
		if m.Emitted > m.Accepted {
			return v("payload/more-than-accepted", "after %s: %d plaintext bytes emitted but only %d accepted", res.Op, m.Emitted, m.Accepted)
		}
		m.Frames = append(m.Frames, f)
		m.MsgFrames++
		if f.H.Fin {
			if op.Kind != Flush {
				return v("frames/fin-outside-flush", "%s emitted a final frame", res.Op)
			}
			if i != len(fresh)-1 {
				return v("frames/fin-not-last", "Flush emitted a final frame followed by more frames")
			}
			if m.Emitted != m.Accepted {
				return v("payload/lost-at-flush", "message closed with %d of %d accepted bytes emitted", m.Emitted-m.MsgStart, m.Accepted-m.MsgStart)
			}
			msgFramesAtFlush = m.MsgFrames
			m.Closed++
			m.MsgFrames = 0
			m.MsgStart = m.Emitted
		}
	}

	// ---- operation specific clauses
	switch op.Kind {
	case Write:
		if m.NoFlush && len(fresh) > 0 {
			return v("noflush/write-sends", "Write sent %d frame(s) although flushing is disabled", len(fresh))
		}
	case ReadFrom, ReadFromErr, ReadFromStall:
		if m.NoFlush && len(fresh) > 0 {
			return v("noflush/readfrom-sends", "ReadFrom sent %d frame(s) although flushing is disabled", len(fresh))
		}
	case WriteThrough:
		if bufferedBefore != 0 {
			if len(fresh) != 0 {
				return v("writethrough/notempty-sends", "WriteThrough returned ErrNotEmpty but sent %d frame(s)", len(fresh))
			}
		} else if len(fresh) != 1 || len(fresh[0].Payload) != res.K {
			return v("writethrough/frames", "WriteThrough(%d) sent %d frame(s)", res.K, len(fresh))
		}
	case FlushFragment:
		want := 0
		if bufferedBefore > 0 {
			want = 1
		}
		if len(fresh) != want {
			return v("flushfragment/frames", "FlushFragment with %d bytes buffered sent %d frame(s)", bufferedBefore, len(fresh))
		}
		if m.Emitted != m.Accepted {
			return v("flushfragment/left", "FlushFragment left %d accepted bytes unsent", m.Accepted-m.Emitted)
		}
	case Flush:
		if !wasOpen && bufferedBefore == 0 {
			if len(fresh) != 0 {
				return v("flush/clean-emits", "Flush with nothing written emitted %d frame(s)", len(fresh))
			}
		} else {
			if len(fresh) == 0 || !fresh[len(fresh)-1].H.Fin {
				return v("flush/no-final", "Flush of an open message did not end it with a final frame (%d frames sent)", len(fresh))
			}
			if m.plainOnly && m.fits && msgFramesAtFlush != 1 {
				return v("flush/fits-but-fragmented", "data that fits the buffer left as %d frames", msgFramesAtFlush)
			}
			if m.NoFlush && m.writeOnly && (msgFramesAtFlush != 1 || len(fresh) != 1) {
				return v("noflush/not-one-frame", "with flushing disabled the message left as %d frames (%d sent by Flush)", msgFramesAtFlush, len(fresh))
			}
		}
		m.MsgOpen = false
		m.plainOnly, m.fits, m.writeOnly = true, true, true
	case Grow:
		if len(fresh) != 0 {
			return v("grow/sends", "Grow sent %d frame(s)", len(fresh))
		}
		if res.Avail < res.K {
			return v("grow/avail", "after Grow(%d) Available()=%d", res.K, res.Avail)
		}
	}

	// ---- accessor sanity
	if res.Buffered != m.Accepted-m.Emitted {
		return v("accessors/buffered", "after %s: Buffered()=%d but %d accepted bytes are unsent", res.Op, res.Buffered, m.Accepted-m.Emitted)
	}
	if res.Avail != res.Size-res.Buffered {
		return v("accessors/available", "after %s: Available()=%d Size()=%d Buffered()=%d", res.Op, res.Avail, res.Size, res.Buffered)
	}
	return nil
}
