// Package wops applies symbolic operations to a wsutil.Writer. Sizes are
// selectors resolved against the live buffer (avail-1, avail, avail+1, size,
// ...) so that every sequence probes the boundaries of the buffer it meets.
package wops

import (
	"bytes"
	"fmt"

	"github.com/gobwas/ws/wsutil"

	"verifharness/xport"
)

// Kinds of operation.
const (
	Write = iota
	ReadFrom
	WriteThrough
	FlushFragment
	Flush
	Grow
	// ReadFromErr is ReadFrom with a source that fails with a non-EOF error after
	// it has delivered its bytes.
	ReadFromErr
	// ReadFromStall is ReadFrom with a source that delivers its bytes and then
	// returns (0, nil) for ever (io.ReaderFrom implementations give up with
	// io.ErrNoProgress).
	ReadFromStall
)

// stallSrc delivers p in pieces of at most step bytes, then stalls.
type stallSrc struct {
	p     []byte
	step  int
	Empty int
}

func (s *stallSrc) Read(b []byte) (int, error) {
	if len(s.p) == 0 {
		s.Empty++
		return 0, nil
	}
	n := len(b)
	if n > s.step {
		n = s.step
	}
	n = copy(b[:n], s.p)
	s.p = s.p[n:]
	return n, nil
}

var kindNames = []string{"Write", "ReadFrom", "WriteThrough", "FlushFragment", "Flush", "Grow", "ReadFromErr", "ReadFromStall"}

// KindName names an operation kind.
func KindName(k int) string { return kindNames[k] }

// Op is a symbolic operation.
type Op struct {
	Kind int
	Sel  int // size selector (see Resolve); -1 = use K as is
	K    int
}

func (o Op) String() string {
	switch o.Kind {
	case FlushFragment, Flush:
		return kindNames[o.Kind]
	}
	if o.Sel >= 0 {
		return fmt.Sprintf("%s(%s)", kindNames[o.Kind], selNames[o.Sel])
	}
	return fmt.Sprintf("%s(%d)", kindNames[o.Kind], o.K)
}

var selNames = []string{"0", "1", "avail-1", "avail", "avail+1", "size", "size+1", "2size+3", "to125", "to126", "to127", "to253", "to65535", "to65536", "to65537", "to131066"}

// NSel is the number of size selectors used by the exhaustive alphabet.
const NSel = 8

// NSelAll also counts the threshold selectors ("toN": bring the number of
// bytes buffered so far up to exactly N, the sizes at which the header
// reservation of a growing buffer changes).
const NSelAll = 16

// Resolve turns a selector into a byte count for the writer's current state.
func Resolve(w *wsutil.Writer, sel int) int {
	a, s := w.Available(), w.Size()
	var k int
	switch sel {
	case 0:
		k = 0
	case 1:
		k = 1
	case 2:
		k = a - 1
	case 3:
		k = a
	case 4:
		k = a + 1
	case 5:
		k = s
	case 6:
		k = s + 1
	case 7:
		k = 2*s + 3
	case 8, 9, 10, 11, 12, 13, 14, 15:
		k = []int{125, 126, 127, 253, 65535, 65536, 65537, 131066}[sel-8] - w.Buffered()
	}
	if k < 0 {
		k = 0
	}
	if k > MaxK {
		// With flushing disabled size-relative operations double the buffer
		// every time; keep workloads bounded.
		k = MaxK
	}
	return k
}

// MaxK bounds a resolved operation size.
const MaxK = 300000

// Alphabet is the op alphabet used for exhaustive enumeration.
func Alphabet() []Op {
	var a []Op
	for _, kind := range []int{Write, ReadFrom, WriteThrough} {
		for s := 0; s < NSel; s++ {
			a = append(a, Op{Kind: kind, Sel: s})
		}
	}
	for _, s := range []int{0, 1, 4, 7} {
		a = append(a, Op{Kind: Grow, Sel: s})
	}
	for _, s := range []int{1, 3, 6} {
		a = append(a, Op{Kind: ReadFromErr, Sel: s})
	}
	for _, s := range []int{0, 3, 6} {
		a = append(a, Op{Kind: ReadFromStall, Sel: s})
	}
	a = append(a, Op{Kind: FlushFragment}, Op{Kind: Flush})
	return a
}

// Feed produces position-tagged payload bytes: byte i of the whole accepted
// stream is Tag(i).
type Feed struct {
	Pos int
	// Rec, when set, is the writer's destination: the caller's slice of Write / WriteThrough is compared with the
	// caller's bytes from inside every destination write (and after the call) - a payload shared with a second
	// writer (a broadcast) must hold the application's bytes at every moment.
	Rec *xport.Rec
}

func Tag(i int) byte { return byte(i*7 + i>>8*13 + 1) }

// Next returns the next k bytes of the tagged stream WITHOUT advancing.
func (f *Feed) Next(k int) []byte {
	p := make([]byte, k)
	for i := range p {
		p[i] = Tag(f.Pos + i)
	}
	return p
}

// Result is what one applied operation returned.
type Result struct {
	Op       string
	K        int   // resolved size
	N        int64 // bytes reported accepted
	Err      error
	Buffered int
	Avail    int
	Size     int
	Panic    interface{}
	// CallerChanged: the caller's slice did not hold the caller's bytes during a destination write / after return.
	CallerChanged string
}

// Apply performs op on w. Accepted bytes advance feed. planSeed picks the
// chunk plan of a ReadFrom source.
func Apply(w *wsutil.Writer, op Op, feed *Feed, planSeed int64) (r Result) {
	k := op.K
	if op.Sel >= 0 {
		k = Resolve(w, op.Sel)
	}
	r.Op, r.K = op.String(), k
	watch := func(p []byte) func() {
		if feed.Rec == nil {
			return func() {}
		}
		orig := append([]byte(nil), p...)
		feed.Rec.Watch = func() {
			if r.CallerChanged == "" && !bytes.Equal(p, orig) {
				r.CallerChanged = "during a destination write"
			}
		}
		return func() {
			feed.Rec.Watch = nil
			if r.CallerChanged == "" && !bytes.Equal(p, orig) {
				r.CallerChanged = "after the call returned"
			}
		}
	}
	switch op.Kind {
	case Write:
		p := feed.Next(k)
		done := watch(p)
		n, err := w.Write(p)
		done()
		r.N, r.Err = int64(n), err
	case ReadFrom:
		p := feed.Next(k)
		plans := xport.Plans(planSeed, nil)
		src := xport.NewChunker(p, plans[int(uint64(planSeed)%uint64(len(plans)))])
		n, err := w.ReadFrom(src)
		r.N, r.Err = n, err
	case ReadFromErr:
		p := feed.Next(k)
		plans := xport.Plans(planSeed, nil)
		src := xport.NewCutter(p, plans[int(uint64(planSeed)%uint64(len(plans)))], len(p), xport.ErrInjected)
		n, err := w.ReadFrom(src)
		r.N, r.Err = n, err
	case ReadFromStall:
		src := &stallSrc{p: feed.Next(k), step: 1 + int(uint64(planSeed)%7)*5}
		n, err := w.ReadFrom(src)
		r.N, r.Err = n, err
	case WriteThrough:
		p := feed.Next(k)
		done := watch(p)
		n, err := w.WriteThrough(p)
		done()
		r.N, r.Err = int64(n), err
	case FlushFragment:
		r.Err = w.FlushFragment()
	case Flush:
		r.Err = w.Flush()
	case Grow:
		w.Grow(k)
	}
	if r.N > 0 {
		feed.Pos += int(r.N)
	}
	r.Buffered, r.Avail, r.Size = w.Buffered(), w.Available(), w.Size()
	return r
}
