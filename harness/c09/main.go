// C09 — the server handshake succeeds only for compliant requests and answers correctly.
package main

import (
	"bufio"
	"bytes"
	"errors"
	"fmt"
	"io"
	"net"
	"net/http"
	"sort"
	"strings"
	"sync"
	"time"

	"github.com/gobwas/httphead"
	"github.com/gobwas/ws"
	"github.com/gobwas/ws/wsflate"

	"verifharness/gen"
	"verifharness/mon"
	"verifharness/ref"
	"verifharness/xport"
)

// Cfg is an upgrader configuration.
type Cfg struct {
	ProtoSel string
	ExtSel   string
	Header   string // nil | string | bytes | func | http
	Reject   string // "" | OnRequest | OnHost | OnHeader | OnBeforeUpgrade
	RejKind  string // plain | custom | nostatus
	RBuf     int
	WBuf     int
	// Bare: no On* callback is installed at all (with Reject == "", the zero-copy upgrader normally gets accepting
	// ones): together with ProtoSel/ExtSel "nil" this is the plain ws.Upgrader{} / ws.Upgrade configuration
	Bare bool
	// HTTPTimeout: ws.HTTPUpgrader.Timeout is set (a write deadline around the response); PkgLevel: a zero
	// configuration goes through the package-level ws.Upgrade / ws.UpgradeHTTP (the Default* upgraders)
	HTTPTimeout bool
	PkgLevel    bool
}

func (c Cfg) zero() bool {
	return c.Bare && c.ProtoSel == "nil" && c.ExtSel == "nil" && c.Header == "nil" && c.Reject == "" && c.RBuf == 0 && c.WBuf == 0 && !c.HTTPTimeout
}

func (c Cfg) String() string {
	return fmt.Sprintf("proto=%s ext=%s hdr=%s reject=%s/%s rbuf=%d wbuf=%d bare=%v httptimeout=%v pkglevel=%v", c.ProtoSel, c.ExtSel, c.Header, c.Reject, c.RejKind, c.RBuf, c.WBuf, c.Bare, c.HTTPTimeout, c.PkgLevel && c.zero())
}

var (
	protoSels = []string{"nil", "none", "all", "second", "slice-small", "slice-big", "custom", "equal"}
	extSels   = []string{"nil", "extension-all", "extension-none", "extension-custom", "negotiate-accept", "negotiate-decline", "negotiate-error", "negotiate-wsflate"}
	hdrKinds  = []string{"nil", "string", "bytes", "func", "http", "bytes-large", "func-large", "http-large", "http-multi"}
	rejects   = []string{"", "OnRequest", "OnHost", "OnHeader", "OnBeforeUpgrade"}
	rejKinds  = []string{"plain", "custom", "nostatus", "plain-slice", "plain-struct", "plain-percent", "custom-percent"}

	protoOffers = [][]string{nil, {"chat"}, {"chat, superchat"}, {"mqtt", "json, chat.v2"}, {"chat.v2 ,json"}, {"x-1,x-2,x-3,json"},
		// names differing only in letter case / prefixes of an accepted name: selection is exact and in client order
		{"JSON, json"}, {"Chat.v2", "chat.V2, chat.v2, json"}, {"chat.v, chat.v22, jso, proto-1x, proto-19"},
		// a long offer: the acceptable name comes twelfth, behind names nobody accepts (one line; and over three lines)
		{"x-1, x-2, x-3, x-4, x-5, x-6, x-7, x-8, x-9, x-10, x-11, json, chat.v2"}, {"x-1, x-2, x-3, x-4, x-5", "x-6, x-7, x-8, x-9", "x-10, x-11, x-12, chat.v2, json"}}
	extOffers = [][]string{nil, {"permessage-deflate"}, {"permessage-deflate; client_max_window_bits"}, {"foo; a=1, bar"}, {"permessage-deflate; server_no_context_takeover", "x-webkit-deflate-frame"}, {"bar; q=\"quoted v\"; z"},
		// several offers per line over three lines (a selector that takes them all returns six options, in order)
		{"foo; a=1, barbar; bb=22", "bazbazbaz; c=3", "q, permessage-deflate; client_max_window_bits, zz; y"}}
)

var bigSlice = func() []string {
	s := []string{"json"}
	for i := 0; i < 20; i++ {
		s = append(s, fmt.Sprintf("proto-%d", i))
	}
	return s
}()

func protoSelector(kind string) func(string) bool {
	n := 0
	switch kind {
	case "none":
		return func(string) bool { return false }
	case "all":
		return func(string) bool { return true }
	case "second":
		return func(string) bool { n++; return n == 2 }
	case "slice-small":
		return ws.SelectFromSlice([]string{"chat.v2", "json"})
	case "slice-big":
		return ws.SelectFromSlice(bigSlice)
	case "equal":
		return ws.SelectEqual("chat.v2")
	}
	return nil
}

func expectedProtocol(kind string, offered []string, perHeader []string) string {
	switch kind {
	case "nil":
		return ""
	case "custom":
		for _, h := range perHeader {
			t := strings.TrimSpace(strings.Split(h, ",")[0])
			if t != "" {
				return "custom-" + t
			}
		}
		return ""
	}
	sel := protoSelector(kind)
	for _, p := range offered {
		if sel(p) {
			return p
		}
	}
	return ""
}

const (
	customStatus = 403
)

// multiErr and richErr are plain errors whose dynamic types cannot be compared / hashed
// (a slice; a struct holding a map): applications return such values too.
type multiErr []error

func (m multiErr) Error() string { return fmt.Sprintf("%d problems: %v", len(m), m[0]) }

type richErr struct {
	msg  string
	meta map[string]string
}

func (r richErr) Error() string { return r.msg }

func rejection(kind string) (error, int, string, string) {
	switch kind {
	case "plain":
		return errors.New("plain boom"), 500, "plain boom", ""
	case "plain-percent":
		// a text a formatting function would expand (an echoed percent-encoded URI, "50%")
		return errors.New("no room /caf%C3%A9%20noir is 100% full %s %d %%"), 500, "no room /caf%C3%A9%20noir is 100% full %s %d %%", ""
	case "custom-percent":
		return ws.RejectConnectionError(ws.RejectionStatus(customStatus), ws.RejectionReason("quota 100% used: %v%!"), ws.RejectionHeader(ws.HandshakeHeaderString("X-Reject: yes\r\n"))), customStatus, "quota 100% used: %v%!", "yes"
	case "plain-slice":
		return multiErr{errors.New("first"), errors.New("second")}, 500, "2 problems: first", ""
	case "plain-struct":
		return richErr{"rich boom", map[string]string{"k": "v"}}, 500, "rich boom", ""
	case "custom":
		return ws.RejectConnectionError(ws.RejectionStatus(customStatus), ws.RejectionReason("custom nope"), ws.RejectionHeader(ws.HandshakeHeaderString("X-Reject: yes\r\n"))), customStatus, "custom nope", "yes"
	}
	return ws.RejectConnectionError(ws.RejectionReason("no status given")), 500, "no status given", ""
}

func extraHeader(kind string) (ws.HandshakeHeader, http.Header) {
	switch kind {
	case "string":
		return ws.HandshakeHeaderString("X-Extra: one\r\n"), nil
	case "bytes":
		return ws.HandshakeHeaderBytes("X-Extra: one\r\n"), nil
	case "func":
		return ws.HandshakeHeaderFunc(func(w io.Writer) (int64, error) {
			n, err := io.WriteString(w, "X-Extra: one\r\n")
			return int64(n), err
		}), nil
	case "http":
		h := http.Header{"X-Extra": []string{"one"}}
		return ws.HandshakeHeaderHTTP(h), h
	// the same with more bytes than the response writer's buffer holds (whatever path the buffered writer
	// takes for a large write, the response still carries every header, in order)
	case "bytes-large":
		return ws.HandshakeHeaderBytes("X-Extra: one\r\nX-Pad: " + extraPad + "\r\nX-After: pad\r\n"), nil
	case "func-large":
		return ws.HandshakeHeaderFunc(func(w io.Writer) (int64, error) {
			var n int64
			for _, part := range []string{"X-Extra: one\r\n", "X-Pad: " + extraPad + "\r\n", "X-After: pad\r\n"} {
				m, err := w.Write([]byte(part))
				n += int64(m)
				if err != nil {
					return n, err
				}
			}
			return n, nil
		}), nil
	case "http-multi":
		// several values under one field name (two cookies) and a key that is not in canonical form: an http.Header
		// is written out as http.Header.Write does - one line per value, keys as they are
		h := http.Header{"X-Extra": []string{"one"}, "Set-Cookie": []string{"a=1", "b=2", "c=3"}, "x-lower": []string{"kept"}}
		return ws.HandshakeHeaderHTTP(h), h
	case "http-large":
		h := http.Header{"X-Extra": []string{"one"}, "X-Pad": []string{extraPad}, "X-After": []string{"pad"}}
		return ws.HandshakeHeaderHTTP(h), h
	}
	return nil, nil
}

var extraPad = strings.Repeat("0123456789abcdef", 400)

// extraOK: the caller's extra header(s) as found in a response.
func extraOK(kind string, h http.Header) bool {
	if kind == "nil" {
		return true
	}
	if h.Get("X-Extra") != "one" {
		return false
	}
	if kind == "http-multi" {
		return fmt.Sprint(h.Values("Set-Cookie")) == "[a=1 b=2 c=3]" && h.Get("X-Lower") == "kept"
	}
	if strings.HasSuffix(kind, "-large") {
		return h.Get("X-Pad") == extraPad && h.Get("X-After") == "pad"
	}
	return true
}

// outcome of one upgrade.
type outcome struct {
	hs       ws.Handshake
	err      error
	written  []byte
	consumed int
	reached  bool // the upgrader was invoked (net/http path may refuse earlier)
	hdrCalls int
	panicked string // the upgrader panicked (value + innermost library frame)
}

func negotiateFor(kind string, wsf *wsflate.Extension) func(httphead.Option) (httphead.Option, error) {
	switch kind {
	case "negotiate-accept":
		return func(o httphead.Option) (httphead.Option, error) { return o.Clone(), nil }
	case "negotiate-decline":
		return func(o httphead.Option) (httphead.Option, error) { return httphead.Option{}, nil }
	case "negotiate-error":
		return func(o httphead.Option) (httphead.Option, error) {
			return httphead.Option{}, errors.New("negotiate boom")
		}
	case "negotiate-wsflate":
		return wsf.Negotiate
	}
	return nil
}

// earlierClients: handshakes of the same goroutine that ended badly (whatever the upgraders keep between calls -
// pooled readers and writers, scratch buffers - must not carry over to the next client).
func earlierClients(k int) {
	head := "GET /earlier HTTP/1.1\r\nHost: earlier.example\r\nUpgrade: websocket\r\nConnection: Upgrade\r\nSec-WebSocket-Version: 13\r\n"
	reqs := []string{
		head + "Sec-WebSocket-Key: dGhlIHNhbXBsZSBub25jZQ==\r\nSec-WebSocket-Protocol: stale-a, stale-b\r\nSec-WebSocket-Extensions: stale-ext; p=1\r\nX-Cut: in the middle of a li",
		head + "Sec-WebSocket-Protocol: stale-a, stale-b\r\nSec-WebSocket-Extensions: stale-ext; p=1\r\nX-Long: " + strings.Repeat("z", 3000) + "\r\n\r\n",
		"GET /earlier HTTP/1.0\r\nHost: earlier.example\r\nSec-WebSocket-Protocol: stale-a\r\n\r\n",
		head + "Sec-WebSocket-Key: dGhlIHNhbXBsZSBub25jZQ==\r\nSec-WebSocket-Protocol: stale-a, stale-b\r\nSec-WebSocket-Extensions: stale-ext; p=1, =[\r\n\r\n",
	}
	r := reqs[k%len(reqs)]
	u := ws.Upgrader{Protocol: func([]byte) bool { return true }, Extension: func(httphead.Option) bool { return true }}
	u.Upgrade(xport.RW{Reader: strings.NewReader(r), Writer: io.Discard})
	if k%2 == 0 {
		// ... and one whose response could not be written
		rec := xport.NewRec()
		rec.FailAt = 0
		ws.Upgrader{}.Upgrade(xport.RW{Reader: strings.NewReader(head + "Sec-WebSocket-Key: dGhlIHNhbXBsZSBub25jZQ==\r\n\r\n"), Writer: rec})
	}
}

func runUpgrader(cfg Cfg, req *gen.Req, plan xport.Plan, recHook ...func(*xport.Rec)) outcome {
	var out outcome
	out.reached = true
	u := ws.Upgrader{ReadBufferSize: cfg.RBuf, WriteBufferSize: cfg.WBuf}
	switch cfg.ProtoSel {
	case "nil":
	case "custom":
		u.ProtocolCustom = func(v []byte) (string, bool) {
			t := strings.TrimSpace(strings.Split(string(v), ",")[0])
			if t == "" {
				return "", true
			}
			return "custom-" + t, true
		}
	default:
		sel := protoSelector(cfg.ProtoSel)
		u.Protocol = func(b []byte) bool { return sel(string(b)) }
	}
	wsf := &wsflate.Extension{Parameters: wsflate.DefaultParameters}
	switch cfg.ExtSel {
	case "nil":
	case "extension-all":
		u.Extension = func(httphead.Option) bool { return true }
	case "extension-none":
		u.Extension = func(httphead.Option) bool { return false }
	case "extension-custom":
		u.ExtensionCustom = func(v []byte, sel []httphead.Option) ([]httphead.Option, bool) {
			opts, ok := httphead.ParseOptions(append([]byte(nil), v...), nil)
			if ok && len(opts) > 0 {
				sel = append(sel, opts[0])
			}
			return sel, ok
		}
	default:
		u.Negotiate = negotiateFor(cfg.ExtSel, wsf)
	}
	u.Header, _ = extraHeader(cfg.Header)
	rejErr, _, _, _ := rejection(cfg.RejKind)
	switch cfg.Reject {
	case "OnRequest":
		u.OnRequest = func([]byte) error { return rejErr }
	case "OnHost":
		u.OnHost = func([]byte) error { return rejErr }
	case "OnHeader":
		u.OnHeader = func(k, v []byte) error { out.hdrCalls++; return rejErr }
	case "OnBeforeUpgrade":
		u.OnBeforeUpgrade = func() (ws.HandshakeHeader, error) { return nil, rejErr }
	default:
		if cfg.Bare {
			break
		}
		u.OnRequest = func([]byte) error { return nil }
		u.OnHost = func([]byte) error { return nil }
		u.OnHeader = func(k, v []byte) error { out.hdrCalls++; return nil }
		u.OnBeforeUpgrade = func() (ws.HandshakeHeader, error) { return ws.HandshakeHeaderString("X-Before: upgrade\r\n"), nil }
	}
	if (len(req.Bytes())+cfg.RBuf)%3 == 0 {
		// the process has answered other clients before this one: a request that stopped in the middle of a header
		// line, one refused at the end of a long head, one that offered subprotocols and extensions and then failed
		earlierClients(len(req.Bytes()))
	}
	ch := xport.NewChunker(req.Bytes(), plan)
	rec := xport.NewRec()
	for _, h := range recHook {
		h(rec) // (a connection that fails)
	}
	if cfg.PkgLevel && cfg.zero() {
		out.hs, out.err = ws.Upgrade(xport.RW{Reader: ch, Writer: rec})
	} else {
		out.hs, out.err = u.Upgrade(xport.RW{Reader: ch, Writer: rec})
	}
	out.written = rec.Bytes()
	out.consumed = ch.Pos
	return out
}

// ---- HTTPUpgrader behind a real net/http server on an in-memory listener

type pipeListener struct {
	ch   chan net.Conn
	done chan struct{}
}

func (l *pipeListener) Accept() (net.Conn, error) {
	select {
	case c := <-l.ch:
		return c, nil
	case <-l.done:
		return nil, errors.New("closed")
	}
}
func (l *pipeListener) Close() error   { return nil }
func (l *pipeListener) Addr() net.Addr { return &net.TCPAddr{IP: net.IPv4(127, 0, 0, 1), Port: 80} }

type httpRun struct {
	cfg Cfg
	res chan outcome
}

var (
	httpOnce sync.Once
	httpL    *pipeListener
	httpReg  sync.Map // conn remote key -> *httpRun
)

type taggedConn struct {
	net.Conn
	run *httpRun
}

func startHTTP() {
	httpOnce.Do(func() {
		httpL = &pipeListener{ch: make(chan net.Conn), done: make(chan struct{})}
		srv := &http.Server{
			Handler: http.HandlerFunc(func(w http.ResponseWriter, r *http.Request) {
				run := r.Context().Value(runKey{}).(*httpRun)
				cfg := run.cfg
				defer func() {
					// (net/http would swallow the panic and leave the hijacked connection open)
					if p := recover(); p != nil {
						run.res <- outcome{reached: true, err: fmt.Errorf("panic: %v", p), panicked: fmt.Sprint(p)}
					}
				}()
				u := ws.HTTPUpgrader{}
				if cfg.ProtoSel != "nil" && cfg.ProtoSel != "custom" {
					u.Protocol = protoSelector(cfg.ProtoSel)
				}
				wsf := &wsflate.Extension{Parameters: wsflate.DefaultParameters}
				switch cfg.ExtSel {
				case "nil", "extension-custom":
				case "extension-all":
					u.Extension = func(httphead.Option) bool { return true }
				case "extension-none":
					u.Extension = func(httphead.Option) bool { return false }
				default:
					u.Negotiate = negotiateFor(cfg.ExtSel, wsf)
				}
				if cfg.Header != "nil" {
					u.Header = http.Header{"X-Extra": []string{"one"}}
					if strings.HasSuffix(cfg.Header, "-large") {
						u.Header.Set("X-Pad", extraPad)
						u.Header.Set("X-After", "pad")
					}
					if cfg.Header == "http-multi" {
						u.Header["Set-Cookie"] = []string{"a=1", "b=2", "c=3"}
						u.Header["x-lower"] = []string{"kept"}
					}
				}
				if cfg.HTTPTimeout {
					u.Timeout = time.Minute
				}
				var (
					conn net.Conn
					hs   ws.Handshake
					err  error
				)
				if cfg.PkgLevel && cfg.zero() {
					conn, _, hs, err = ws.UpgradeHTTP(r, w)
				} else {
					conn, _, hs, err = u.Upgrade(r, w)
				}
				if conn != nil {
					conn.Close()
				}
				run.res <- outcome{hs: hs, err: err, reached: true}
			}),
			ConnContext: func(ctx contextT, c net.Conn) contextT {
				return contextWith(ctx, c.(*taggedConn).run)
			},
			ErrorLog: nil,
		}
		srv.ErrorLog = quietLogger()
		go srv.Serve(httpL)
	})
}

func runHTTPUpgrader(cfg Cfg, req *gen.Req) outcome {
	startHTTP()
	cli, srvc := net.Pipe()
	run := &httpRun{cfg: cfg, res: make(chan outcome, 1)}
	httpL.ch <- &taggedConn{Conn: srvc, run: run}
	var resp bytes.Buffer
	done := make(chan struct{})
	go func() {
		io.Copy(&resp, cli)
		close(done)
	}()
	cli.SetWriteDeadline(time.Now().Add(20 * time.Second))
	cli.Write(req.Bytes())
	var out outcome
	select {
	case out = <-run.res:
	case <-done:
		// connection closed without the handler being reached: net/http refused the request itself
		select {
		case out = <-run.res:
		default:
		}
	case <-time.After(30 * time.Second):
	}
	if out.panicked != "" {
		srvc.Close()
	}
	select {
	case <-done:
	case <-time.After(5 * time.Second):
	}
	cli.Close()
	<-done
	out.written = resp.Bytes()
	return out
}

// ---- oracle on the outcome

type respInfo struct {
	status   int
	header   http.Header
	body     []byte
	trailing int
	parseErr error
}

func parseResponse(b []byte) respInfo {
	var ri respInfo
	rd := bytes.NewReader(b)
	br := bufio.NewReader(rd)
	resp, err := http.ReadResponse(br, &http.Request{Method: "GET"})
	if err != nil {
		ri.parseErr = err
		return ri
	}
	ri.status = resp.StatusCode
	ri.header = resp.Header
	if resp.StatusCode != 101 {
		body, err := io.ReadAll(resp.Body)
		if err != nil {
			ri.parseErr = fmt.Errorf("body: %v", err)
		}
		ri.body = body
	}
	ri.trailing = br.Buffered() + rd.Len()
	return ri
}

func statusOf(err error) int {
	var rej *ws.ConnectionRejectedError
	if errors.As(err, &rej) && rej.StatusCode() != 0 {
		return rej.StatusCode()
	}
	return 500
}

func optNames(opts []httphead.Option) []string {
	var n []string
	for _, o := range opts {
		n = append(n, string(o.Name))
	}
	return n
}

// decide checks one outcome against the oracle. upgrader is "Upgrader" or "HTTPUpgrader".
func decide(c *mon.C, upgrader string, cfg Cfg, req *gen.Req, protoHdrs, extHdrs []string, out outcome, plan string) bool {
	if out.panicked != "" {
		c.Fail(upgrader+"/panic", "the upgrader panicked on a request: "+out.panicked, map[string]interface{}{"request": string(req.Bytes()), "config": cfg.String(), "written": string(out.written)})
		return false
	}
	v := req.Verdict // copy
	v.Statuses = map[int]bool{}
	for k := range req.Verdict.Statuses {
		v.Statuses[k] = true
	}
	v.Why = append([]string(nil), req.Verdict.Why...)
	// callbacks (Upgrader only)
	cbRejects := false
	if upgrader == "Upgrader" && cfg.Reject != "" {
		_, st, _, _ := rejection(cfg.RejKind)
		switch cfg.Reject {
		case "OnRequest":
			cbRejects = true
		case "OnHost":
			cbRejects = req.Variant["host"] != "absent"
		case "OnHeader":
			cbRejects = out.hdrCalls > 0 || (v.Class != ref.MustReject && hasExtras(req))
		case "OnBeforeUpgrade":
			cbRejects = true
		}
		if cbRejects {
			v.Reject("callback "+cfg.Reject+" objects", st)
		}
	}
	// extension negotiation error
	if cfg.ExtSel == "negotiate-error" && len(extHdrs) > 0 {
		v.Reject("Negotiate returns an error", 500)
	}
	if upgrader == "HTTPUpgrader" {
		// empty Host: net/http hands over r.Host == "" ; statement: Host must be carried
		if req.Variant["host"] == "empty" {
			v.Class, v.Why = ref.Open, append(v.Why, "open:empty Host via net/http")
		}
	}
	det := func() map[string]interface{} {
		d := req.Describe()
		d["upgrader"] = upgrader
		d["config"] = cfg.String()
		d["plan"] = plan
		d["err"] = fmt.Sprint(out.err)
		d["response"] = string(out.written)
		d["verdict"] = v.ClassName()
		d["why"] = v.Why
		d["handshake"] = fmt.Sprintf("protocol=%q extensions=%v", out.hs.Protocol, out.hs.Extensions)
		return d
	}
	sigp := upgrader
	factor := "canonical"
	hasOpen := false
	for _, w := range v.Why {
		if strings.HasPrefix(w, "reject:") && factor == "canonical" {
			factor = strings.TrimPrefix(w, "reject:")
		}
		if strings.HasPrefix(w, "open:") {
			hasOpen = true
		}
	}
	ri := parseResponse(out.written)
	success := out.err == nil

	switch {
	case success && v.Class == ref.MustReject:
		c.Fail(sigp+"/accepts/"+factor, "Upgrade succeeded for a request that must be rejected ("+strings.Join(v.Why, "; ")+")", det())
		return false
	case !success && v.Class == ref.MustAccept:
		c.Fail(sigp+"/rejects-compliant", "Upgrade failed for a compliant request: "+out.err.Error(), det())
		return false
	}
	if success {
		if ri.parseErr != nil || ri.status != 101 {
			c.Fail(sigp+"/success-response", fmt.Sprintf("success but the bytes written are not a 101 response (status %d, %v)", ri.status, ri.parseErr), det())
			return false
		}
		if ri.trailing != 0 {
			c.Fail(sigp+"/success-trailing", "bytes follow the 101 response head", det())
			return false
		}
		if !strings.EqualFold(ri.header.Get("Upgrade"), "websocket") || !strings.EqualFold(ri.header.Get("Connection"), "upgrade") {
			c.Fail(sigp+"/success-headers", "101 response lacks Upgrade: websocket / Connection: Upgrade", det())
			return false
		}
		if req.Key != "" {
			// (also for requests whose acceptance is OPEN: IF a 101 is written, it answers the key received)
			if got, want := ri.header.Get("Sec-Websocket-Accept"), ref.Accept(req.Key); got != want {
				c.Fail(sigp+"/accept-value", fmt.Sprintf("Sec-WebSocket-Accept is %q, want %q for key %q", got, want, req.Key), det())
				return false
			}
		}
		// subprotocol: first in client order that the selector accepts
		wantProto := expectedProtocol(cfg.ProtoSel, req.Protos, protoHdrs)
		if upgrader == "HTTPUpgrader" && cfg.ProtoSel == "custom" {
			wantProto = ""
		}
		if out.hs.Protocol != wantProto {
			c.Fail(sigp+"/protocol-selected/"+cfg.ProtoSel, fmt.Sprintf("selected subprotocol %q, want %q (offer %v)", out.hs.Protocol, wantProto, req.Protos), det())
			return false
		}
		if got := ri.header.Values("Sec-Websocket-Protocol"); (wantProto == "" && len(got) != 0) || (wantProto != "" && (len(got) != 1 || got[0] != wantProto)) {
			c.Fail(sigp+"/protocol-sent", fmt.Sprintf("response carries subprotocol %v, returned %q", got, wantProto), det())
			return false
		}
		// extensions: only from the client's offer; response == returned
		offered := map[string]bool{}
		for _, n := range req.ExtNames {
			offered[n] = true
		}
		for _, o := range out.hs.Extensions {
			if !offered[string(o.Name)] {
				c.Fail(sigp+"/extension-not-offered", fmt.Sprintf("returned extension %q was not offered (%v)", o.Name, req.ExtNames), det())
				return false
			}
		}
		var sent []httphead.Option
		for _, hv := range ri.header.Values("Sec-Websocket-Extensions") {
			var ok bool
			sent, ok = httphead.ParseOptions([]byte(hv), sent)
			if !ok {
				c.Fail(sigp+"/extension-header-malformed", "response Sec-WebSocket-Extensions does not parse", det())
				return false
			}
		}
		if len(sent) != len(out.hs.Extensions) {
			c.Fail(sigp+"/extension-sent-count", fmt.Sprintf("response carries %v, returned %v", optNames(sent), optNames(out.hs.Extensions)), det())
			return false
		}
		for i := range sent {
			if !sent[i].Equal(out.hs.Extensions[i]) {
				c.Fail(sigp+"/extension-sent-differs", fmt.Sprintf("response extension %s differs from the returned %s", sent[i], out.hs.Extensions[i]), det())
				return false
			}
		}
		switch cfg.ExtSel {
		case "extension-all", "negotiate-accept":
			if upgrader == "HTTPUpgrader" && cfg.ExtSel == "extension-custom" {
				break
			}
			var all []httphead.Option
			for _, hv := range extHdrs {
				all, _ = httphead.ParseOptions([]byte(hv), all)
			}
			if len(all) != len(out.hs.Extensions) {
				c.Fail(sigp+"/extension-select-all", fmt.Sprintf("selector accepts everything: returned %v, offered %v", optNames(out.hs.Extensions), optNames(all)), det())
				return false
			}
			for i := range all {
				if !all[i].Equal(out.hs.Extensions[i]) {
					c.Fail(sigp+"/extension-params", fmt.Sprintf("returned extension %s differs from the offered %s", out.hs.Extensions[i], all[i]), det())
					return false
				}
			}
		case "extension-none", "negotiate-decline", "nil":
			if len(out.hs.Extensions) != 0 {
				c.Fail(sigp+"/extension-select-none", "extensions returned although none may be selected", det())
				return false
			}
		}
		if !extraOK(cfg.Header, ri.header) {
			c.Fail(sigp+"/success-extra-header", "the caller's extra header is missing from the 101 response", det())
			return false
		}
		if upgrader == "Upgrader" && cfg.Reject == "" && !cfg.Bare && ri.header.Get("X-Before") != "upgrade" {
			c.Fail(sigp+"/success-before-header", "the header returned by OnBeforeUpgrade is missing from the 101 response", det())
			return false
		}
	} else {
		// failure: never a 101
		if bytes.Contains(out.written, []byte(" 101 ")) || ri.status == 101 {
			c.Fail(sigp+"/failure-writes-101", "Upgrade failed but a 101 response was written", det())
			return false
		}
		if len(out.written) == 0 {
			if !v.NoResponseOK {
				c.Fail(sigp+"/failure-no-response/"+factor, "Upgrade failed after parsing the request line but wrote no HTTP error response", det())
				return false
			}
		} else {
			if ri.parseErr != nil {
				c.Fail(sigp+"/failure-response-malformed", "error response does not parse: "+ri.parseErr.Error(), det())
				return false
			}
			if v.Class == ref.MustReject && !hasOpen && !v.Statuses[ri.status] {
				c.Fail(fmt.Sprintf("%s/failure-status/%s/%d", sigp, factor, ri.status), fmt.Sprintf("error response has status %d, want one of %v", ri.status, keys(v.Statuses)), det())
				return false
			}
			if ri.status != statusOf(out.err) {
				c.Fail(sigp+"/failure-status-vs-error", fmt.Sprintf("response status %d but the returned error asks for %d", ri.status, statusOf(out.err)), det())
				return false
			}
			if ri.status == 426 && strings.TrimSpace(ri.header.Get("Sec-Websocket-Version")) != "13" {
				c.Fail(sigp+"/426-without-version", "426 response lacks Sec-WebSocket-Version: 13", det())
				return false
			}
			if string(ri.body) != out.err.Error() {
				c.Fail(sigp+"/failure-body", fmt.Sprintf("error body %q is not the error text %q", ri.body, out.err.Error()), det())
				return false
			}
			if cl := ri.header.Get("Content-Length"); cl != fmt.Sprint(len(ri.body)) {
				c.Fail(sigp+"/failure-content-length", fmt.Sprintf("Content-Length %q for a %d-byte body", cl, len(ri.body)), det())
				return false
			}
			if ri.trailing != 0 {
				c.Fail(sigp+"/failure-trailing", "bytes follow the error body", det())
				return false
			}
			if !extraOK(cfg.Header, ri.header) {
				c.Fail(sigp+"/failure-extra-header", "the caller's extra header is missing from the error response", det())
				return false
			}
			if cbRejects && strings.HasPrefix(cfg.RejKind, "custom") && ri.status == customStatus && ri.header.Get("X-Reject") != "yes" {
				c.Fail(sigp+"/failure-reject-header", "the rejecting callback's header is missing from the error response", det())
				return false
			}
		}
	}
	c.Classf("%s|%s|%s|proto=%s|ext=%s|rej=%s|succ=%v|to=%v|pkg=%v", upgrader, v.ClassName(), variantKey(req), cfg.ProtoSel, cfg.ExtSel, cfg.Reject, success, cfg.HTTPTimeout && upgrader == "HTTPUpgrader", cfg.PkgLevel && cfg.zero())
	return true
}

func hasExtras(r *gen.Req) bool {
	switch r.Variant["extra"] {
	case "some", "long-value", "many":
		return true
	}
	return false
}

func keys(m map[int]bool) []int {
	var k []int
	for s := range m {
		k = append(k, s)
	}
	sort.Ints(k)
	return k
}

func variantKey(r *gen.Req) string {
	var parts []string
	for _, f := range gen.ReqFactors {
		if v := r.Variant[f]; v != gen.ReqVariants[f][0] {
			parts = append(parts, f+"="+v)
		}
	}
	return strings.Join(parts, ",")
}

var bufSizes = []int{0, 16, 17, 64, 256, 4096}

func randCfg(c *mon.C, simple bool) Cfg {
	cfg := Cfg{ProtoSel: "nil", ExtSel: "nil", Header: "nil", RejKind: "plain"}
	if simple {
		cfg.Bare = c.Rng.Intn(2) == 0
	}
	if !simple {
		cfg.ProtoSel = protoSels[c.Rng.Intn(len(protoSels))]
		cfg.ExtSel = extSels[c.Rng.Intn(len(extSels))]
		cfg.Header = hdrKinds[c.Rng.Intn(len(hdrKinds))]
		if c.Rng.Intn(3) == 0 {
			cfg.Reject = rejects[c.Rng.Intn(len(rejects))]
			cfg.RejKind = rejKinds[c.Rng.Intn(len(rejKinds))]
		}
		cfg.RBuf = bufSizes[c.Rng.Intn(len(bufSizes))]
		cfg.WBuf = bufSizes[c.Rng.Intn(len(bufSizes))]
	}
	cfg.HTTPTimeout = c.Rng.Intn(2) == 0
	cfg.PkgLevel = c.Rng.Intn(2) == 0
	return cfg
}

// one request through both upgraders
func runBoth(c *mon.C, cfg Cfg, choice map[string]string, protoHdrs, extHdrs []string, httpToo bool) bool {
	req := gen.BuildReq(c.Rng, choice, protoHdrs, extHdrs)
	plans := xport.Plans(c.Rng.Int63(), nil)
	plan := plans[c.Rng.Intn(len(plans))]
	c.Count(1)
	out := runUpgrader(cfg, req, plan)
	if !decide(c, "Upgrader", cfg, req, protoHdrs, extHdrs, out, plan.String()) {
		return false
	}
	if httpToo {
		c.Count(1)
		hout := runHTTPUpgrader(cfg, req)
		if !hout.reached {
			c.Classf("HTTPUpgrader|not-reached|%s", variantKey(req))
			return true
		}
		hcfg := cfg
		hcfg.Reject = ""
		if !decide(c, "HTTPUpgrader", hcfg, req, protoHdrs, extHdrs, hout, "net/http") {
			return false
		}
	}
	if c.WantSample() {
		c.Sample(req.Describe())
	}
	return true
}

func subSingle() mon.Sub {
	type fv struct{ f, v string }
	var list []fv
	for _, f := range gen.ReqFactors {
		for _, v := range gen.ReqVariants[f] {
			list = append(list, fv{f, v})
		}
	}
	return mon.Sub{
		Name: "single-factor", Exhaustive: true, Required: true,
		N: func(string) int { return len(list) * 4 },
		Do: func(c *mon.C) {
			x := list[c.I%len(list)]
			rep := c.I / len(list)
			cfg := randCfg(c, rep == 0)
			cfg.HTTPTimeout = rep%2 == 1 // (every variant meets the upgrader with and without a write timeout)
			if !runBoth(c, cfg, map[string]string{x.f: x.v}, protoOffers[rep%len(protoOffers)], extOffers[rep%len(extOffers)], true) {
				return
			}
		},
	}
}

func subPairs() mon.Sub {
	type fv struct{ f, v string }
	var list []fv
	for _, f := range gen.ReqFactors {
		for _, v := range gen.ReqVariants[f][1:] {
			list = append(list, fv{f, v})
		}
	}
	var pairs [][2]fv
	for i := range list {
		for j := i + 1; j < len(list); j++ {
			if list[i].f != list[j].f {
				pairs = append(pairs, [2]fv{list[i], list[j]})
			}
		}
	}
	return mon.Sub{
		Name: "factor-pairs", Exhaustive: true, Required: true,
		N: func(string) int { return len(pairs) },
		Do: func(c *mon.C) {
			p := pairs[c.I]
			cfg := randCfg(c, c.I%2 == 0)
			runBoth(c, cfg, map[string]string{p[0].f: p[0].v, p[1].f: p[1].v}, protoOffers[c.I%len(protoOffers)], extOffers[c.I/3%len(extOffers)], c.I%4 == 0)
		},
	}
}

func subConfigs() mon.Sub {
	// canonical request x every selector/negotiator/callback/header combination x offers
	return mon.Sub{
		Name: "configs", Exhaustive: true, Required: true,
		N: func(string) int { return len(protoSels) * len(extSels) * len(protoOffers) * len(extOffers) },
		Do: func(c *mon.C) {
			i := c.I
			cfg := Cfg{ProtoSel: protoSels[i%len(protoSels)], ExtSel: extSels[i/len(protoSels)%len(extSels)], RejKind: "plain"}
			po := protoOffers[i/len(protoSels)/len(extSels)%len(protoOffers)]
			eo := extOffers[i/len(protoSels)/len(extSels)/len(protoOffers)]
			cfg.Header = hdrKinds[i%len(hdrKinds)]
			if i%7 == 0 {
				cfg.Reject, cfg.RejKind = rejects[i/7%len(rejects)], rejKinds[i/35%len(rejKinds)]
			}
			choice := map[string]string{}
			if cfg.Reject == "OnHeader" {
				choice["extra"] = "some"
			}
			runBoth(c, cfg, choice, po, eo, i%3 == 0)
		},
	}
}

func subRandom() mon.Sub {
	return mon.Sub{
		Name: "random", Required: true,
		N: func(t string) int {
			if t == "thorough" {
				return 3000000
			}
			return 40000
		},
		Do: func(c *mon.C) {
			choice := map[string]string{}
			for _, f := range gen.ReqFactors {
				if c.Rng.Intn(5) == 0 {
					vs := gen.ReqVariants[f]
					choice[f] = vs[c.Rng.Intn(len(vs))]
				}
			}
			runBoth(c, randCfg(c, false), choice, protoOffers[c.Rng.Intn(len(protoOffers))], extOffers[c.Rng.Intn(len(extOffers))], c.Rng.Intn(4) == 0)
		},
	}
}

// subWriteFault: "report success exactly when ...; the bytes then written are a 101 response". The connection refuses
// (or cuts short) one of the writes that carry the response: whatever the request, a handshake whose answer did not
// reach the wire complete is not a success, and a refused request stays refused. Every write call of the fault-free run
// is failed in turn, with every fault kind of xport.FaultKinds, with and without a partial count.
func subWriteFault() mon.Sub {
	return mon.Sub{
		Name: "response-write-fault", Required: true,
		N: func(t string) int {
			if t == "thorough" {
				return 60000
			}
			return 1500
		},
		Do: func(c *mon.C) {
			choice := map[string]string{}
			for _, f := range gen.ReqFactors {
				if c.Rng.Intn(12) == 0 {
					vs := gen.ReqVariants[f]
					choice[f] = vs[c.Rng.Intn(len(vs))]
				}
			}
			cfg := randCfg(c, c.Rng.Intn(3) == 0)
			req := gen.BuildReq(c.Rng, choice, protoOffers[c.Rng.Intn(len(protoOffers))], extOffers[c.Rng.Intn(len(extOffers))])
			plans := xport.Plans(c.Rng.Int63(), nil)
			plan := plans[c.Rng.Intn(len(plans))]
			// the write calls of the fault-free run
			var baseRec *xport.Rec
			base := runUpgrader(cfg, req, plan, func(r *xport.Rec) { baseRec = r })
			if baseRec == nil || len(baseRec.Calls) == 0 {
				c.Classf("write-fault|nothing-written|ok=%v", base.err == nil)
				return
			}
			kinds := xport.FaultKinds
			for k := 0; k < len(baseRec.Calls); k++ {
				kind := kinds[c.Rng.Intn(len(kinds))]
				short := -1
				if n := len(baseRec.Calls[k].Data); n > 1 && c.Rng.Intn(2) == 0 {
					short = c.Rng.Intn(n) // strictly less than the call's bytes
				}
				c.Count(1)
				out := runUpgrader(cfg, req, plan, func(r *xport.Rec) { r.FailAt, r.ShortN, r.Err, r.Sticky = k, short, kind.Err, true })
				if out.err == nil {
					c.Fail("write-fault/success-reported", fmt.Sprintf("the connection failed write call %d of %d of the response (%s, %d bytes accepted) and Upgrade reported success: the caller holds a \"handshaken\" connection whose peer never got a complete 101 (fault-free outcome: err=%v)", k, len(baseRec.Calls), kind.Name, max(short, 0), base.err),
						map[string]interface{}{"cfg": cfg.String(), "request": string(req.Bytes()), "fault_call": k, "fault": kind.Name, "accepted_bytes": short, "written": string(out.written)})
					return
				}
				if base.err == nil && bytes.Contains(out.written, []byte("\r\n\r\n")) && bytes.HasPrefix(out.written, []byte("HTTP/1.1 101")) && short < 0 && k == 0 {
					c.Fail("write-fault/written-despite-refusal", "the destination refused the first write and a complete 101 is on the wire", map[string]interface{}{"cfg": cfg.String()})
					return
				}
			}
			c.Classf("write-fault|base-ok=%v|calls=%d", base.err == nil, len(baseRec.Calls))
		},
	}
}

// ---- a ResponseWriter that cannot be hijacked: the upgrade cannot happen, the client gets an HTTP error

type plainRW struct {
	h      http.Header
	status int
	body   bytes.Buffer
}

func (w *plainRW) Header() http.Header { return w.h }
func (w *plainRW) WriteHeader(s int) {
	if w.status == 0 {
		w.status = s
	}
}
func (w *plainRW) Write(p []byte) (int, error) {
	if w.status == 0 {
		w.status = 200
	}
	return w.body.Write(p)
}

type failingHijackRW struct{ plainRW }

func (w *failingHijackRW) Hijack() (net.Conn, *bufio.ReadWriter, error) {
	return nil, nil, errors.New("hijack refused: connection already taken over")
}

func subNoHijack() mon.Sub {
	return mon.Sub{
		Name: "http-nohijack", Required: true,
		N: func(string) int { return 24 },
		Do: func(c *mon.C) {
			req := gen.BuildReq(c.Rng, nil, protoOffers[c.I%len(protoOffers)], extOffers[c.I%len(extOffers)])
			hr, err := http.ReadRequest(bufio.NewReader(bytes.NewReader(req.Bytes())))
			if err != nil {
				c.Inconclusive("canonical request not parsed by net/http: " + err.Error())
				return
			}
			var w http.ResponseWriter
			var rec *plainRW
			kind := []string{"no-hijacker", "hijack-fails"}[c.I%2]
			if kind == "no-hijacker" {
				rec = &plainRW{h: http.Header{}}
				w = rec
			} else {
				f := &failingHijackRW{plainRW{h: http.Header{}}}
				rec, w = &f.plainRW, f
			}
			u := ws.HTTPUpgrader{}
			if c.I%4 >= 2 {
				u.Timeout = time.Minute
				u.Header = http.Header{"X-Extra": []string{"one"}}
			}
			c.Count(1)
			var (
				conn net.Conn
				uerr error
			)
			if c.I%3 == 0 && c.I%4 < 2 {
				conn, _, _, uerr = ws.UpgradeHTTP(hr, w)
			} else {
				conn, _, _, uerr = u.Upgrade(hr, w)
			}
			det := map[string]interface{}{"writer": kind, "request": string(req.Bytes()), "err": fmt.Sprint(uerr), "status": rec.status, "header": fmt.Sprint(rec.h), "body": rec.body.String()}
			switch {
			case uerr == nil:
				c.Fail("nohijack/success/"+kind, "HTTPUpgrader.Upgrade reported success although the connection could not be taken over", det)
			case conn != nil:
				c.Fail("nohijack/conn/"+kind, "a connection was returned together with the error", det)
			case rec.status == 101 || rec.status < 400:
				c.Fail("nohijack/status/"+kind, fmt.Sprintf("status %d written instead of an HTTP error", rec.status), det)
			case strings.TrimRight(rec.body.String(), "\r\n") != uerr.Error():
				c.Fail("nohijack/body/"+kind, "the body of the error response is not the error text", det)
			case rec.h.Get("Content-Length") != "" && rec.h.Get("Content-Length") != fmt.Sprint(rec.body.Len()):
				c.Fail("nohijack/content-length/"+kind, "Content-Length does not match the body", det)
			default:
				c.Classf("nohijack|%s|status=%d|timeout=%v", kind, rec.status, u.Timeout != 0)
			}
		},
	}
}

func main() {
	mon.Main(&mon.Spec{
		Property: "C09",
		Level:    "exploration",
		Rule: "requests are generated from a grammar together with their derivation (9 factors: method, version token, Host, Upgrade, Connection, Sec-WebSocket-Version, Sec-WebSocket-Key, extra headers, line ends; 2-17 variants each incl. absent / case- and blank-varied / wrong / empty / duplicated); the three-valued oracle (MUST_ACCEPT / MUST_REJECT with allowed statuses / OPEN) is evaluated on the derivation, not by re-parsing. " +
			"Cases: every single factor variant x 4 configurations, every pair of non-canonical variants of different factors, the canonical request x every subprotocol selector x extension selector/negotiator x offer lists, and seeded random derivations x random configurations (selectors, callbacks rejecting with plain/custom errors, header writers, I/O buffer sizes, chunked transport); sub response-write-fault fails every write call of the response in turn (every fault kind, with and without a partial count): success is never reported then. ws.Upgrader runs over an in-memory chunked transport; ws.HTTPUpgrader behind a real net/http.Server on an in-memory listener. Responses are parsed by net/http. distinct = (upgrader, verdict class, non-canonical variants, selector kinds, outcome).",
		Assumptions: []string{"net/http.ReadResponse is the independent response parser; crypto/sha1 + encoding/base64 compute the expected accept value", "OPEN classes: duplicated mandatory headers with different validity, Upgrade token lists, empty Host, version tokens HTTP/1.01, http/1.1 and a minor version overflowing 64 bits, header with empty name", "requests that net/http refuses itself never reach HTTPUpgrader and are counted as not-reached"},
		Subs:        []mon.Sub{subSingle(), subPairs(), subConfigs(), subRandom(), subNoHijack(), subWriteFault()},
	})
}
