package main

import (
	"context"
	"io"
	"log"
)

type contextT = context.Context

type runKey struct{}

func contextWith(ctx context.Context, run *httpRun) context.Context {
	return context.WithValue(ctx, runKey{}, run)
}

func quietLogger() *log.Logger { return log.New(io.Discard, "", 0) }
