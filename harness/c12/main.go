// C12 — permessage-deflate payloads round-trip and interoperate with standard DEFLATE.
package main

import (
	"bytes"
	"compress/flate"
	"fmt"
	"io"
	"os"

	"github.com/gobwas/ws"
	"github.com/gobwas/ws/wsflate"

	"verifharness/drive"
	"verifharness/mon"
	"verifharness/pyoracle"
	"verifharness/xport"
)

var py *pyoracle.Pool

var tail = []byte{0, 0, 0xff, 0xff}

// payload classes
func payload(c *mon.C, class int) []byte {
	rnd := func(n int) []byte { p := make([]byte, n); c.Rng.Read(p); return p }
	rep := func(n int) []byte {
		p := make([]byte, n)
		pat := []byte("the quick brown fox jumps over the lazy dog. ")
		for i := range p {
			p[i] = pat[(i+i/997)%len(pat)]
		}
		return p
	}
	switch class {
	case 0:
		return nil
	case 1:
		return rnd(1)
	case 2:
		return []byte("Hello, World!")
	case 3:
		return rnd(100)
	case 4:
		return rnd(4096)
	case 5:
		return rnd(70 * 1024)
	case 6:
		return rep(1024)
	case 7:
		return rep(40 * 1024)
	case 8:
		return rep(200 * 1024)
	case 9:
		p := rep(3000 + c.Rng.Intn(3000))
		for i := 0; i < len(p); i += 7 + c.Rng.Intn(40) {
			p[i] = byte(c.Rng.Intn(256))
		}
		return p
	case 10:
		return bytes.Repeat([]byte{0}, 33000)
	case 12:
		// the most compressible messages there are: one byte value, 1 MiB and more (DEFLATE's limit ratio of
		// about 1030:1 is only approached from there on); three times in four a 300 KiB run, to keep the tier quick
		n := 300*1024 + c.Rng.Intn(5000)
		if c.Rng.Intn(4) == 0 {
			n = 1<<20 + c.Rng.Intn(3<<19)
		}
		return bytes.Repeat([]byte{[]byte{0, 'a', 0xff}[c.Rng.Intn(3)]}, n)
	}
	return rnd(c.Rng.Intn(2000))
}

const nClasses = 13

// hideReset hides the Reset method of a compressor.
type hideReset struct{ c wsflate.Compressor }

func (h hideReset) Write(p []byte) (int, error) { return h.c.Write(p) }
func (h hideReset) Flush() error                { return h.c.Flush() }

type hideResetCloser struct{ hideReset }

func (h hideResetCloser) Close() error { return h.c.(io.Closer).Close() }

// hideDecReset hides the optional Reset method of a decompressor.
type hideDecReset struct{ r io.Reader }

func (h hideDecReset) Read(p []byte) (int, error) { return h.r.Read(p) }

// want2 is h as CompressFrame must return it for the compressed frame cf.
func want2(h ws.Header, cf ws.Frame) ws.Header {
	h.Rsv |= ws.Rsv(true, false, false)
	h.Length = int64(len(cf.Payload))
	return h
}

func compressorCtor(level int, resettable, closer bool) func(io.Writer) wsflate.Compressor {
	return func(w io.Writer) wsflate.Compressor {
		f, err := flate.NewWriter(w, level)
		if err != nil {
			panic(err)
		}
		switch {
		case resettable:
			return f
		case closer:
			return hideResetCloser{hideReset{f}}
		}
		return hideReset{f}
	}
}

func splitRandom(c *mon.C, p []byte, maxParts int) [][]byte {
	n := 1 + c.Rng.Intn(maxParts)
	var out [][]byte
	for i := 0; i < n-1 && len(p) > 0; i++ {
		k := c.Rng.Intn(len(p) + 1)
		out = append(out, p[:k])
		p = p[k:]
	}
	return append(out, p)
}

// libraryCompress runs the compression writer with a write/flush/close pattern
// and returns the bytes that reached the destination.
func libraryCompress(c *mon.C, msg []byte, level int, resettable bool, endMode int, reuse *wsflate.Writer) (out []byte, pattern string, err error) {
	var dst bytes.Buffer
	var w *wsflate.Writer
	if reuse != nil {
		w = reuse
		w.Reset(&dst)
	} else {
		w = wsflate.NewWriter(&dst, compressorCtor(level, resettable, endMode != 0))
	}
	parts := splitRandom(c, msg, 8)
	if len(msg) == 0 && c.Rng.Intn(2) == 0 {
		// an empty message for which the application makes NO Write call at all: Flush / Close alone end it
		parts = nil
		pattern += "(no Write) "
	}
	for i, p := range parts {
		if c.Rng.Intn(4) == 0 {
			// through io.Copy (chunked source; any io.ReaderFrom fast path of the writer included)
			n, err := io.Copy(w, xport.NewChunker(p, xport.Plans(c.Rng.Int63(), nil)[c.Rng.Intn(11)]))
			if err != nil || int(n) != len(p) {
				return nil, pattern, fmt.Errorf("io.Copy into the writer: %d of %d bytes, %v", n, len(p), err)
			}
			pattern += fmt.Sprintf("Copy%d ", len(p))
		} else {
			if _, err := w.Write(p); err != nil {
				return nil, pattern, fmt.Errorf("Write: %v", err)
			}
			pattern += fmt.Sprintf("W%d ", len(p))
		}
		if i < len(parts)-1 && c.Rng.Intn(3) == 0 {
			if err := w.Flush(); err != nil {
				return nil, pattern, fmt.Errorf("Flush: %v", err)
			}
			pattern += "F "
		}
	}
	switch endMode {
	case 0: // Flush only
		pattern += "F"
		if err := w.Flush(); err != nil {
			return nil, pattern, fmt.Errorf("final Flush: %v", err)
		}
	case 1: // Flush then Close (as Helper.CompressTo does)
		pattern += "F C"
		if err := w.Flush(); err != nil {
			return nil, pattern, fmt.Errorf("final Flush: %v", err)
		}
		if err := w.Close(); err != nil {
			return nil, pattern, fmt.Errorf("Close: %v", err)
		}
	case 3: // Close without a Flush after the last Write: the compressor's Close emits the pending data and the final block
		pattern += "C"
		if err := w.Close(); err != nil {
			return nil, pattern, fmt.Errorf("Close: %v", err)
		}
	case 2: // Flush, Flush
		pattern += "F F"
		if err := w.Flush(); err != nil {
			return nil, pattern, fmt.Errorf("final Flush: %v", err)
		}
		if err := w.Flush(); err != nil {
			return nil, pattern, fmt.Errorf("second Flush: %v", err)
		}
	}
	return dst.Bytes(), pattern, nil
}

// decResetter is the adapter that lets wsflate.Reader RE-USE a compress/flate decompressor across Reset (wsflate's
// optional ReadResetter is Reset(io.Reader); compress/flate's own method has another signature).
type decResetter struct{ rc io.ReadCloser }

func (d decResetter) Read(p []byte) (int, error) { return d.rc.Read(p) }
func (d decResetter) Close() error               { return d.rc.Close() }
func (d decResetter) Reset(src io.Reader)        { d.rc.(flate.Resetter).Reset(src, nil) }

// reusedReader, when a case sets it, makes libraryDecompress reuse ONE decompression reader through Reset for all
// the streams of that case (byte-reader and plain sources alternate): a connection-long reader instead of one per message.
type reusedReader struct{ r *wsflate.Reader }

func libraryDecompress(c *mon.C, comp []byte, plan xport.Plan, byteReader bool, buf int, reuse ...*reusedReader) ([]byte, error) {
	var src io.Reader
	ch := xport.NewChunker(comp, plan)
	if byteReader {
		src = xport.ByteChunker{Chunker: ch}
	} else {
		// plain, buffered (itself a byte reader), part-consumed buffered, Read-only, all at once
		switch k := (len(comp) + buf) % 6; k {
		case 5:
			src = bytes.NewReader(comp)
		default:
			src = drive.WrapSource(ch, drive.Wraps[k])
		}
	}
	var r *wsflate.Reader
	if len(reuse) > 0 && reuse[0] != nil {
		if reuse[0].r == nil {
			ctor := func(r io.Reader) wsflate.Decompressor { return flate.NewReader(r) }
			if (len(comp)+buf)%2 == 0 {
				// a decompressor the Reader keeps across Reset (through ReadResetter) instead of making a new one
				ctor = func(r io.Reader) wsflate.Decompressor { return decResetter{flate.NewReader(r)} }
			}
			reuse[0].r = wsflate.NewReader(src, ctor)
		} else {
			if (len(comp)+buf)%3 == 0 && len(comp) > 2 {
				// an episode in the life of a connection-long reader: the message before this one was cut by a
				// transport error (a timeout, a reset) in the middle; the reader moves on to the next message
				reuse[0].r.Reset(xport.NewCutter(comp, plan, len(comp)/2, xport.FaultKinds[(len(comp)+buf)%len(xport.FaultKinds)].Err))
				io.Copy(io.Discard, reuse[0].r)
			}
			reuse[0].r.Reset(src)
		}
		r = reuse[0].r
	} else {
		r = wsflate.NewReader(src, func(r io.Reader) wsflate.Decompressor { return flate.NewReader(r) })
	}
	var out []byte
	p := make([]byte, buf)
	if buf == 4095 {
		// drained through io.Copy (any io.WriterTo fast path of the reader included)
		var b bytes.Buffer
		if _, err := io.Copy(&b, r); err != nil {
			return b.Bytes(), err
		}
		out = b.Bytes()
	} else {
		for {
			n, err := r.Read(p)
			out = append(out, p[:n]...)
			if err == io.EOF {
				break
			}
			if err != nil {
				return out, err
			}
		}
	}
	if err := r.Close(); err != nil {
		return out, fmt.Errorf("Close: %v", err)
	}
	return out, nil
}

func firstDiff(a, b []byte) int {
	for i := 0; i < len(a) && i < len(b); i++ {
		if a[i] != b[i] {
			return i
		}
	}
	if len(a) < len(b) {
		return len(a)
	}
	return len(b)
}

var levels = []int{-2, -1, 0, 1, 2, 5, 6, 9}

func subWriterVsZlib() mon.Sub {
	return mon.Sub{
		Name: "writer-vs-zlib", Required: true,
		N: func(t string) int {
			if t == "thorough" {
				return 240000
			}
			return 1500
		},
		Do: func(c *mon.C) {
			class := c.I % nClasses
			if class == 8 && c.I%5 != 0 {
				class = 9
			}
			msg := payload(c, class)
			level := levels[c.I/nClasses%len(levels)]
			resettable := c.Rng.Intn(2) == 0
			endMode := c.Rng.Intn(4)
			det := map[string]interface{}{"payload_class": class, "len": len(msg), "level": level, "resettable": resettable, "end_mode": endMode}
			var reuse *wsflate.Writer
			if c.Rng.Intn(3) == 0 {
				// reused writer: an earlier, unrelated message went through it first
				reuse = wsflate.NewWriter(io.Discard, compressorCtor(level, resettable, true))
				reuse.Write(payload(c, 6))
				if c.Rng.Intn(2) == 0 {
					reuse.Flush()
				}
				det["reused_writer"] = true
			}
			c.Count(1)
			comp, pattern, err := libraryCompress(c, msg, level, resettable, endMode, reuse)
			det["pattern"] = pattern
			if err != nil {
				c.Fail("writer/error", "compression writer failed with a conforming compressor: "+err.Error(), det)
				return
			}
			det["compressed_len"] = len(comp)
			if bytes.HasSuffix(comp, tail) && endMode == 0 && len(msg) > 0 {
				// not forbidden, but then the tail was not removed
				c.Fail("writer/tail-not-removed", "output still ends with 00 00 ff ff", det)
				return
			}
			out, unused, oerr, perr := py.Inflate(append(append([]byte(nil), comp...), tail...))
			if perr != nil {
				c.Inconclusive("oracle process: " + perr.Error())
				return
			}
			if oerr != "" {
				det["zlib"] = oerr
				c.Fail("writer/zlib-rejects", "zlib cannot inflate writer output ++ 00 00 ff ff: "+oerr, det)
				return
			}
			if !bytes.Equal(out, msg) {
				det["first_diff"] = firstDiff(out, msg)
				det["inflated_len"] = len(out)
				c.Fail("writer/zlib-mismatch", fmt.Sprintf("zlib inflates writer output to %d bytes, message has %d (first difference at %d)", len(out), len(msg), firstDiff(out, msg)), det)
				return
			}
			_ = unused
			// the library's own reader recovers it too, for any chunking
			plans := xport.Plans(c.Rng.Int63(), nil)
			var rr *reusedReader
			if c.I%3 == 0 {
				rr = &reusedReader{}
			}
			for k := 0; k < 3; k++ {
				plan := plans[(c.I+k*4)%len(plans)]
				if len(comp) > 20000 && plan.Kind == "one" {
					plan = xport.Plan{Kind: "fixed", K: 311}
				}
				br := (c.I+k)%2 == 0
				c.Count(1)
				got, err := libraryDecompress(c, comp, plan, br, []int{1, 7, 512, 32768, 4095 /* = io.Copy */}[(c.I+k)%5], rr)
				if err != nil || !bytes.Equal(got, msg) {
					det["plan"], det["byte_reader"], det["err"], det["reader_reused_through_reset"] = plan.String(), br, fmt.Sprint(err), rr != nil
					c.Fail("self-roundtrip", fmt.Sprintf("decompression reader does not recover the library's own output (err=%v, %d vs %d bytes)", err, len(got), len(msg)), det)
					return
				}
			}
			c.Classf("class=%d level=%d reset=%v end=%d reuse=%v", class, level, resettable, endMode, reuse != nil)
			c.Sample(det)
		},
	}
}

func subZlibVsReader() mon.Sub {
	return mon.Sub{
		Name: "zlib-vs-reader", Required: true,
		N: func(t string) int {
			if t == "thorough" {
				return 240000
			}
			return 1500
		},
		Do: func(c *mon.C) {
			class := c.I % nClasses
			if class == 8 && c.I%5 != 0 {
				class = 9
			}
			msg := payload(c, class)
			level := c.I / nClasses % 10
			strategy := []int{0, 4, 2, 3, 1}[c.Rng.Intn(5)] // default, fixed, huffman, rle, filtered
			memLevel := 1 + c.Rng.Intn(9)
			final := 1 + c.Rng.Intn(2)
			if c.Rng.Intn(4) == 0 {
				// an encoder without a sync flush ends the message with a BFINAL=1 block and appends one
				// 00 octet, so that the removed tail completes an empty stored block (RFC 7692 §7.2.3.4)
				final = 4
			}
			var chunks []pyoracle.Chunk
			for _, p := range splitRandom(c, msg, 6) {
				chunks = append(chunks, pyoracle.Chunk{Data: p, Flush: []int{0, 0, 1, 2}[c.Rng.Intn(4)]})
			}
			det := map[string]interface{}{"payload_class": class, "len": len(msg), "level": level, "strategy": strategy, "mem_level": memLevel, "final_flush": final, "chunks": len(chunks)}
			raw, err := py.Deflate(level, strategy, memLevel, final, chunks)
			if err != nil {
				c.Inconclusive("oracle process: " + err.Error())
				return
			}
			var comp []byte
			if final == 4 {
				comp = append(append([]byte(nil), raw...), 0x00)
			} else {
				if !bytes.HasSuffix(raw, tail) {
					c.Inconclusive("zlib output does not end with the sync tail")
					return
				}
				comp = raw[:len(raw)-4]
			}
			det["compressed_len"] = len(comp)
			plans := xport.Plans(c.Rng.Int63(), nil)
			var rr *reusedReader
			if c.I%3 == 0 {
				rr = &reusedReader{}
			}
			for k := 0; k < 4; k++ {
				plan := plans[(c.I+k*3)%len(plans)]
				if len(comp) > 20000 && plan.Kind == "one" {
					plan = xport.Plan{Kind: "fixed", K: 509}
				}
				br := (c.I+k)%2 == 0
				c.Count(1)
				got, err := libraryDecompress(c, comp, plan, br, []int{1, 7, 512, 32768, 4095 /* = io.Copy */}[(c.I+k)%5], rr)
				if err != nil || !bytes.Equal(got, msg) {
					det["plan"], det["byte_reader"], det["err"], det["reader_reused_through_reset"] = plan.String(), br, fmt.Sprint(err), rr != nil
					det["first_diff"] = firstDiff(got, msg)
					c.Fail("reader/zlib-stream", fmt.Sprintf("decompression reader does not recover a zlib sync-flushed stream (err=%v, %d vs %d bytes)", err, len(got), len(msg)), det)
					return
				}
			}
			// the one-call helpers take the same peer-made message
			c.Count(1)
			// (the message lies in a receive buffer with other bytes behind it: a slice with spare capacity)
			comp, intact := xport.Arena(comp)
			if d, err := wsflate.DefaultHelper.Decompress(comp); err != nil || !bytes.Equal(d, msg) {
				c.Fail("helpers/zlib-stream", fmt.Sprintf("Helper.Decompress does not recover a message compressed by zlib (err=%v, %d vs %d bytes)", err, len(d), len(msg)), det)
				return
			}
			if w := intact(); w != "" {
				c.Fail("helpers/input-buffer", "Helper.Decompress: "+w, det)
				return
			}
			pf := ws.NewFrame(ws.OpBinary, true, comp)
			pf.Header.Rsv = ws.Rsv(true, false, false)
			if df, err := wsflate.DecompressFrame(pf); err != nil || !bytes.Equal(df.Payload, msg) {
				c.Fail("frames/zlib-stream", fmt.Sprintf("DecompressFrame does not recover a frame compressed by zlib (err=%v)", err), det)
				return
			}
			if w := intact(); w != "" {
				c.Fail("frames/input-buffer", "DecompressFrame: "+w, det)
				return
			}
			c.Classf("class=%d level=%d strat=%d final=%d", class, level, strategy, final)
			c.Sample(det)
		},
	}
}

func subFrames() mon.Sub {
	return mon.Sub{
		Name: "frame-helpers", Required: true,
		N: func(t string) int {
			if t == "thorough" {
				return 40000
			}
			return 600
		},
		Do: func(c *mon.C) {
			class := c.I % nClasses
			if class == 8 || class == 5 {
				class = 9
			}
			msg := payload(c, class)
			h := ws.Header{Fin: true, OpCode: []ws.OpCode{ws.OpText, ws.OpBinary}[c.Rng.Intn(2)], Rsv: ws.Rsv(false, c.Rng.Intn(2) == 0, c.Rng.Intn(2) == 0), Length: int64(len(msg))}
			if c.Rng.Intn(2) == 0 {
				h.Masked = true
				c.Rng.Read(h.Mask[:])
			}
			f := ws.Frame{Header: h, Payload: append([]byte(nil), msg...)}
			det := map[string]interface{}{"payload_class": class, "len": len(msg), "header": fmt.Sprintf("%+v", h)}
			c.Count(1)
			var fIntact func() string
			f.Payload, fIntact = xport.Arena(f.Payload)
			cf, err := wsflate.CompressFrame(f)
			if err != nil {
				c.Fail("frames/compress-error", "CompressFrame failed: "+err.Error(), det)
				return
			}
			if w := fIntact(); w != "" {
				c.Fail("frames/input-buffer", "CompressFrame: "+w, det)
				return
			}
			want := h
			want.Rsv |= ws.Rsv(true, false, false)
			want.Length = int64(len(cf.Payload))
			if cf.Header != want {
				c.Fail("frames/compress-header", fmt.Sprintf("CompressFrame changed more than RSV1 and Length: %+v", cf.Header), det)
				return
			}
			out, _, oerr, perr := py.Inflate(append(append([]byte(nil), cf.Payload...), tail...))
			if perr != nil {
				c.Inconclusive(perr.Error())
				return
			}
			if oerr != "" || !bytes.Equal(out, msg) {
				c.Fail("frames/compress-zlib", "zlib does not inflate CompressFrame's payload to the original: "+oerr, det)
				return
			}
			cfa := cf
			var cfIntact func() string
			cfa.Payload, cfIntact = xport.Arena(cf.Payload)
			df, err := wsflate.DecompressFrame(cfa)
			if err != nil {
				c.Fail("frames/decompress-error", "DecompressFrame failed on CompressFrame's output: "+err.Error(), det)
				return
			}
			if w := cfIntact(); w != "" {
				c.Fail("frames/input-buffer", "DecompressFrame: "+w, det)
				return
			}
			if df.Header != h || !bytes.Equal(df.Payload, msg) {
				c.Fail("frames/roundtrip", "CompressFrame/DecompressFrame do not round-trip to the same header and payload", det)
				return
			}
			// results of the allocating helpers belong to the caller: a later call must not change an earlier result
			{
				hl := wsflate.DefaultHelper
				other := payload(c, (class+1)%nClasses)
				if len(other) > 70000 {
					other = other[:70000]
				}
				c1, e1 := hl.Compress(msg)
				keep := append([]byte(nil), c1...)
				c2, e2 := hl.Compress(other)
				c3, _ := hl.Compress(append([]byte("x"), msg...))
				if e1 != nil || e2 != nil || !bytes.Equal(c1, keep) {
					c.Fail("helpers/compress-result-changed", fmt.Sprintf("the result of Helper.Compress changed when Compress was called again (errors %v, %v)", e1, e2), det)
					return
				}
				d1, e1 := hl.Decompress(keep)
				keepd := append([]byte(nil), d1...)
				d2, e2 := hl.Decompress(c2)
				hl.Decompress(c3)
				if e1 != nil || e2 != nil || !bytes.Equal(d1, keepd) || !bytes.Equal(d1, msg) || !bytes.Equal(d2, other) {
					c.Fail("helpers/decompress-result-changed", fmt.Sprintf("Helper.Decompress(Compress(m)) != m, or an earlier result changed when it was called again (errors %v, %v)", e1, e2), det)
					return
				}
				f2 := ws.Frame{Header: ws.Header{Fin: true, OpCode: ws.OpBinary, Length: int64(len(other))}, Payload: append([]byte(nil), other...)}
				keepcf := append([]byte(nil), cf.Payload...)
				keepdf := append([]byte(nil), df.Payload...)
				if cf2, err := wsflate.CompressFrame(f2); err == nil {
					wsflate.DecompressFrame(cf2)
				}
				if !bytes.Equal(cf.Payload, keepcf) || !bytes.Equal(df.Payload, keepdf) {
					c.Fail("frames/result-changed", "the payload returned by CompressFrame / DecompressFrame changed when the helpers were called for another frame", det)
					return
				}
			}
			// helpers configured by the application: the compressor may or may not offer the optional
			// Reset / Close methods, the decompressor may or may not be resettable
			for v := 0; v < 3; v++ {
				level := []int{-2, -1, 1, 9}[(c.I+v)%4]
				hl := wsflate.Helper{
					Compressor: compressorCtor(level, v == 0, v == 1),
					Decompressor: func(r io.Reader) wsflate.Decompressor {
						switch (c.I + v) % 3 {
						case 0:
							return hideDecReset{flate.NewReader(r)}
						case 1:
							return decResetter{flate.NewReader(r)}
						}
						return flate.NewReader(r)
					},
				}
				vdet := map[string]interface{}{"payload_class": class, "len": len(msg), "compressor": []string{"resettable+closer", "closer only", "Write+Flush only"}[v], "level": level}
				cm, err := hl.Compress(msg)
				if err != nil {
					c.Fail("helpers/custom/compress-error", "Helper.Compress with an application-supplied compressor failed: "+err.Error(), vdet)
					return
				}
				back, err := io.ReadAll(flate.NewReader(io.MultiReader(bytes.NewReader(cm), bytes.NewReader(tail), bytes.NewReader([]byte{1, 0, 0, 0xff, 0xff}))))
				if err != nil || !bytes.Equal(back, msg) {
					c.Fail("helpers/custom/compress-inflate", fmt.Sprintf("Helper.Compress output + 00 00 ff ff does not inflate to the message (err=%v, %d of %d bytes)", err, len(back), len(msg)), vdet)
					return
				}
				dm, err := hl.Decompress(cm)
				if err != nil || !bytes.Equal(dm, msg) {
					c.Fail("helpers/custom/roundtrip", fmt.Sprintf("Helper.Decompress(Helper.Compress(m)) != m (err=%v)", err), vdet)
					return
				}
				cf2, err := hl.CompressFrame(f)
				if err != nil || cf2.Header != want2(h, cf2) {
					c.Fail("helpers/custom/compress-frame", fmt.Sprintf("Helper.CompressFrame: err=%v header=%+v", err, cf2.Header), vdet)
					return
				}
				df2, err := hl.DecompressFrame(cf2)
				if err != nil || df2.Header != h || !bytes.Equal(df2.Payload, msg) {
					c.Fail("helpers/custom/frame-roundtrip", fmt.Sprintf("Helper.DecompressFrame(Helper.CompressFrame(f)) != f (err=%v)", err), vdet)
					return
				}
			}
			// non-final frames are refused by both helpers
			// a frame that already carries the compression bit: the helpers refuse it, or (the statement's round trip)
			// whatever they return decompresses back to exactly that frame - never a frame that lost a layer
			for name, call := range map[string]func(ws.Frame) (ws.Frame, error){"CompressFrame": wsflate.CompressFrame, "Helper.CompressFrame": wsflate.DefaultHelper.CompressFrame} {
				in := cf
				in.Payload = append([]byte(nil), cf.Payload...)
				c.Count(1)
				if cc, err := call(in); err == nil {
					back, derr := wsflate.DecompressFrame(cc)
					if derr != nil || back.Header != cf.Header || !bytes.Equal(back.Payload, cf.Payload) {
						c.Fail("frames/compress-twice/"+name, fmt.Sprintf("%s accepted a frame that is already compressed and returned one that does not decompress back to it (err=%v, header %+v)", name, derr, back.Header), det)
						return
					}
				}
			}
			nf := f
			nf.Header.Fin = false
			if _, err := wsflate.CompressFrame(nf); err == nil {
				c.Fail("frames/compress-nonfinal", "CompressFrame accepts a non-final frame", det)
				return
			}
			ncf := cf
			ncf.Header.Fin = false
			if _, err := wsflate.DecompressFrame(ncf); err == nil {
				c.Fail("frames/decompress-nonfinal", "DecompressFrame accepts a non-final frame", det)
				return
			}
			// ... whatever the opcode and whether or not the compression bit is set (a continuation
			// fragment of a compressed message carries no RSV1), through every helper variant
			for _, op := range []ws.OpCode{ws.OpText, ws.OpBinary, ws.OpContinuation} {
				for _, src := range []ws.Frame{f, cf} {
					x := src
					x.Header.Fin = false
					x.Header.OpCode = op
					x.Payload = append([]byte(nil), src.Payload...)
					var hb bytes.Buffer
					hl := wsflate.DefaultHelper
					calls := map[string]func() error{
						"DecompressFrame":              func() error { _, e := wsflate.DecompressFrame(x); return e },
						"DecompressFrameBuffer":        func() error { _, e := wsflate.DecompressFrameBuffer(&hb, x); return e },
						"Helper.DecompressFrame":       func() error { _, e := hl.DecompressFrame(x); return e },
						"Helper.DecompressFrameBuffer": func() error { _, e := hl.DecompressFrameBuffer(&hb, x); return e },
						"CompressFrame":                func() error { _, e := wsflate.CompressFrame(x); return e },
						"CompressFrameBuffer":          func() error { _, e := wsflate.CompressFrameBuffer(&hb, x); return e },
						"Helper.CompressFrame":         func() error { _, e := hl.CompressFrame(x); return e },
						"Helper.CompressFrameBuffer":   func() error { _, e := hl.CompressFrameBuffer(&hb, x); return e },
					}
					r1, _, _ := ws.RsvBits(x.Header.Rsv)
					for name, call := range calls {
						if r1 && name[0] != 'D' && name[:8] != "Helper.D" {
							continue // compressing an already-compressed frame is an error of its own
						}
						c.Count(1)
						if call() == nil {
							c.Fail("frames/nonfinal-accepted/"+name, fmt.Sprintf("%s accepts a non-final frame (opcode %d, rsv1=%v)", name, op, r1), det)
							return
						}
					}
				}
			}
			// an uncompressed frame passes through DecompressFrame unchanged
			pf, err := wsflate.DecompressFrame(f)
			if err != nil || pf.Header != h || !bytes.Equal(pf.Payload, msg) {
				c.Fail("frames/passthrough", "DecompressFrame changed a frame without the compression bit", det)
				return
			}
			c.Classf("class=%d masked=%v rsv=%d", class, h.Masked, h.Rsv)
			c.Sample(det)
		},
	}
}

// fakeCompressor copies its input and appends `suffix` on Flush.
type fakeCompressor struct {
	w      io.Writer
	suffix []byte
	chunk  int
}

func (f *fakeCompressor) Write(p []byte) (int, error) {
	n := 0
	for len(p) > 0 {
		k := len(p)
		if f.chunk > 0 && k > f.chunk {
			k = f.chunk
		}
		m, err := f.w.Write(p[:k])
		n += m
		if err != nil {
			return n, err
		}
		p = p[k:]
	}
	return n, nil
}
func (f *fakeCompressor) Flush() error { _, err := f.w.Write(f.suffix); return err }

// fakeCloser is a fakeCompressor whose Close emits an epilogue.
type fakeCloser struct {
	fakeCompressor
	epilogue []byte
}

func (f *fakeCloser) Close() error { _, err := f.w.Write(f.epilogue); return err }

func subTailLogic() mon.Sub {
	suffixes := [][]byte{tail, nil, {0, 0, 0xff}, {0, 0, 0xff, 0xfe}, {0xff, 0xff, 0, 0}, {0, 0, 0xff, 0xff, 0}, {1, 0, 0, 0xff, 0xff}}
	return mon.Sub{
		Name: "tail-logic", Required: true,
		N: func(t string) int {
			if t == "thorough" {
				return 200000
			}
			return 3000
		},
		Do: func(c *mon.C) {
			sfx := suffixes[c.I%len(suffixes)]
			good := bytes.HasSuffix(sfx, tail)
			msg := make([]byte, c.Rng.Intn(40))
			if c.Rng.Intn(4) == 0 {
				msg = make([]byte, c.Rng.Intn(5000))
			}
			c.Rng.Read(msg)
			if c.Rng.Intn(3) == 0 && len(msg) >= 4 {
				copy(msg[len(msg)-4:], tail) // data that itself looks like a tail
			}
			var dst bytes.Buffer
			chunk := []int{0, 1, 2, 3, 4, 5, 9}[c.Rng.Intn(7)]
			w := wsflate.NewWriter(&dst, func(w io.Writer) wsflate.Compressor { return &fakeCompressor{w: w, suffix: sfx, chunk: chunk} })
			parts := splitRandom(c, msg, 6)
			c.Count(1)
			var werr error
			for _, p := range parts {
				if _, werr = w.Write(p); werr != nil {
					break
				}
			}
			ferr := w.Flush()
			det := map[string]interface{}{"suffix": fmt.Sprintf("%x", sfx), "msg_len": len(msg), "parts": len(parts), "compressor_chunk": chunk, "flush_err": fmt.Sprint(ferr)}
			if werr != nil {
				c.Fail("tail/write-error", "Write failed: "+werr.Error(), det)
				return
			}
			stream := append(append([]byte(nil), msg...), sfx...)
			if good {
				if ferr != nil {
					c.Fail("tail/good-compressor-rejected", "Flush reports an error although the compressor ended its flush with 00 00 ff ff: "+ferr.Error(), det)
					return
				}
				if want := stream[:len(stream)-4]; !bytes.Equal(dst.Bytes(), want) {
					det["first_diff"] = firstDiff(dst.Bytes(), want)
					c.Fail("tail/withheld-bytes", fmt.Sprintf("destination holds %d bytes, want everything but the last four (%d)", dst.Len(), len(want)), det)
					return
				}
			} else {
				if ferr == nil && !bytes.HasSuffix(stream, tail) {
					c.Fail("tail/bad-compressor-accepted", "a compressor that does not end its flush with 00 00 ff ff was not reported", det)
					return
				}
				// after the error every later call reports it
				if ferr != nil {
					if _, e := w.Write([]byte("x")); e == nil {
						c.Fail("tail/error-not-sticky", "Write succeeds after the bad-compressor error", det)
						return
					}
				}
			}
			// ... and the compressor's CLOSE epilogue counts as well (compress/flate's Close emits an empty stored final
			// block, 01 00 00 ff ff; another encoder may end its stream differently): Write, Flush, Close - whatever the
			// compressor emitted in all must end with 00 00 ff ff, or Close reports it; what reached the destination is
			// everything but those four bytes
			if good {
				epi := [][]byte{{0x01, 0x00, 0x00, 0xff, 0xff}, {0x03, 0x00}, {}, {0x00}, {0x00, 0x00, 0xff, 0xff}, {0xff, 0xff}}[c.I/len(suffixes)%6]
				var d2 bytes.Buffer
				w2 := wsflate.NewWriter(&d2, func(w io.Writer) wsflate.Compressor {
					return &fakeCloser{fakeCompressor{w: w, suffix: sfx, chunk: chunk}, epi}
				})
				c.Count(1)
				_, e1 := w2.Write(msg)
				e2 := w2.Flush()
				e3 := w2.Close()
				total := append(append(append([]byte(nil), msg...), sfx...), epi...)
				det["close_epilogue"], det["close_err"] = fmt.Sprintf("%x", epi), fmt.Sprint(e3)
				switch {
				case e1 != nil || e2 != nil:
					c.Fail("tail/close/early-error", fmt.Sprintf("Write / Flush failed with a conforming compressor: %v / %v", e1, e2), det)
					return
				case !bytes.HasSuffix(total, tail) && e3 == nil && w2.Err() == nil:
					c.Fail("tail/close/bad-epilogue-accepted", "the compressor's output, Close epilogue included, does not end with 00 00 ff ff and neither Close nor Err reports it", det)
					return
				case bytes.HasSuffix(total, tail) && (e3 != nil || !bytes.Equal(d2.Bytes(), total[:len(total)-4])):
					c.Fail("tail/close/good-epilogue", fmt.Sprintf("Close with an epilogue ending in 00 00 ff ff: err=%v, destination holds %d bytes, want %d", e3, d2.Len(), len(total)-4), det)
					return
				}
			}
			// the same compressor behind the frame-level helpers - in a process where OTHER helpers (the default one,
			// one with another compressor) are at work before and after: each Helper runs on its own compressor
			others := []wsflate.Helper{wsflate.DefaultHelper, {Compressor: compressorCtor(1, c.I%2 == 0, false), Decompressor: func(r io.Reader) wsflate.Decompressor { return flate.NewReader(r) }}}
			other := others[c.I/len(suffixes)%2]
			otherOK := func(when string) bool {
				om, err := other.Compress(msg)
				var back []byte
				if err == nil {
					back, err = other.Decompress(om)
				}
				if err != nil || !bytes.Equal(back, msg) {
					c.Fail("tail/helper/other-helper-"+when, fmt.Sprintf("a conforming Helper used %s one with an application-supplied compressor does not round-trip the message (err=%v)", when, err), det)
					return false
				}
				return true
			}
			if !otherOK("before") {
				return
			}
			hl := wsflate.Helper{Compressor: func(w io.Writer) wsflate.Compressor { return &fakeCompressor{w: w, suffix: sfx, chunk: chunk} }, Decompressor: wsflate.DefaultHelper.Decompressor}
			c.Count(2)
			hm, herr := hl.Compress(msg)
			cf, cerr := hl.CompressFrame(ws.NewBinaryFrame(msg))
			det["helper_compress_err"], det["helper_compressframe_err"] = fmt.Sprint(herr), fmt.Sprint(cerr)
			if good {
				want := stream[:len(stream)-4]
				if herr != nil || cerr != nil || !bytes.Equal(hm, want) || !bytes.Equal(cf.Payload, want) {
					c.Fail("tail/helper/good-compressor", "Helper.Compress / CompressFrame with a compressor that ends its flush with 00 00 ff ff: error, or not the compressor's output without the tail", det)
					return
				}
			} else if !bytes.HasSuffix(stream, tail) && (herr == nil || cerr == nil) {
				c.Fail("tail/helper/bad-compressor-accepted", fmt.Sprintf("Helper.Compress (err=%v) / CompressFrame (err=%v): a compressor that does not end its flush with 00 00 ff ff was not reported", herr, cerr), det)
				return
			}
			if !otherOK("after") {
				return
			}
			c.Classf("sfx=%x chunk=%d msg=%d", sfx, chunk, len(msg)/1000)
			c.Sample(det)
		},
	}
}

// scriptedCompressor behaves per message: message i ends its flush with suffixes[i].
// With resettable it keeps its identity across Writer.Reset (Reset(io.Writer) is called);
// otherwise the Writer's constructor builds a new one per Reset.
type scriptedCompressor struct {
	w      io.Writer
	script *tailScript
	suffix []byte
}

type tailScript struct {
	suffixes [][]byte
	next     int
}

func (t *tailScript) take() []byte {
	s := t.suffixes[t.next%len(t.suffixes)]
	t.next++
	return s
}

func (f *scriptedCompressor) Write(p []byte) (int, error) { return f.w.Write(p) }
func (f *scriptedCompressor) Flush() error                { _, err := f.w.Write(f.suffix); return err }

type scriptedResettable struct{ scriptedCompressor }

func (f *scriptedResettable) Reset(w io.Writer) { f.w = w; f.suffix = f.script.take() }

// a Writer reused through Reset must judge every message's tail on its own
// subRefusing: ONE write of the destination is refused (zero bytes taken, an error returned) and every other one
// accepted, at every write index of a Write / Flush / Write / Flush / Close history: either some call (or Err) reports
// an error, or what reached the destination, with 00 00 ff ff appended, inflates to the message. A refused write that
// nobody mentions is a corrupt message the application believes it has sent.
func subRefusing() mon.Sub {
	return mon.Sub{
		Name: "refusing-destination", Required: true,
		N: func(t string) int {
			if t == "thorough" {
				return 6000
			}
			return 300
		},
		Do: func(c *mon.C) {
			class := []int{2, 3, 4, 6, 9, 11}[c.I%6]
			msg := payload(c, class)
			level := []int{-2, 0, 1, 6, 9}[c.I/6%5]
			parts := splitRandom(c, msg, 4)
			run := func(failAt int, fk error) (rec *xport.Rec, sawErr bool, trace []string) {
				rec = xport.NewRec()
				rec.FailAt, rec.ShortN, rec.Err = failAt, 0, fk
				w := wsflate.NewWriter(rec, compressorCtor(level, c.I%2 == 0, c.I%3 != 0))
				note := func(op string, err error) {
					trace = append(trace, fmt.Sprintf("%s -> %v", op, err))
					if err != nil {
						sawErr = true
					}
				}
				for i, p := range parts {
					_, err := w.Write(p)
					note(fmt.Sprintf("Write(%d)", len(p)), err)
					if i%2 == 0 || i == len(parts)-1 {
						note("Flush", w.Flush())
					}
				}
				if len(parts) == 0 {
					note("Flush", w.Flush())
				}
				if c.I%4 != 3 {
					note("Close", w.Close())
				}
				note("Err", w.Err())
				return
			}
			healthy, herr, _ := run(-1, nil)
			if herr || len(healthy.Calls) == 0 {
				return
			}
			for j := 0; j < len(healthy.Calls); j++ {
				c.Count(1)
				fk := xport.FaultKinds[(c.I+j)%len(xport.FaultKinds)]
				rec, sawErr, trace := run(j, fk.Err)
				if len(rec.Calls) <= j || sawErr {
					continue
				}
				out, ierr := io.ReadAll(flate.NewReader(bytes.NewReader(append(append([]byte(nil), rec.Bytes()...), 0x00, 0x00, 0xff, 0xff, 0x01, 0x00, 0x00, 0xff, 0xff))))
				if ierr != nil || !bytes.Equal(out, msg) {
					c.Fail("refused-write/swallowed", fmt.Sprintf("destination write %d of %d was refused (%s) but Write, Flush, Close and Err all report success, and what reached the destination does not inflate to the message (err=%v, %d of %d bytes)", j, len(healthy.Calls), fk.Name, ierr, len(out), len(msg)),
						map[string]interface{}{"payload_class": class, "level": level, "ops": trace, "refused_destination_write": j, "error_kind": fk.Name})
					return
				}
			}
			c.Classf("refusing|class=%d|level=%d|writes=%d", class, level, len(healthy.Calls))
		},
	}
}

func subTailReuse() mon.Sub {
	bad := [][]byte{nil, {0}, {0, 0}, {0, 0, 0xff}, {0xff}, {0xff, 0xff}, {0, 0xff, 0xff}, {0, 0, 0xff, 0xfe}}
	return mon.Sub{
		Name: "tail-logic-reuse", Required: true,
		N: func(t string) int {
			if t == "thorough" {
				return 40000
			}
			return 2000
		},
		Do: func(c *mon.C) {
			resettable := c.I%2 == 0
			n := 2 + c.Rng.Intn(4)
			script := &tailScript{}
			var good []bool
			for i := 0; i < n; i++ {
				if c.Rng.Intn(2) == 0 {
					script.suffixes = append(script.suffixes, tail)
					good = append(good, true)
				} else {
					script.suffixes = append(script.suffixes, bad[c.Rng.Intn(len(bad))])
					good = append(good, false)
				}
			}
			ctor := func(w io.Writer) wsflate.Compressor {
				sc := scriptedCompressor{w: w, script: script}
				sc.suffix = script.take()
				if resettable {
					return &scriptedResettable{sc}
				}
				return &sc
			}
			var dst bytes.Buffer
			w := wsflate.NewWriter(&dst, ctor)
			var hist []string
			for i := 0; i < n; i++ {
				if i > 0 {
					dst.Reset()
					w.Reset(&dst)
				}
				c.Count(1)
				msg := make([]byte, []int{0, 0, 1, 3, 4, 5, 40}[c.Rng.Intn(7)])
				c.Rng.Read(msg)
				_, werr := w.Write(msg)
				ferr := w.Flush()
				hist = append(hist, fmt.Sprintf("message %d: %d bytes, compressor ends flush with %x -> write err=%v flush err=%v", i, len(msg), script.suffixes[i], werr, ferr))
				stream := append(append([]byte(nil), msg...), script.suffixes[i]...)
				endsWithTail := bytes.HasSuffix(stream, tail)
				det := map[string]interface{}{"resettable_compressor": resettable, "history": hist}
				switch {
				case endsWithTail && (werr != nil || ferr != nil):
					c.Fail("tail-reuse/good-rejected", "a flush that ends with 00 00 ff ff was reported as an error on a reused writer", det)
					return
				case endsWithTail && !bytes.Equal(dst.Bytes(), stream[:len(stream)-4]):
					c.Fail("tail-reuse/withheld-bytes", "destination does not hold everything but the last four bytes on a reused writer", det)
					return
				case !endsWithTail && werr == nil && ferr == nil:
					c.Fail("tail-reuse/bad-compressor-accepted", fmt.Sprintf("message %d: the compressor did not end its flush with 00 00 ff ff but Flush returned nil (writer reused after %d earlier messages)", i, i), det)
					return
				}
			}
			c.Classf("n=%d resettable=%v first=%v", n, resettable, good[0])
			c.Sample(map[string]interface{}{"resettable_compressor": resettable, "history": hist})
		},
	}
}

func main() {
	mon.Main(&mon.Spec{
		Property: "C12",
		Level:    "exploration",
		Rule: "oracle = CPython zlib (python3 oracles/inflate.py, raw deflate window 15) in a pool of subprocesses; the library runs with Go's compress/flate as the user-supplied codec. (a) writer: 12 payload classes (empty, 1 byte, incompressible 100/4K/70K, compressible 1K/40K/200K > window, text-like, zero runs, random) x flate levels {-2,-1,0,1,2,5,6,9} x resettable / non-resettable compressors x random write splits with Flush after random writes x end {Flush, Flush+Close, Flush+Flush, Close with no Flush after the last Write} x fresh / reused writer: zlib must inflate output ++ 00 00 ff ff to the message, and the library reader must recover it under 3 chunk plans; " +
			"(b) reader: zlib streams (levels 0-9, strategies default/fixed/huffman/rle/filtered, memLevel 1-9, inner sync/full flushes, final sync or full flush minus the 4-byte tail, or a final BFINAL=1 block plus the 00 octet of RFC 7692 §7.2.3.4), read through byte-reader and plain-reader sources under 4 chunk plans and 4 buffer sizes; (c) frame helpers: header/payload round trip, RSV1+Length only, non-final refused, pass-through; (d) tail logic with fake compressors ending a flush with 7 different suffixes and odd chunkings, and (e) writers REUSED through Reset for 2-5 messages whose (resettable or rebuilt) compressor ends each flush with a scripted good or bad suffix: every message is judged on its own; (f) preset-dictionary codecs (flate.NewWriterDict / NewReaderDict constructors) behind one connection-long Writer and Reader, 2-6 messages each judged against a new dictionary-primed decoder. distinct = (payload class, level/strategy, mode) classes.",
		Assumptions: []string{"CPython zlib 1.2.13 is the independent DEFLATE implementation", "python3 is on PATH (pre-installed in the image)"},
		Setup: func(r *mon.Run) {
			var err error
			py, err = pyoracle.Start(16)
			if err != nil {
				fmt.Fprintln(os.Stderr, "cannot start python oracle:", err)
				os.Exit(3)
			}
		},
		Subs: []mon.Sub{subWriterVsZlib(), subZlibVsReader(), subFrames(), subTailLogic(), subTailReuse(), subRefusing(), subPresetDict()},
	})
}
