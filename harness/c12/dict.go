package main

import (
	"bytes"
	"compress/flate"
	"fmt"
	"io"

	"github.com/gobwas/ws/wsflate"

	"verifharness/drive"
	"verifharness/mon"
	"verifharness/xport"
)

// subPresetDict: the codec is the application's - wsflate only wraps what the constructors return. Here both ends of
// a connection are configured with a PRESET DICTIONARY (flate.NewWriterDict / flate.NewReaderDict: every message is
// compressed against a shared vocabulary, the usual trick for small JSON messages), and ONE wsflate.Writer and ONE
// wsflate.Reader serve the connection's 2-6 messages through Reset. Whatever the library does at a Reset - rebuild
// the codec with its constructor, or re-use it through one of the optional interfaces - message k must come out
// exactly as message 0 does: inflatable by a NEW dictionary-primed decoder once the tail is appended, and recovered by
// the long-lived Reader.
func subPresetDict() mon.Sub {
	return mon.Sub{
		Name: "preset-dictionary", Required: true,
		N: func(t string) int {
			if t == "thorough" {
				return 30000
			}
			return 400
		},
		Do: func(c *mon.C) {
			dict := payload(c, []int{5, 8, 9, 3}[c.Rng.Intn(4)])
			if len(dict) > 32768 {
				dict = dict[:32768]
			}
			if len(dict) < 8 {
				dict = []byte(`{"type":"message","channel":"general","user":"","text":""}`)
			}
			level := []int{-1, 1, 2, 5, 6, 9}[c.Rng.Intn(6)]
			wctor := func(w io.Writer) wsflate.Compressor {
				fw, err := flate.NewWriterDict(w, level, dict)
				if err != nil {
					panic(err)
				}
				return fw
			}
			rctor := func(r io.Reader) wsflate.Decompressor { return flate.NewReaderDict(r, dict) }
			n := 2 + c.Rng.Intn(5)
			var w *wsflate.Writer
			var r *wsflate.Reader
			var hist []string
			for i := 0; i < n; i++ {
				// messages made of the vocabulary (so that the dictionary is what the compressed form refers to)
				var msg []byte
				for k := c.Rng.Intn(6); k > 0; k-- {
					a := c.Rng.Intn(len(dict))
					b := a + c.Rng.Intn(min(len(dict)-a, 300)+1)
					msg = append(msg, dict[a:b]...)
					if c.Rng.Intn(3) == 0 {
						msg = append(msg, byte(c.Rng.Intn(256)))
					}
				}
				var dst bytes.Buffer
				if w == nil {
					w = wsflate.NewWriter(&dst, wctor)
				} else {
					w.Reset(&dst)
				}
				c.Count(1)
				for _, p := range splitRandom(c, msg, 4) {
					if _, err := w.Write(p); err != nil {
						c.Fail("dict/write-error", fmt.Sprintf("message %d of a connection-long writer with a dictionary-primed compressor: Write: %v", i, err), map[string]interface{}{"history": hist})
						return
					}
				}
				if err := w.Flush(); err != nil {
					c.Fail("dict/flush-error", fmt.Sprintf("message %d of a connection-long writer with a dictionary-primed compressor: Flush: %v", i, err), map[string]interface{}{"history": hist})
					return
				}
				comp := append([]byte(nil), dst.Bytes()...)
				hist = append(hist, fmt.Sprintf("message %d: %d bytes -> %d compressed", i, len(msg), len(comp)))
				// a new, dictionary-primed decoder (not the library's reader) on output ++ tail
				ref, rerr := io.ReadAll(flate.NewReaderDict(bytes.NewReader(append(append([]byte(nil), comp...), 0, 0, 0xff, 0xff, 1, 0, 0, 0xff, 0xff)), dict))
				if rerr != nil || !bytes.Equal(ref, msg) {
					c.Fail("dict/writer-output", fmt.Sprintf("message %d written by a connection-long wsflate.Writer whose compressor was built with a preset dictionary does not inflate (new flate.NewReaderDict on output ++ 00 00 ff ff) to the message: err=%v, %d bytes for %d (first difference at %d)", i, rerr, len(ref), len(msg), firstDiff(ref, msg)),
						map[string]interface{}{"history": hist, "level": level, "dict_len": len(dict)})
					return
				}
				// the connection-long reader
				plans := xport.Plans(c.Rng.Int63(), nil)
				var src io.Reader = xport.NewChunker(comp, plans[c.Rng.Intn(len(plans))])
				if c.Rng.Intn(2) == 0 {
					src = drive.WrapSource(src, drive.Wraps[c.Rng.Intn(len(drive.Wraps))])
				}
				if r == nil {
					r = wsflate.NewReader(src, rctor)
				} else {
					r.Reset(src)
				}
				got, err := io.ReadAll(r)
				if err != nil || !bytes.Equal(got, msg) {
					c.Fail("dict/reader", fmt.Sprintf("message %d read by a connection-long wsflate.Reader (Reset between messages) whose decompressor constructor primes a preset dictionary: err=%v, %d bytes for %d (first difference at %d); a new wsflate.Reader gets it right", i, err, len(got), len(msg), firstDiff(got, msg)),
						map[string]interface{}{"history": hist, "level": level, "dict_len": len(dict)})
					return
				}
			}
			c.Classf("dict|n=%d|level=%d|dict=%d", n, level, len(dict)/4096)
		},
	}
}
