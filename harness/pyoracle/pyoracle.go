// Package pyoracle talks to /verif/oracles/inflate.py (CPython zlib), the
// independent DEFLATE implementation used as the oracle of C12.
package pyoracle

import (
	"bufio"
	"encoding/hex"
	"fmt"
	"io"
	"os"
	"os/exec"
	"path/filepath"
	"strconv"
	"strings"
)

type proc struct {
	cmd *exec.Cmd
	in  io.WriteCloser
	out *bufio.Reader
}

// Pool is a pool of oracle processes.
type Pool struct{ ch chan *proc }

// Start launches n oracle processes.
func Start(n int) (*Pool, error) {
	p := &Pool{ch: make(chan *proc, n)}
	for i := 0; i < n; i++ {
		cmd := exec.Command("python3", filepath.Join(home(), "oracles", "inflate.py"), "serve")
		in, err := cmd.StdinPipe()
		if err != nil {
			return nil, err
		}
		out, err := cmd.StdoutPipe()
		if err != nil {
			return nil, err
		}
		if err := cmd.Start(); err != nil {
			return nil, err
		}
		p.ch <- &proc{cmd, in, bufio.NewReaderSize(out, 1<<20)}
	}
	return p, nil
}

func (p *Pool) call(line string) (string, error) {
	pr := <-p.ch
	defer func() { p.ch <- pr }()
	if _, err := io.WriteString(pr.in, line+"\n"); err != nil {
		return "", err
	}
	resp, err := pr.out.ReadString('\n')
	if err != nil {
		return "", err
	}
	return strings.TrimSpace(resp), nil
}

func unhex(s string) []byte {
	if s == "-" || s == "" {
		return nil
	}
	b, _ := hex.DecodeString(s)
	return b
}

func enc(b []byte) string {
	if len(b) == 0 {
		return "-"
	}
	return hex.EncodeToString(b)
}

// Inflate inflates a raw DEFLATE stream with CPython's zlib. oracleErr is set
// when zlib refuses the stream; err when the oracle process itself failed.
func (p *Pool) Inflate(raw []byte) (out, unused []byte, oracleErr string, err error) {
	line := "inflate"
	if len(raw) > 0 {
		line += " " + hex.EncodeToString(raw)
	}
	resp, err := p.call(line)
	if err != nil {
		return nil, nil, "", err
	}
	f := strings.Fields(resp)
	if len(f) >= 1 && f[0] == "err" {
		return nil, nil, resp, nil
	}
	if len(f) != 4 || f[0] != "ok" {
		return nil, nil, "", fmt.Errorf("oracle protocol: %.100s", resp)
	}
	if f[3] == "midblock" {
		// the input ends INSIDE a DEFLATE block: whatever was inflated so far, this is no stream a receiver can take
		return unhex(f[1]), unhex(f[2]), "err the stream ends in the middle of a DEFLATE block (" + strconv.Itoa(len(raw)) + " bytes given)", nil
	}
	return unhex(f[1]), unhex(f[2]), "", nil
}

// Chunk is one input chunk of Deflate with the flush that follows it
// (0 none, 1 Z_SYNC_FLUSH, 2 Z_FULL_FLUSH).
type Chunk struct {
	Data  []byte
	Flush int
}

// Deflate compresses with CPython's zlib (raw deflate, window 15) and a final
// sync (1) or full (2) flush; the result ends in 00 00 ff ff.
func (p *Pool) Deflate(level, strategy, memLevel, final int, chunks []Chunk) ([]byte, error) {
	var b strings.Builder
	fmt.Fprintf(&b, "deflate %d %d %d %d", level, strategy, memLevel, final)
	for _, c := range chunks {
		fmt.Fprintf(&b, " %s:%d", enc(c.Data), c.Flush)
	}
	resp, err := p.call(b.String())
	if err != nil {
		return nil, err
	}
	f := strings.Fields(resp)
	if len(f) != 2 || f[0] != "ok" {
		return nil, fmt.Errorf("oracle: %.200s", resp)
	}
	return unhex(f[1]), nil
}

// home is /verif, or the snapshot directory a `vp run` works in (VERIF_HOME, set by bin/check).
func home() string {
	if d := os.Getenv("VERIF_HOME"); d != "" {
		return d
	}
	return "/verif"
}
