// C06 — the fragmenting writer emits one well-formed message per flush and loses no byte.
package main

import (
	"bytes"
	"fmt"
	"io"
	"strings"
	"sync"

	"github.com/gobwas/ws"
	"github.com/gobwas/ws/wsflate"
	"github.com/gobwas/ws/wsutil"

	"verifharness/mon"
	"verifharness/ref"
	"verifharness/wops"
	"verifharness/xport"
)

// Config is a writer configuration.
type Config struct {
	Ctor    string
	N       int
	Side    ref.Side // side of the WRITER
	NoFlush bool
	Ext     int // 0 none, 1 func setting RSV2 on first frame, 2 wsflate.MessageState(compressed), 3 / 4 both of them (either order), each owning its own bit
	Op      byte
}

func (c Config) String() string {
	return fmt.Sprintf("%s(%d) side=%d noflush=%v ext=%d op=%x", c.Ctor, c.N, c.Side, c.NoFlush, c.Ext, c.Op)
}

func writerState(side ref.Side) ws.State {
	switch side {
	case ref.SideServer:
		return ws.StateServerSide
	case ref.SideClient:
		return ws.StateClientSide
	}
	return 0
}

// configure attaches the extensions and the flush mode of cfg to w and
// returns the reserved bits the frames of a message must then carry.
func configure(w *wsutil.Writer, cfg Config) func(bool) byte {
	var rsv func(bool) byte
	switch cfg.Ext {
	case 1:
		w.SetExtensions(wsutil.SendExtensionFunc(func(h ws.Header) (ws.Header, error) {
			if h.OpCode != ws.OpContinuation {
				h.Rsv |= ws.Rsv(false, true, false)
			}
			return h, nil
		}))
		rsv = func(first bool) byte {
			if first {
				return 2
			}
			return 0
		}
	case 2:
		ms := &wsflate.MessageState{}
		ms.SetCompressed(true)
		if cfg.N%2 == 1 {
			// SetExtensions SETS the list: a first attempt with something else, replaced by the real list
			w.SetExtensions(wsutil.SendExtensionFunc(func(h ws.Header) (ws.Header, error) { h.Rsv |= 1; return h, nil }), ms)
		}
		w.SetExtensions(ms)
		rsv = func(first bool) byte {
			if first && !ref.IsControl(cfg.Op) {
				return 4
			}
			return 0
		}
	case 3, 4:
		// two negotiated extensions, each owning ONE reserved bit and leaving the others as it found them: a frame
		// carries what ALL of them set, in whichever order they were given
		rsv2 := wsutil.SendExtensionFunc(func(h ws.Header) (ws.Header, error) {
			if h.OpCode != ws.OpContinuation {
				h.Rsv |= ws.Rsv(false, true, false)
			}
			return h, nil
		})
		ms := &wsflate.MessageState{}
		ms.SetCompressed(true)
		if cfg.Ext == 3 {
			w.SetExtensions(rsv2, ms)
		} else {
			w.SetExtensions(ms, rsv2)
		}
		rsv = func(first bool) byte {
			var b byte
			if first {
				b |= 2
				if !ref.IsControl(cfg.Op) {
					b |= 4
				}
			}
			return b
		}
	}
	if cfg.NoFlush {
		w.DisableFlush()
		if cfg.N%2 == 0 {
			w.DisableFlush() // idempotent
		}
	}
	return rsv
}

// stateOf is the state value handed to the writer for cfg: the writer only
// cares about the side bit; on a connection with a negotiated extension the
// state also carries StateExtended (and the caller may pass StateFragmented
// along); neither may change anything.
func stateOf(cfg Config) ws.State {
	return writerState(cfg.Side) | []ws.State{0, ws.StateExtended, ws.StateFragmented, ws.StateExtended | ws.StateFragmented}[(cfg.N+int(cfg.Op)+cfg.Ext)%4]
}

// reset re-targets w with Writer.Reset to a new destination, side and opcode
// (whatever it was doing before: the application reuses one writer for many
// connections) and configures it as cfg says. ok=false when the buffer is
// legitimately too small for the new side's header.
func reset(w *wsutil.Writer, cfg Config, dst *xport.Rec) (model *wops.Model, ok bool) {
	defer func() {
		if p := recover(); p != nil {
			if s, isStr := p.(string); isStr && strings.Contains(s, "too small") {
				ok = false
				return
			}
			panic(p)
		}
	}()
	w.Reset(dest(cfg, dst), stateOf(cfg), ws.OpCode(cfg.Op))
	rsv := configure(w, cfg)
	return wops.NewModel(dst, cfg.Side == ref.SideClient, cfg.Op, cfg.NoFlush, rsv), true
}

// dest picks the kind of destination for a configuration.
func dest(cfg Config, rec *xport.Rec) io.Writer {
	if (cfg.N+int(cfg.Side)+cfg.Ext)%3 == 1 {
		return xport.RichDst{Rec: rec}
	}
	return rec
}

// guards: per writer built on a caller-supplied buffer, a function that looks at the memory behind that buffer.
var guards sync.Map

// build constructs the writer; ok=false when the constructor legitimately
// panics for this size ("buffer is too small").
func build(cfg Config, dst *xport.Rec) (w *wsutil.Writer, model *wops.Model, ok bool) {
	st := stateOf(cfg)
	op := ws.OpCode(cfg.Op)
	defer func() {
		if p := recover(); p != nil {
			if s, isStr := p.(string); isStr && strings.Contains(s, "too small") {
				ok = false
				return
			}
			panic(p)
		}
	}()
	switch cfg.Ctor {
	case "NewWriter":
		w = wsutil.NewWriter(dest(cfg, dst), st, op)
	case "NewWriterSize":
		w = wsutil.NewWriterSize(dest(cfg, dst), st, op, cfg.N)
	case "NewWriterBufferSize":
		w = wsutil.NewWriterBufferSize(dest(cfg, dst), st, op, cfg.N)
	case "NewWriterBuffer":
		// the caller's buffer is a slice of something larger (an arena shared with other writers): what lies
		// beyond len(buf) is not the writer's
		arena := make([]byte, cfg.N+96)
		for i := cfg.N; i < len(arena); i++ {
			arena[i] = 0xCA
		}
		w = wsutil.NewWriterBuffer(dest(cfg, dst), st, op, arena[:cfg.N])
		guards.Store(w, func() int {
			for i := cfg.N; i < len(arena); i++ {
				if arena[i] != 0xCA {
					return i - cfg.N
				}
			}
			return -1
		})
	case "GetWriter":
		w = wsutil.GetWriter(dest(cfg, dst), st, op, cfg.N)
	}
	rsv := configure(w, cfg)
	return w, wops.NewModel(dst, cfg.Side == ref.SideClient, cfg.Op, cfg.NoFlush, rsv), true
}

// runSeq applies ops and checks the model after every call.
func runSeq(c *mon.C, cfg Config, ops []wops.Op, sub string, later ...stage) bool {
	dst := xport.NewRec()
	w, model, ok := build(cfg, dst)
	if !ok {
		return true
	}
	if !runOps(c, w, model, cfg, ops, nil) {
		return false
	}
	var hist []string
	for _, st := range later {
		// the same writer, re-targeted: nothing of what it did before may show
		hist = append(hist, fmt.Sprintf("<%d ops as %s>, Reset", len(ops), cfg))
		cfg.Side, cfg.Op, cfg.NoFlush, cfg.Ext = st.cfg.Side, st.cfg.Op, st.cfg.NoFlush, st.cfg.Ext
		dst = xport.NewRec()
		if model, ok = reset(w, cfg, dst); !ok {
			return true
		}
		ops = st.ops
		if !runOps(c, w, model, cfg, ops, hist) {
			return false
		}
	}
	guards.Delete(w)
	if cfg.Ctor == "GetWriter" {
		wsutil.PutWriter(w)
	}
	return true
}

// stage is a later life of one writer: Reset to cfg's side/opcode/options, then ops.
type stage struct {
	cfg Config
	ops []wops.Op
}

func runOps(c *mon.C, w *wsutil.Writer, model *wops.Model, cfg Config, ops []wops.Op, hist []string) bool {
	feed := &wops.Feed{Rec: model.Rec}
	trace := append([]string(nil), hist...)
	for i, op := range ops {
		c.Count(1)
		bb, sb := model.Before(w)
		c.Logf("op %d: %s (buffered=%d avail=%d size=%d) cfg=%s", i, op, w.Buffered(), w.Available(), w.Size(), cfg)
		res := wops.Apply(w, op, feed, c.Rng.Int63())
		trace = append(trace, fmt.Sprintf("%s[k=%d] -> n=%d err=%v buffered=%d avail=%d size=%d", res.Op, res.K, res.N, res.Err, res.Buffered, res.Avail, res.Size))
		if g, ok := guards.Load(w); ok {
			if at := g.(func() int)(); at >= 0 {
				c.Fail("caller-buffer/overrun", fmt.Sprintf("the writer wrote %d byte(s) past the END of the buffer the caller gave it (into the caller's neighbouring memory)", at+1), map[string]interface{}{"config": cfg.String(), "ops": append(trace, res.Op), "failed_at_op": i})
				return false
			}
		}
		if viol := model.After(op, res, bb, sb); viol != nil {
			c.Fail(viol.Sig, viol.What, map[string]interface{}{"config": cfg.String(), "ops": trace, "failed_at_op": i, "frames_sent": frameSummary(model.Frames)})
			return false
		}
	}
	return true
}

func frameSummary(fs []ref.Frame) []string {
	var out []string
	for i, f := range fs {
		if i > 20 {
			out = append(out, fmt.Sprintf("... %d more", len(fs)-i))
			break
		}
		out = append(out, fmt.Sprintf("op=%x fin=%v rsv=%d masked=%v len=%d", f.H.Op, f.H.Fin, f.H.Rsv, f.H.Masked, len(f.Payload)))
	}
	return out
}

var enumConfigs = []Config{
	{Ctor: "NewWriterBufferSize", N: 16, Side: ref.SideServer, Op: ref.OpText},
	{Ctor: "NewWriterSize", N: 8, Side: ref.SideClient, Op: ref.OpBinary},
	{Ctor: "NewWriterSize", N: 126, Side: ref.SideServer, Op: ref.OpBinary},
	{Ctor: "NewWriterBuffer", N: 131, Side: ref.SideClient, Op: ref.OpText},
	{Ctor: "NewWriterBufferSize", N: 16, Side: ref.SideServer, NoFlush: true, Op: ref.OpText},
	{Ctor: "NewWriterSize", N: 20, Side: ref.SideClient, Ext: 1, Op: ref.OpBinary},
	{Ctor: "NewWriterBufferSize", N: 12, Side: ref.SideNone, Ext: 2, Op: ref.OpText},
	{Ctor: "GetWriter", N: 128, Side: ref.SideClient, NoFlush: true, Op: ref.OpBinary},
	{Ctor: "NewWriterSize", N: 24, Side: ref.SideServer, Ext: 3, Op: ref.OpBinary},
	{Ctor: "NewWriterBufferSize", N: 10, Side: ref.SideClient, Ext: 4, Op: ref.OpText},
}

func subEnum() mon.Sub {
	alpha := wops.Alphabet()
	depth := func(t string) int {
		if t == "thorough" {
			return 4
		}
		return 3
	}
	pow := func(b, e int) int {
		r := 1
		for ; e > 0; e-- {
			r *= b
		}
		return r
	}
	// each case = one (config, first op, second op) prefix; the remaining
	// positions are enumerated inside the case.
	return mon.Sub{
		Name: "enum", Exhaustive: true, Required: true,
		N: func(t string) int { return len(enumConfigs) * len(alpha) * len(alpha) },
		Do: func(c *mon.C) {
			na := len(alpha)
			cfg := enumConfigs[c.I/(na*na)]
			a, b := alpha[c.I/na%na], alpha[c.I%na]
			rest := depth(c.Tier) - 2
			n := pow(na, rest)
			for k := 0; k < n; k++ {
				ops := []wops.Op{a, b}
				x := k
				for j := 0; j < rest; j++ {
					ops = append(ops, alpha[x%na])
					x /= na
				}
				// always finish with a final flush so that every sequence closes its message
				ops = append(ops, wops.Op{Kind: wops.Flush})
				if !runSeq(c, cfg, ops, "enum") {
					return
				}
			}
			c.Classf("%s|%s|%s", cfg.String(), a, b)
			if c.WantSample() {
				c.Sample(map[string]interface{}{"config": cfg.String(), "first_ops": []string{a.String(), b.String()}, "sequences_enumerated": n, "alphabet": len(alpha)})
			}
		},
	}
}

var ctorNames = []string{"NewWriter", "NewWriterSize", "NewWriterBufferSize", "NewWriterBuffer", "GetWriter"}
var sizeList = []int{3, 4, 7, 8, 16, 125, 126, 127, 129, 131, 132, 135, 65537, 65539, 65541, 65543, 65545, 65549, 70000}

func randConfig(c *mon.C) Config {
	cfg := Config{Ctor: ctorNames[c.Rng.Intn(len(ctorNames))], N: sizeList[c.Rng.Intn(len(sizeList))], Side: ref.Side(c.Rng.Intn(3)),
		NoFlush: c.Rng.Intn(5) == 0, Ext: []int{0, 0, 1, 2, 3, 4}[c.Rng.Intn(6)], Op: []byte{ref.OpText, ref.OpBinary}[c.Rng.Intn(2)]}
	if c.Rng.Intn(3) != 0 && cfg.N > 60000 {
		cfg.N = sizeList[c.Rng.Intn(12)]
	}
	return cfg
}

func subRandom() mon.Sub {
	alpha := wops.Alphabet()
	return mon.Sub{
		Name: "random", Required: true,
		N: func(t string) int {
			if t == "thorough" {
				return 150000
			}
			return 6000
		},
		Do: func(c *mon.C) {
			cfg := randConfig(c)
			n := 1 + c.Rng.Intn(60)
			if cfg.N > 60000 {
				n = 1 + c.Rng.Intn(12)
			}
			ops := make([]wops.Op, 0, n+1)
			for i := 0; i < n; i++ {
				op := alpha[c.Rng.Intn(len(alpha))]
				if c.Rng.Intn(4) == 0 {
					op = wops.Op{Kind: []int{wops.Write, wops.ReadFrom, wops.WriteThrough, wops.Grow}[c.Rng.Intn(4)], Sel: -1, K: c.Rng.Intn(300)}
				}
				if c.Rng.Intn(6) == 0 {
					op = wops.Op{Kind: wops.Flush}
				}
				if c.Rng.Intn(8) == 0 {
					// bring the buffered byte count exactly onto a header-reservation threshold
					op = wops.Op{Kind: []int{wops.Write, wops.ReadFrom, wops.Grow}[c.Rng.Intn(3)], Sel: 8 + c.Rng.Intn(wops.NSelAll-8)}
					if cfg.N < 60000 && op.Sel >= 12 && c.Rng.Intn(4) != 0 {
						op.Sel = 8 + c.Rng.Intn(4)
					}
				}
				ops = append(ops, op)
			}
			ops = append(ops, wops.Op{Kind: wops.Flush})
			var later []stage
			if c.Rng.Intn(3) == 0 {
				// the writer lives on: Reset to another side / opcode / option set, possibly in
				// the middle of a message, and a few more operations
				if c.Rng.Intn(2) == 0 {
					ops = ops[:len(ops)-1]
				}
				for k := 1 + c.Rng.Intn(2); k > 0; k-- {
					st := stage{cfg: randConfig(c)}
					for j := 1 + c.Rng.Intn(6); j > 0; j-- {
						st.ops = append(st.ops, alpha[c.Rng.Intn(len(alpha))])
					}
					st.ops = append(st.ops, wops.Op{Kind: wops.Flush})
					later = append(later, st)
				}
			}
			if runSeq(c, cfg, ops, "random", later...) {
				kinds := map[int]bool{}
				for _, o := range ops {
					kinds[o.Kind] = true
				}
				c.Classf("%s|n=%d|kinds=%d", cfg.String(), n/10, len(kinds))
				if c.WantSample() {
					var s []string
					for _, o := range ops {
						s = append(s, o.String())
					}
					c.Sample(map[string]interface{}{"config": cfg.String(), "ops": s})
				}
			}
		},
	}
}

// subRefusing: "the concatenated unmasked payloads equal the bytes the writer reported as accepted" - also when the
// destination REFUSES one of the writes (zero bytes taken, an error returned) and accepts everything before and
// after it: either some call of the history reports an error (what it owes from then on is C16's business), or
// every call reported success and then nothing may be missing. A refused write that no call ever mentions is a hole
// in the stream the application believes it has sent.
func subRefusing() mon.Sub {
	alpha := wops.Alphabet()
	return mon.Sub{
		Name: "refusing-destination", Required: true,
		N: func(t string) int {
			if t == "thorough" {
				return 40000
			}
			return 1500
		},
		Do: func(c *mon.C) {
			cfg := randConfig(c)
			if cfg.N > 60000 {
				cfg.N = 64
			}
			n := 2 + c.Rng.Intn(10)
			ops := make([]wops.Op, 0, n+1)
			for i := 0; i < n; i++ {
				op := alpha[c.Rng.Intn(len(alpha))]
				if op.Kind == wops.ReadFromErr || op.Kind == wops.ReadFromStall {
					op = wops.Op{Kind: wops.Write, Sel: op.Sel, K: op.K}
				}
				ops = append(ops, op)
			}
			ops = append(ops, wops.Op{Kind: wops.Flush})
			run := func(failAt int, fk error) (rec *xport.Rec, accepted int, sawErr bool, trace []string, built bool) {
				rec = xport.NewRec()
				rec.FailAt, rec.ShortN, rec.Err = failAt, 0, fk
				w, _, ok := build(cfg, rec)
				if !ok {
					return rec, 0, false, nil, false
				}
				feed := &wops.Feed{}
				for _, op := range ops {
					r := wops.Apply(w, op, feed, 11)
					trace = append(trace, fmt.Sprintf("%s[k=%d] -> n=%d err=%v", r.Op, r.K, r.N, r.Err))
					if r.Err != nil && r.Err != wsutil.ErrNotEmpty {
						sawErr = true
					}
				}
				return rec, feed.Pos, sawErr, trace, true
			}
			healthy, _, _, _, ok := run(-1, nil)
			if !ok || len(healthy.Calls) == 0 {
				return
			}
			c.Count(1)
			j := c.Rng.Intn(len(healthy.Calls))
			fk := xport.FaultKinds[c.Rng.Intn(len(xport.FaultKinds))]
			rec, accepted, sawErr, trace, _ := run(j, fk.Err)
			if len(rec.Calls) <= j {
				return // the failing call was not reached (sizes depend on the live buffer)
			}
			det := map[string]interface{}{"config": cfg.String(), "ops": trace, "refused_destination_call": j, "error_kind": fk.Name, "destination_calls": len(rec.Calls), "bytes_reported_accepted": accepted}
			if sawErr {
				c.Classf("refused|reported|%s", fk.Name)
				return
			}
			// no call mentioned the refusal: then the destination holds exactly the accepted bytes, as whole frames
			frames, consumed, bad := ref.ParseFrames(rec.Bytes())
			var got []byte
			for _, f := range frames {
				got = append(got, f.Payload...)
			}
			want := (&wops.Feed{}).Next(accepted)
			if bad != "" || consumed != len(rec.Bytes()) || !bytes.Equal(got, want) {
				det["destination_payload_bytes"] = len(got)
				c.Fail("refused-write/swallowed", fmt.Sprintf("destination call %d was refused (%s) but every Write / ReadFrom / WriteThrough / Flush reported success: %d bytes were reported as accepted, the destination holds %d payload bytes", j, fk.Name, accepted, len(got)), det)
				return
			}
			c.Classf("refused|harmless|%s", fk.Name)
		},
	}
}

// control opcodes and the ControlWriter-sized buffer: the writer itself must
// still frame correctly (limits are C08's business).
func subOpcodes() mon.Sub {
	return mon.Sub{
		Name: "opcodes", Required: true,
		N: func(string) int { return 6 * 3 * 4 },
		Do: func(c *mon.C) {
			op := []byte{ref.OpText, ref.OpBinary, ref.OpPing, ref.OpPong, ref.OpClose, ref.OpCont}[c.I%6]
			side := ref.Side(c.I / 6 % 3)
			ext := c.I / 18
			cfg := Config{Ctor: "NewWriterSize", N: 125, Side: side, Op: op, Ext: []int{0, 1, 2, 0}[ext], NoFlush: ext == 3}
			if op == ref.OpCont && cfg.Ext != 0 {
				return // a writer configured with the continuation opcode gives the extension no "first frame"
			}
			ops := []wops.Op{{Kind: wops.Write, Sel: -1, K: 10}, {Kind: wops.Flush}, {Kind: wops.Flush}, {Kind: wops.Write, Sel: 3}, {Kind: wops.Write, Sel: -1, K: 1}, {Kind: wops.Flush}}
			if runSeq(c, cfg, ops, "opcodes") {
				c.Classf("%s", cfg.String())
			}
		},
	}
}

// subLongMessage: one message cut into several hundred frames (and, in two
// cases of the thorough tier, more than 2^16): whatever counts the fragments
// of a message must not run over.
func subLongMessage() mon.Sub {
	return mon.Sub{
		Name: "long-message", Required: true,
		N: func(t string) int {
			if t == "thorough" {
				return 66
			}
			return 16
		},
		Do: func(c *mon.C) {
			cfg := Config{Ctor: []string{"NewWriterSize", "NewWriterBufferSize", "GetWriter"}[c.I%3], N: []int{8, 16, 20, 128}[c.I/3%4], Side: ref.Side(c.I % 3), Ext: c.I / 2 % 3, Op: []byte{ref.OpText, ref.OpBinary}[c.I%2]}
			frames := 260 + c.Rng.Intn(600)
			if c.I >= 64 {
				frames = 65536 + 300
			}
			var ops []wops.Op
			for i := 0; i < frames; i++ {
				switch c.Rng.Intn(3) {
				case 0:
					ops = append(ops, wops.Op{Kind: wops.WriteThrough, Sel: -1, K: 1 + c.Rng.Intn(3)})
				case 1:
					ops = append(ops, wops.Op{Kind: wops.Write, Sel: -1, K: 1 + c.Rng.Intn(3)}, wops.Op{Kind: wops.FlushFragment})
				default:
					ops = append(ops, wops.Op{Kind: wops.ReadFrom, Sel: -1, K: 1 + c.Rng.Intn(3)}, wops.Op{Kind: wops.FlushFragment})
				}
			}
			ops = append(ops, wops.Op{Kind: wops.Write, Sel: 1}, wops.Op{Kind: wops.Flush}, wops.Op{Kind: wops.Write, Sel: 1}, wops.Op{Kind: wops.Flush})
			if runSeq(c, cfg, ops, "long-message") {
				c.Classf("%s|frames>=%d", cfg.String(), frames/256*256)
				c.Sample(map[string]interface{}{"config": cfg.String(), "frames_in_first_message": frames})
			}
		},
	}
}

func main() {
	mon.Main(&mon.Spec{
		Property: "C06",
		Level:    "exploration",
		Rule: "cases: every sequence of depth 3 (quick) / 4 (thorough) over a 30-op alphabet {Write,ReadFrom,WriteThrough} x sizes {0,1,avail-1,avail,avail+1,size,size+1,2size+3} resolved against the live buffer, Grow x 4, FlushFragment, Flush (+ a closing Flush) for 8 configurations (tiny/125/126-boundary buffers, both sides and zero state, DisableFlush, RSV2 extension, wsflate.MessageState, pooled GetWriter); " +
			"then random sequences of up to 60 ops over all 5 constructors x sizes around the 125/126 and 65535/65536 reservation thresholds, a third of them continued through one or two Writer.Reset calls (new destination, any side, opcode, extension and flush mode; also from the middle of a message) with the model restarted as for a new writer. After EVERY call the recording destination is re-parsed by the reference parser and the contract model is checked (whole frames at call boundary, opcode/fin/rsv/mask per frame, plaintext == position-tagged accepted bytes, clean flush emits nothing, fits => one frame, DisableFlush => nothing before Flush and one frame). Plus long messages: one message cut into 260-860 frames (65836 in two cases of the thorough tier) by WriteThrough / Write+FlushFragment / ReadFrom+FlushFragment on small buffers, then a second message. Plus the one-call helpers WriteMessage / Write{Client,Server}{Message,Text,Binary} x 24 sizes x 3 rounds: exactly one final frame of the given opcode, masked iff client-side, payload == the caller's bytes, caller's slice intact. Built against the poisoning pool shim (a buffer returned to the byte pool is overwritten at once), so a frame that refers to a buffer it already gave back shows the pattern on the wire. evaluations = API calls checked; distinct = (config, first two ops) / (config, length decile, op kinds).",
		Assumptions: []string{"reference frame parser ref.ParseFrames", "fragment boundaries are left to the implementation except in the three clauses the statement fixes", "payload bytes are a position-tagged stream so loss/duplication/reordering is visible"},
		Subs:        []mon.Sub{subEnum(), subRandom(), subOpcodes(), subWriteMessage(), subLongMessage(), subRefusing()},
	})
}
