//go:build shim

package main

import "github.com/gobwas/pool"

// Built against the instrumented pool (bin/check does): a buffer handed back to
// the byte pool is overwritten with a pattern at once, and reused last-in
// first-out. A frame that still refers to a buffer it has already returned
// then carries the pattern instead of the caller's bytes.
func init() { pool.Configure(true, pool.ReuseLIFO, false, false) }
