package main

import (
	"bytes"
	"fmt"

	"github.com/gobwas/ws"
	"github.com/gobwas/ws/wsutil"

	"verifharness/mon"
	"verifharness/ref"
	"verifharness/xport"
)

// subWriteMessage: the one-call helpers (WriteMessage and its Client/Server
// Text/Binary variants) are the degenerate writer: exactly one final frame with
// the given opcode, masked with a correctly applied key iff sent by a client,
// carrying exactly the caller's bytes, handed over before the call returns; the
// caller's slice is left alone.
func subWriteMessage() mon.Sub {
	sizes := []int{0, 1, 2, 63, 64, 65, 124, 125, 126, 127, 128, 129, 255, 256, 257, 1000, 4095, 4096, 4097, 65535, 65536, 65537, 70001, 131072}
	apis := []string{"WriteMessage/server", "WriteMessage/client", "WriteMessage/zero", "WriteServerMessage", "WriteClientMessage", "WriteServerText", "WriteServerBinary", "WriteClientText", "WriteClientBinary"}
	return mon.Sub{
		Name: "write-message", Exhaustive: true, Required: true,
		N: func(string) int { return len(sizes) * len(apis) },
		Do: func(c *mon.C) {
			n := sizes[c.I%len(sizes)]
			api := apis[c.I/len(sizes)]
			// two messages in a row through the same helper, a third one through another helper in between:
			// whatever the helpers keep or recycle between calls must not show on the wire
			for round := 0; round < 3; round++ {
				c.Count(1)
				p := make([]byte, n)
				for i := range p {
					p[i] = byte(i*7 + round*31 + n)
				}
				keep := append([]byte(nil), p...)
				op := []byte{ref.OpText, ref.OpBinary, ref.OpPing}[(c.I+round)%3]
				if n > 125 && op == ref.OpPing {
					op = ref.OpBinary
				}
				rec := xport.NewRec()
				var err error
				wantOp, client := op, false
				switch api {
				case "WriteMessage/server":
					err = wsutil.WriteMessage(rec, ws.StateServerSide, ws.OpCode(op), p)
				case "WriteMessage/client":
					err, client = wsutil.WriteMessage(rec, ws.StateClientSide|ws.StateExtended, ws.OpCode(op), p), true
				case "WriteMessage/zero":
					err = wsutil.WriteMessage(rec, 0, ws.OpCode(op), p)
				case "WriteServerMessage":
					err = wsutil.WriteServerMessage(rec, ws.OpCode(op), p)
				case "WriteClientMessage":
					err, client = wsutil.WriteClientMessage(rec, ws.OpCode(op), p), true
				case "WriteServerText":
					err, wantOp = wsutil.WriteServerText(rec, p), ref.OpText
				case "WriteServerBinary":
					err, wantOp = wsutil.WriteServerBinary(rec, p), ref.OpBinary
				case "WriteClientText":
					err, wantOp, client = wsutil.WriteClientText(rec, p), ref.OpText, true
				case "WriteClientBinary":
					err, wantOp, client = wsutil.WriteClientBinary(rec, p), ref.OpBinary, true
				}
				det := map[string]interface{}{"api": api, "size": n, "opcode": wantOp, "round": round, "destination_calls": len(rec.Calls)}
				if err != nil {
					c.Fail("helper/error/"+api, "unexpected error: "+err.Error(), det)
					return
				}
				if !bytes.Equal(p, keep) {
					c.Fail("helper/mutates-caller/"+api, "the caller's slice was modified", det)
					return
				}
				frames, consumed, bad := ref.ParseFrames(rec.Bytes())
				if bad != "" || consumed != rec.Len() || len(frames) != 1 {
					c.Fail("helper/not-one-frame/"+api, fmt.Sprintf("the destination did not receive exactly one whole frame (%d frames, %d of %d bytes parsed, %s)", len(frames), consumed, rec.Len(), bad), det)
					return
				}
				f := frames[0]
				if !f.H.Fin || f.H.Op != wantOp || f.H.Rsv != 0 || f.H.Masked != client {
					c.Fail("helper/header/"+api, fmt.Sprintf("frame header fin=%v op=%x rsv=%d masked=%v, want fin op=%x rsv=0 masked=%v", f.H.Fin, f.H.Op, f.H.Rsv, f.H.Masked, wantOp, client), det)
					return
				}
				if !bytes.Equal(f.Payload, keep) {
					c.Fail("helper/payload/"+api, fmt.Sprintf("the frame's unmasked payload differs from the caller's bytes (first difference at %d of %d)", firstDiffAt(f.Payload, keep), n), det)
					return
				}
				if round == 1 {
					// something else uses the byte pool in between
					wsutil.WriteClientBinary(xport.NewRec(), bytes.Repeat([]byte{0xee}, n+1))
				}
			}
			c.Classf("%s n=%d", api, n)
			c.Sample(map[string]interface{}{"api": api, "size": n})
		},
	}
}

func firstDiffAt(a, b []byte) int {
	for i := 0; i < len(a) && i < len(b); i++ {
		if a[i] != b[i] {
			return i
		}
	}
	if len(a) != len(b) {
		if len(a) < len(b) {
			return len(a)
		}
		return len(b)
	}
	return -1
}
