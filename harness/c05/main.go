// C05 — the message reader rejects a protocol violation at the first offending frame.
package main

import (
	"bytes"
	"fmt"
	"io"
	"strings"
	"sync"

	"github.com/gobwas/ws"
	"github.com/gobwas/ws/wsutil"

	"verifharness/drive"
	"verifharness/gen"
	"verifharness/mon"
	"verifharness/ref"
	"verifharness/xport"
)

var (
	enumOnce sync.Once
	enumQ    [][]gen.Shape
	enumT    [][]gen.Shape
)

func prefixes(tier string) [][]gen.Shape {
	enumOnce.Do(func() {
		enumQ = append([][]gen.Shape{nil}, gen.EnumShapes(2, []int{0, 3}, []int{0, 2}, false)...)
		enumT = append([][]gen.Shape{nil}, gen.EnumShapes(4, []int{0, 3}, []int{2}, false)...)
	})
	if tier == "thorough" {
		return enumT
	}
	return enumQ
}

// bad describes an offending frame.
type bad struct {
	name string
	h    ref.Header // Length is the ANNOUNCED length
	body int        // payload bytes actually supplied
}

// invalidations lists every offending frame of the alphabet for a state.
func invalidations(side ref.Side, ext, frag bool) []bad {
	var out []bad
	base := func() ref.Header {
		h := ref.Header{Fin: true, Op: ref.OpText, Length: 5}
		if frag {
			h.Op = ref.OpCont
		}
		return h
	}
	for _, op := range []byte{3, 4, 5, 6, 7, 11, 12, 13, 14, 15} {
		h := base()
		h.Op = op
		out = append(out, bad{fmt.Sprintf("reserved-op-%x", op), h, 5})
	}
	for _, l := range []int64{126, 65536} {
		for _, op := range []byte{ref.OpPing, ref.OpPong, ref.OpClose} {
			h := base()
			h.Op, h.Length = op, l
			out = append(out, bad{fmt.Sprintf("control-%x-len%d", op, l), h, 126})
		}
	}
	for _, op := range []byte{ref.OpPing, ref.OpPong, ref.OpClose} {
		h := base()
		h.Op, h.Fin, h.Length = op, false, 2
		out = append(out, bad{fmt.Sprintf("control-%x-notfinal", op), h, 2})
	}
	if !ext {
		for rsv := byte(1); rsv < 8; rsv++ {
			h := base()
			h.Rsv = rsv
			out = append(out, bad{fmt.Sprintf("rsv%d", rsv), h, 5})
			h.Op, h.Length = ref.OpPing, 2
			out = append(out, bad{fmt.Sprintf("rsv%d-ping", rsv), h, 2})
		}
	}
	{
		// a 64-bit payload length with its most significant bit set (RFC 6455 5.2: "the most significant bit MUST
		// be 0"); the bit is set in the encoded header
		h := base()
		h.Length = 70000
		out = append(out, bad{"length-msb", h, 5})
	}
	if side != ref.SideNone {
		h := base()
		out = append(out, bad{"wrong-mask", h, 5}) // the mask bit is flipped when encoding
		h.Op, h.Length = ref.OpPing, 0
		out = append(out, bad{"wrong-mask-ping", h, 0})
	}
	if frag {
		for _, op := range []byte{ref.OpText, ref.OpBinary} {
			for _, fin := range []bool{true, false} {
				h := base()
				h.Op, h.Fin = op, fin
				out = append(out, bad{fmt.Sprintf("data-%x-fin%v-while-fragmented", op, fin), h, 5})
			}
		}
	} else {
		for _, fin := range []bool{true, false} {
			h := base()
			h.Op, h.Fin = ref.OpCont, fin
			out = append(out, bad{fmt.Sprintf("stray-continuation-fin%v", fin), h, 5})
		}
	}
	return out
}

// withRsv: on an extended connection reserved bits are legal, so every offending frame of the alphabet also comes
// carrying some - the frame an extension would have looked at still breaks its other rule.
func withRsv(inv []bad, ext bool) []bad {
	if !ext {
		return inv
	}
	n := len(inv)
	for i := 0; i < n; i++ {
		b := inv[i]
		b.h.Rsv = []byte{4, 2, 1, 7, 5, 6, 3}[i%7]
		b.name += fmt.Sprintf("+rsv%d", b.h.Rsv)
		inv = append(inv, b)
	}
	return inv
}

var runEntries = []string{"reader", "reader-nohandler", "reader-ctlhandler", "readmessage", "readdata", "reader-discard", "readtext", "readbinary"}

func isProtocolErr(err error) bool {
	_, ok := err.(ws.ProtocolError)
	return ok
}

// runOne runs prefix ++ offending frame ++ tail through one entry point.
func runOne(c *mon.C, shapes []gen.Shape, side ref.Side, ext bool, b bad, withTail bool, maxFrame int64, wantTooLarge bool) bool {
	pframes := gen.Build(shapes, side, c.Rng, true)
	if ext {
		for i := range pframes {
			if !ref.IsControl(pframes[i].H.Op) {
				pframes[i].H.Rsv = byte(c.Rng.Intn(8))
			}
		}
	}
	_, frag := ref.Reassemble(pframes)
	// every other run with an open message: a CLOSE frame sits between the open message's fragments and the offending
	// frame (a control frame may be injected in the middle of a fragmented message; what follows it is still judged
	// by the framing rules). Only through the raw reader with a recording / without a handler: the built-in control
	// handlers end the session at the close, which is their business (C08).
	closeBefore := frag && !wantTooLarge && (c.I+len(b.name)+len(shapes))%2 == 0
	if closeBefore {
		cf := ref.Frame{H: ref.Header{Fin: true, Op: ref.OpClose, Masked: side == ref.SideServer}, Payload: [][]byte{nil, {0x03, 0xe9}, {0x03, 0xe8, 'b', 'y', 'e'}}[c.I%3]}
		if side == ref.SideNone {
			cf.H.Masked = c.Rng.Intn(2) == 0
		}
		if cf.H.Masked {
			c.Rng.Read(cf.H.Mask[:])
		}
		pframes = append(pframes, cf)
	}
	pstream, _, marks := gen.Encode(pframes)

	// encode the offending frame
	fh := b.h
	fh.Masked = side == ref.SideServer
	if strings.HasPrefix(b.name, "wrong-mask") {
		fh.Masked = !fh.Masked
	}
	if side == ref.SideNone {
		fh.Masked = c.Rng.Intn(2) == 0
	}
	if fh.Masked {
		c.Rng.Read(fh.Mask[:])
	}
	if !wantTooLarge && !strings.HasPrefix(b.name, "length-msb") {
		if br := ref.BrokenRules(fh, side, ext, frag); len(br) == 0 {
			c.Inconclusive("generator produced a frame that breaks no rule: " + b.name)
			return true
		}
	}
	fbytes := ref.EncodeHeader(fh)
	if strings.HasPrefix(b.name, "length-msb") {
		fbytes[2] |= 0x80
	}
	hdrEnd := len(pstream) + len(fbytes)
	body := bytes.Repeat([]byte{0xF7}, b.body)
	fbytes = append(fbytes, body...)
	var tail []byte
	if withTail {
		tf := gen.Build([]gen.Shape{{Op: ref.OpBinary, Fin: true, Len: 9}}, side, c.Rng, true)
		for i := range tf[0].Payload {
			tf[0].Payload[i] = 0xE1
		}
		tail = tf[0].Encode()
	}
	stream := append(append(append([]byte(nil), pstream...), fbytes...), tail...)
	for k := 1; k < len(ref.EncodeHeader(fh)); k++ {
		marks = append(marks, len(pstream)+k)
	}

	// what the open message has delivered so far (its fragments inside P)
	var openData []byte
	if frag {
		for i := len(pframes) - 1; i >= 0; i-- {
			if !ref.IsControl(pframes[i].H.Op) && pframes[i].H.Op != ref.OpCont {
				for _, f := range pframes[i:] {
					if !ref.IsControl(f.H.Op) {
						openData = append(openData, f.Payload...)
					}
				}
				break
			}
		}
	}

	entries := runEntries
	if maxFrame > 0 {
		// (the size limit is a resource bound of its own: it holds with the RFC header checks switched off too)
		entries = []string{"reader", "reader-skipcheck"}
	}
	if closeBefore {
		entries = []string{"reader", "reader-nohandler"}
	}
	if maxFrame == 0 && !closeBefore {
		// a deadline-driven read loop: the read that would deliver the first byte of the offending frame times out
		// once (nothing consumed), the consumer calls again
		entries = append(append([]string(nil), entries...), "reader-retry")
	}
	if ext {
		// "plain or extended": an extended reader is one that has negotiated extensions, and those see every
		// header (after the RFC check) before the frame is delivered
		entries = append(append([]string(nil), entries...), "reader-extensions")
	}
	ps := xport.Plans(c.Rng.Int63(), marks)
	for ei, entry := range entries {
		o := drive.Opts{Entry: entry, Side: side, Extended: ext, MaxFrameSize: maxFrame}
		if entry == "reader-skipcheck" {
			o.Entry, o.SkipCheck = "reader", true
		}
		if entry == "reader-extensions" {
			o.Entry = "reader"
			clearRsv1 := wsutil.RecvExtensionFunc(func(h ws.Header) (ws.Header, error) {
				r1, r2, r3 := ws.RsvBits(h.Rsv)
				_ = r1
				h.Rsv = ws.Rsv(false, r2, r3)
				return h, nil
			})
			same := wsutil.RecvExtensionFunc(func(h ws.Header) (ws.Header, error) { return h, nil })
			o.Extensions = [][]wsutil.RecvExtension{{same}, {clearRsv1}, {same, clearRsv1}}[c.I%3]
		}
		if entry == "reader-ctlhandler" {
			o.Entry, o.Intermediate, o.CheckUTF8 = "reader", 3, true
		}
		if entry == "reader-retry" {
			o.Entry, o.Retry = "reader", true
		}
		if entry == "reader-nohandler" {
			o.Entry, o.Intermediate = "reader", 2 // no OnIntermediate handler at all: the Reader drains control frames itself
		}
		if entry == "reader-discard" {
			// every message, the open one included, is skipped with Discard
			// after reading 0 or 1 of its bytes
			o.Entry, o.Discard = "reader", map[int]int{}
			for k := 0; k <= len(shapes); k++ {
				o.Discard[k] = (k + c.I) % 2
			}
		}
		if (entry == "readtext" || entry == "readbinary") && (side == ref.SideNone || ext) {
			continue // these helpers exist for a plain client or server side only
		}
		want := drive.Expect(pframes, o) // Reassemble drops the unfinished message
		for pi := 0; pi < 3; pi++ {
			plan := ps[(c.I+ei*3+pi*5)%len(ps)]
			o.Buf = []int{1, 3, 64, 4096}[(c.I+pi+ei)%4]
			c.Count(1)
			ch := xport.NewChunker(stream, plan)
			var src io.Reader = ch
			if o.Retry {
				src = &xport.Transient{R: ch, At: len(pstream), Err: xport.ErrTimeout}
			}
			obs := drive.Run(src, o)
			det := func() map[string]interface{} {
				return map[string]interface{}{"prefix": gen.ShapesKey(shapes), "offending": b.name, "offending_header": fh.String(), "side": side, "extended": ext, "fragmented_before": frag,
					"tail": withTail, "close_frame_before_the_offending_frame": closeBefore, "entry": entry, "plan": plan.String(), "buf": o.Buf, "max_frame_size": maxFrame,
					"got": drive.EventStrings(obs.Events), "want": drive.EventStrings(want), "err": fmt.Sprint(obs.Err), "partial": fmt.Sprintf("%x", obs.Partial), "consumed": ch.Pos, "offending_header_end": hdrEnd, "written": fmt.Sprintf("%x", obs.Written)}
			}
			cls := b.name
			if wantTooLarge {
				cls = "too-large"
			}
			if d := drive.Diff(obs.Events, want, entry != "readmessage"); d != "" {
				c.Fail("events/"+entry+"/"+cls, "events before the offending frame differ from the valid-prefix run (or something after it was delivered): "+d, det())
				return false
			}
			switch {
			case obs.Err == nil:
				c.Fail("noerror/"+entry+"/"+cls, "the run ended without an error although frame k is offending", det())
				return false
			case wantTooLarge && obs.Err != wsutil.ErrFrameTooLarge:
				c.Fail("errkind/"+entry+"/too-large", fmt.Sprintf("frame larger than MaxFrameSize reported as %v, want ErrFrameTooLarge", obs.Err), det())
				return false
			case !wantTooLarge && strings.HasPrefix(b.name, "length-msb") && obs.Err == ws.ErrHeaderLengthMSB:
				// (the header decoder's own error for this one)
			case !wantTooLarge && !isProtocolErr(obs.Err):
				c.Fail("errkind/"+entry+"/"+cls, fmt.Sprintf("offending frame reported as %T %v, want a ws.ProtocolError", obs.Err, obs.Err), det())
				return false
			}
			if len(obs.Partial) > 0 && !bytes.HasPrefix(openData, obs.Partial) {
				c.Fail("leak/"+entry+"/"+cls, "bytes delivered for the open message are not a prefix of its fragments before the offending frame", det())
				return false
			}
			if (entry == "reader" || entry == "readdata") && !bytes.Equal(obs.Partial, openData) {
				// "delivers everything before that frame exactly as it would for a valid stream": the consumer of a
				// Reader has read, and ReadData hands back together with the error, the payload of the open
				// message's fragments that precede the offending frame
				c.Fail("lost-prefix/"+entry+"/"+cls, fmt.Sprintf("%d payload bytes of the open message precede the offending frame but %d were delivered with the error", len(openData), len(obs.Partial)), det())
				return false
			}
			if wantTooLarge && ch.Pos > hdrEnd {
				c.Fail("overread/too-large", fmt.Sprintf("transport delivered %d bytes, offending header ends at %d: payload was read before the size limit refused the frame", ch.Pos, hdrEnd), det())
				return false
			}
			replies, _, _ := ref.ParseFrames(obs.Written) // unmasked payloads
			leaked := false
			for _, rf := range replies {
				if bytes.Contains(rf.Payload, []byte{0xF7, 0xF7}) || bytes.Contains(rf.Payload, []byte{0xE1, 0xE1}) {
					leaked = true
				}
			}
			if leaked {
				c.Fail("leak-reply/"+entry+"/"+cls, "payload of the offending frame or of the tail shows up in a control reply", det())
				return false
			}
			c.Classf("%s|%s|%s|%s|side%d ext%v tail%v", gen.ShapeClass(shapes), cls, entry, plan.Kind, side, ext, withTail)
		}
	}
	return true
}

func subEnum() mon.Sub {
	return mon.Sub{
		Name: "enum", Exhaustive: true, Required: true,
		N: func(t string) int { return len(prefixes(t)) * 3 * 2 },
		Do: func(c *mon.C) {
			ps := prefixes(c.Tier)
			shapes := ps[c.I%len(ps)]
			side := []ref.Side{ref.SideServer, ref.SideClient, ref.SideNone}[c.I/len(ps)%3]
			ext := c.I/len(ps)/3 == 1
			frag := false
			for _, s := range shapes {
				if !ref.IsControl(s.Op) {
					frag = !s.Fin
				}
			}
			maxLen := int64(0)
			for _, s := range shapes {
				if int64(s.Len) > maxLen {
					maxLen = int64(s.Len)
				}
			}
			inv := invalidations(side, ext, frag)
			// ... and a verbatim REPEAT of a frame the reader has just accepted (same flags, opcode and length), where
			// the state that frame left behind makes its twin illegal: a second first-fragment, a second final continuation
			for k := len(shapes) - 1; k >= 0; k-- {
				if ref.IsControl(shapes[k].Op) {
					continue
				}
				h := ref.Header{Fin: shapes[k].Fin, Op: shapes[k].Op, Length: int64(shapes[k].Len)}
				probe := h
				probe.Masked = side == ref.SideServer // (runOne masks the frame as the side requires)
				if len(ref.BrokenRules(probe, side, ext, frag)) > 0 {
					inv = append(inv, bad{fmt.Sprintf("repeat-%x-fin%v-len%d", h.Op, h.Fin, h.Length), h, shapes[k].Len})
				}
				break
			}
			inv = withRsv(inv, ext)
			for _, b := range inv {
				for _, tl := range []bool{false, true} {
					if !runOne(c, shapes, side, ext, b, tl, 0, false) {
						return
					}
				}
			}
			// size limit: a frame that is otherwise valid in this state - a data frame (or continuation), and
			// control frames, which inside a fragmented message take the reader's intermediate-control path
			type lim struct {
				op byte
				l  int64
			}
			dataOp := byte(ref.OpBinary)
			if frag {
				dataOp = ref.OpCont
			}
			var lims []lim
			for _, L := range []int64{1, 125, 126, 65536, 1 << 40} {
				lims = append(lims, lim{dataOp, L})
			}
			for _, L := range []int64{2, 60, 125} {
				lims = append(lims, lim{ref.OpPing, L}, lim{ref.OpPong, L}, lim{ref.OpClose, L})
			}
			for _, lm := range lims {
				L := lm.l
				for _, m := range []int64{L - 1, 1} {
					if m <= 0 || m >= L || m < maxLen {
						continue // the limit would already refuse a frame of the prefix
					}
					h := ref.Header{Fin: true, Op: lm.op, Length: L}
					if !runOne(c, shapes, side, ext, bad{fmt.Sprintf("announce-%x-%d", lm.op, L), h, int(min(L, 32))}, c.I%2 == 0, m, true) {
						return
					}
				}
			}
			c.Sample(map[string]interface{}{"prefix": gen.ShapesKey(shapes), "side": side, "extended": ext, "offending_frames": len(inv), "tails": 2, "entries": runEntries, "size_limits": "L in {1,125,126,65536,2^40} x MaxFrameSize in {L-1,1}"})
		},
	}
}

func subRandom() mon.Sub {
	return mon.Sub{
		Name: "random-deep", Required: true,
		N: func(t string) int {
			if t == "thorough" {
				return 30000
			}
			return 800
		},
		Do: func(c *mon.C) {
			shapes := gen.RandomShapes(c.Rng, 30, []int{0, 1, 5, 125, 126, 300, 4096})
			// cut the sequence at a random point (possibly inside a message)
			shapes = shapes[:c.Rng.Intn(len(shapes)+1)]
			side := []ref.Side{ref.SideServer, ref.SideClient, ref.SideNone}[c.Rng.Intn(3)]
			ext := c.Rng.Intn(2) == 0
			frag := false
			for _, s := range shapes {
				if !ref.IsControl(s.Op) {
					frag = !s.Fin
				}
			}
			inv := withRsv(invalidations(side, ext, frag), ext)
			b := inv[c.Rng.Intn(len(inv))]
			if !runOne(c, shapes, side, ext, b, c.Rng.Intn(2) == 0, 0, false) {
				return
			}
			c.Sample(map[string]interface{}{"prefix": gen.ShapesKey(shapes), "offending": b.name, "side": side, "extended": ext})
		},
	}
}

func main() {
	mon.Main(&mon.Spec{
		Property: "C05",
		Level:    "exploration",
		Rule: "cases: every valid prefix (complete or ending inside a fragmented message) up to depth 2 (quick) / 4 (thorough) x side{server,client,zero} x extended x every offending frame of the alphabet (10 reserved opcodes; ping/pong/close with length 126 and 65536; non-final control; RSV 1..7 without extension; on an extended connection every offending frame also with reserved bits set; wrong mask bit; new data frame while fragmented; stray continuation) x tail{none, one valid message} " +
			"x entries {Reader, Reader+ControlFrameHandler, ReadMessage, ReadData, Reader skipping every message with Discard, Read{Client,Server}Text, Read{Client,Server}Binary} x 3 chunk plans; plus MaxFrameSize in {L-1,1} for announced L in {1,125,126,65536,2^40} with only the header supplied; plus random prefixes of up to 30 frames. " +
			"Oracle: events == valid-prefix run, error is ws.ProtocolError / ErrFrameTooLarge, delivered partial data is a prefix of the open message, transport not read past the refused header. distinct = (prefix shape, offending kind, entry, plan kind, side, extended, tail).",
		Assumptions: []string{"which of several broken rules is named is not constrained here (C03 does)", "ref.BrokenRules is used to confirm that the generated frame really is offending in the state built by the prefix"},
		Subs:        []mon.Sub{subEnum(), subRandom()},
	})
}
