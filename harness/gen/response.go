package gen

import (
	"crypto/sha1"
	"encoding/base64"
	"fmt"
	"math/rand"
	"strings"

	"verifharness/ref"
)

// Resp is a generated handshake response with its derivation.
type Resp struct {
	Proto    string
	Status   string // status token
	Reason   string
	EOL      string
	Headers  []Hdr
	NoStatus bool // status line has a single token

	Variant  map[string]string
	Protocol string   // subprotocol a compliant client must report ("" none)
	ExtSent  []string // extension header values sent (for comparison)
	Verdict  ref.Verdict
}

func (r *Resp) Head() []byte {
	var b strings.Builder
	b.WriteString(r.Proto)
	if !r.NoStatus {
		b.WriteByte(' ')
		b.WriteString(r.Status)
		b.WriteByte(' ')
		b.WriteString(r.Reason)
	}
	b.WriteString(r.EOL)
	for _, h := range r.Headers {
		if h.Raw != "" {
			b.WriteString(h.Raw)
		} else {
			b.WriteString(h.Name + ":" + h.Value)
		}
		b.WriteString(r.EOL)
	}
	b.WriteString(r.EOL)
	return []byte(b.String())
}

func (r *Resp) Describe() map[string]interface{} {
	return map[string]interface{}{"variants": r.Variant, "verdict": r.Verdict.ClassName(), "why": r.Verdict.Why, "text": string(r.Head())}
}

var RespFactors = []string{"proto", "status", "reason", "upgrade", "connection", "accept", "protocol", "extensions", "extra", "eol"}

var RespVariants = map[string][]string{
	"proto":      {"HTTP/1.1", "HTTP/1.0", "HTTP/1.2", "HTTP/1.10", "HTTP/2.0", "HTTP/0.9", "HTTP/1.:", "HTTP/1.1x", "HTTP/1", "HTTP/1.01", "http/1.1", "Http/1.1", "hTTp/1.2", "http/1.10"},
	"status":     {"101", "200", "400", "100", "102", "301", "0:1", "09;", "0101", "+101", "1e2", "18446744073709551717", "1O1", "10", "1010", "missing", "-101", " 101"},
	"reason":     {"Switching Protocols", "", "whatever you like", "101"},
	"upgrade":    {"canonical", "absent", "case-name", "case-value", "blanks", "wrong", "empty", "dup-same", "dup-diff", "trailing-cr"},
	"connection": {"canonical", "absent", "case-name", "case-value", "blanks", "wrong", "empty", "dup-same", "dup-diff", "list", "trailing-cr"},
	"accept":     {"canonical", "absent", "case-name", "blanks", "other-key", "len27", "len29", "empty", "dup-same", "dup-diff", "lowercased", "noncanonical-base64", "one-char-off", "urlsafe-alphabet", "sha1-of-key-only", "quoted", "trailing-cr"},
	"protocol":   {"none", "first", "last", "unrequested", "valid-then-unrequested", "unrequested-then-valid", "two-valid", "empty-value", "list", "case-changed", "list-requested-first", "list-all-requested"},
	"extensions": {"none", "first", "first-with-params", "all", "unoffered", "offered-then-unoffered", "malformed", "empty-value", "all-separate-lines", "separate-lines-then-unoffered"},
	"extra":      {"none", "some", "long-value", "no-colon-line", "token-names", "blank-value", "request-only-headers"},
	"eol":        {"crlf", "lf"},
}

// ReqInfo is what the scripted server learnt from the request it received.
type ReqInfo struct {
	Key        string
	Protocols  []string
	Extensions []string // offered extension names (in order)
}

// BuildResp builds a response for a received request.
func BuildResp(rng *rand.Rand, choice map[string]string, in ReqInfo) *Resp {
	r := &Resp{Proto: "HTTP/1.1", Status: "101", Reason: "Switching Protocols", EOL: "\r\n", Variant: map[string]string{}}
	v := &r.Verdict
	get := func(f string) string {
		c, ok := choice[f]
		if !ok {
			c = RespVariants[f][0]
		}
		r.Variant[f] = c
		return c
	}
	switch p := get("proto"); p {
	case "HTTP/1.1", "HTTP/1.2", "HTTP/1.10":
		r.Proto = p
	case "HTTP/1.01":
		r.Proto = p
		v.MarkOpen("version token " + p)
	case "http/1.1", "Http/1.1", "hTTp/1.2", "http/1.10":
		// the protocol name is case-sensitive (RFC 7230 §2.6: HTTP-name = %x48.54.54.50): not an HTTP/1.x status line
		r.Proto = p
		v.Reject("protocol name " + p)
	default:
		r.Proto = p
		v.Reject("version " + p)
	}
	switch s := get("status"); s {
	case "101":
	case "missing":
		r.NoStatus = true
		v.Reject("status line without status")
	default:
		r.Status = s
		v.Reject("status token " + s)
	}
	r.Reason = get("reason")
	if get("eol") == "lf" {
		r.EOL = "\n"
		v.MarkOpen("LF-only line ends")
	}
	add := func(n, val string) { r.Headers = append(r.Headers, Hdr{Name: n, Value: val}) }
	mand := func(factor, name, good string) {
		switch c := get(factor); c {
		case "canonical":
			add(name, " "+good)
		case "absent":
			v.Reject(name + " absent")
		case "case-name":
			add(caseVary(name, rng), " "+good)
		case "case-value":
			add(name, " "+caseVary(good, rng))
		case "blanks":
			add(name, blanks(rng)+good+blanks(rng))
		case "wrong":
			add(name, " "+good+"x")
			v.Reject(name + " wrong value")
		case "empty":
			add(name, "")
			v.Reject(name + " empty")
		case "trailing-cr":
			// the value is followed by a bare CR, then the line end: "...Upgrade<CR><CR><LF>" (with LF-only line
			// ends, where the verdict is open anyway, that CR simply belongs to the terminator)
			add(name, " "+good+"\r")
			if get("eol") == "lf" {
				v.MarkOpen(name + " line ends in CR LF inside an LF-only head")
			} else {
				v.Reject(name + " value followed by a bare CR")
			}
		case "dup-same":
			add(name, " "+good)
			add(name, " "+good)
			v.MarkOpen("duplicated valid " + name)
		case "dup-diff":
			add(name, " "+good)
			add(name, " "+good+"x")
			v.MarkOpen("duplicated " + name + " with different validity")
		}
	}
	mand("upgrade", "Upgrade", "websocket")
	if get("connection") == "list" {
		add("Connection", " keep-alive, Upgrade")
		v.MarkOpen("Connection token list in a response")
	} else {
		mand("connection", "Connection", "Upgrade")
	}
	acc := ref.Accept(in.Key)
	switch c := get("accept"); c {
	case "other-key":
		add("Sec-WebSocket-Accept", " "+ref.Accept(NewKey(rng)))
		v.Reject("accept valid for a different key")
	case "len27":
		add("Sec-WebSocket-Accept", " "+acc[:27])
		v.Reject("accept of 27 chars")
	case "len29":
		add("Sec-WebSocket-Accept", " "+acc+"=")
		v.Reject("accept of 29 chars")
	case "noncanonical-base64":
		// the 27th character carries four data bits and two padding bits: setting the padding bits gives a
		// different TEXT that a lenient base64 decoder maps to the same 20 bytes
		const alpha = "ABCDEFGHIJKLMNOPQRSTUVWXYZabcdefghijklmnopqrstuvwxyz0123456789+/"
		i := strings.IndexByte(alpha, acc[26])
		add("Sec-WebSocket-Accept", " "+acc[:26]+string(alpha[i|(1+rng.Intn(3))])+"=")
		v.Reject("accept spelled as a non-canonical base64 form of the right hash")
	case "one-char-off":
		const alpha = "ABCDEFGHIJKLMNOPQRSTUVWXYZabcdefghijklmnopqrstuvwxyz0123456789+/"
		k := rng.Intn(27)
		ch := alpha[rng.Intn(64)]
		for ch == acc[k] {
			ch = alpha[rng.Intn(64)]
		}
		add("Sec-WebSocket-Accept", " "+acc[:k]+string(ch)+acc[k+1:])
		v.Reject("accept differing in one character")
	case "urlsafe-alphabet":
		// (the verdict must not depend on the random key: when the right value happens to contain neither
		// '+' nor '/', its first character is replaced by '-', which only the URL-safe alphabet has)
		u := strings.NewReplacer("+", "-", "/", "_").Replace(acc)
		if u == acc {
			u = "-" + acc[1:]
		}
		add("Sec-WebSocket-Accept", " "+u)
		v.Reject("accept in the URL-safe base64 alphabet")
	case "sha1-of-key-only":
		sum := sha1.Sum([]byte(in.Key))
		add("Sec-WebSocket-Accept", " "+base64.StdEncoding.EncodeToString(sum[:]))
		v.Reject("accept computed without the GUID")
	case "quoted":
		add("Sec-WebSocket-Accept", " \""+acc+"\"")
		v.Reject("accept value in quotes")
	case "lowercased":
		if strings.ToLower(acc) == acc {
			add("Sec-WebSocket-Accept", " "+acc)
		} else {
			add("Sec-WebSocket-Accept", " "+strings.ToLower(acc))
			v.Reject("accept with changed case")
		}
	default:
		mand("accept", "Sec-WebSocket-Accept", acc)
	}
	// ---- subprotocol
	ph := "Sec-WebSocket-Protocol"
	pv := get("protocol")
	if len(in.Protocols) == 0 && pv != "none" && pv != "unrequested" && pv != "empty-value" && pv != "list" {
		pv = "unrequested"
		r.Variant["protocol"] = pv
	}
	switch pv {
	case "none":
	case "first":
		r.Protocol = in.Protocols[0]
		add(ph, " "+r.Protocol)
	case "last":
		r.Protocol = in.Protocols[len(in.Protocols)-1]
		add(ph, " "+r.Protocol)
	case "unrequested":
		add(ph, " never-requested")
		v.Reject("subprotocol not requested")
	case "valid-then-unrequested":
		add(ph, " "+in.Protocols[0])
		add(ph, " never-requested")
		v.Reject("second subprotocol header names something not requested")
	case "unrequested-then-valid":
		add(ph, " never-requested")
		add(ph, " "+in.Protocols[0])
		v.Reject("first subprotocol header names something not requested")
	case "two-valid":
		add(ph, " "+in.Protocols[0])
		add(ph, " "+in.Protocols[len(in.Protocols)-1])
		v.MarkOpen("two subprotocol headers")
	case "empty-value":
		add(ph, "")
		v.MarkOpen("empty subprotocol header")
	case "list":
		// the response names ONE subprotocol (RFC 6455 §4.2.2 /5); a comma-separated list is not a name the client
		// requested, whichever names it contains ("must be one it requested, otherwise it fails")
		add(ph, " "+strings.Join(append([]string{"x"}, in.Protocols...), ", "))
		v.Reject("subprotocol value is a list, not a requested name")
	case "list-requested-first":
		add(ph, " "+in.Protocols[0]+", never-requested")
		v.Reject("subprotocol value is a list, not a requested name")
	case "list-all-requested":
		add(ph, " "+strings.Join(append(append([]string(nil), in.Protocols...), in.Protocols[0]), ", "))
		v.Reject("subprotocol value is a list, not a requested name")
	case "case-changed":
		up := strings.ToUpper(in.Protocols[0])
		add(ph, " "+up)
		if up != in.Protocols[0] {
			requested := false
			for _, p := range in.Protocols {
				if p == up {
					requested = true
				}
			}
			if !requested {
				v.Reject("subprotocol differs in case from the requested one")
			} else {
				r.Protocol = up
			}
		} else {
			r.Protocol = up
		}
	}
	// ---- extensions
	eh := "Sec-WebSocket-Extensions"
	ev := get("extensions")
	if len(in.Extensions) == 0 && ev != "none" && ev != "unoffered" && ev != "malformed" && ev != "empty-value" {
		ev = "unoffered"
		r.Variant["extensions"] = ev
	}
	switch ev {
	case "none":
	case "first":
		r.ExtSent = []string{in.Extensions[0]}
	case "first-with-params":
		r.ExtSent = []string{in.Extensions[0] + "; server_no_context_takeover; client_max_window_bits=10"}
	case "all":
		r.ExtSent = []string{strings.Join(in.Extensions, ", ")}
	case "all-separate-lines":
		// RFC 6455 §9.1: the header may be split over several lines, which is the same as one combined list
		r.ExtSent = append([]string(nil), in.Extensions...)
	case "separate-lines-then-unoffered":
		r.ExtSent = append(append([]string(nil), in.Extensions...), "never-offered; x=1")
		v.Reject("extension on a later header line not offered")
	case "unoffered":
		r.ExtSent = []string{"never-offered; x=1"}
		v.Reject("extension not offered")
	case "offered-then-unoffered":
		r.ExtSent = []string{in.Extensions[0] + ", never-offered"}
		v.Reject("second extension not offered")
	case "malformed":
		r.ExtSent = []string{"foo; ;=, ,"}
		v.Reject("malformed extension header")
	case "empty-value":
		r.ExtSent = []string{""}
		v.MarkOpen("empty extensions header")
	}
	for _, e := range r.ExtSent {
		if e == "" {
			add(eh, "")
		} else {
			add(eh, " "+e)
		}
	}
	switch c := get("extra"); c {
	case "some":
		add("Server", " test/"+fmt.Sprint(rng.Intn(100)))
		add("X-Thing", " "+strings.Repeat("y", rng.Intn(40)))
	case "long-value":
		add("Set-Cookie", " "+strings.Repeat("0123456789", 20+rng.Intn(600)))
	case "token-names":
		for i := 0; i < 1+rng.Intn(3); i++ {
			add(TokenNames[rng.Intn(len(TokenNames))], " v"+fmt.Sprint(rng.Intn(1000)))
		}
	case "blank-value":
		add([]string{"Server", "X-Thing", "Set-Cookie"}[rng.Intn(3)], []string{"", " ", "  ", "\t", " \t "}[rng.Intn(5)])
		if rng.Intn(2) == 0 {
			add("X-Other", " v")
		}
	case "request-only-headers":
		// headers that mean something in the OTHER direction of the handshake only (a reflecting proxy, a server
		// framework that copies request headers): to the client they are headers like any other
		for _, h := range [][2]string{{"Host", " reflected.example"}, {"Sec-WebSocket-Key", " dGhlIHNhbXBsZSBub25jZQ=="}, {"Sec-WebSocket-Version", " 13"}, {"sec-websocket-version", " 8"}}[:1+rng.Intn(4)] {
			add(h[0], h[1])
		}
	case "no-colon-line":
		r.Headers = append(r.Headers, Hdr{Raw: "line without colon"})
		v.Reject("header line without colon")
	}
	return r
}
