// Package gen holds deterministic generators: every case is a pure function of
// the PRNG handed in (itself a function of seed, check and index).
package gen

import (
	"fmt"
	"math/rand"
	"strings"

	"verifharness/ref"
)

// Shape is a frame without content.
type Shape struct {
	Op  byte
	Fin bool
	Len int
	Rsv byte
}

func (s Shape) String() string {
	f := ""
	if s.Fin {
		f = "F"
	}
	r := ""
	if s.Rsv != 0 {
		r = fmt.Sprintf("r%d", s.Rsv)
	}
	return fmt.Sprintf("%x%s%s/%d", s.Op, f, r, s.Len)
}

// ShapesKey renders a sequence compactly (used as class key / sample).
func ShapesKey(ss []Shape) string {
	p := make([]string, len(ss))
	for i, s := range ss {
		p[i] = s.String()
	}
	return strings.Join(p, " ")
}

// ShapeClass renders the sequence with lengths bucketed (structural class).
func ShapeClass(ss []Shape) string {
	var b strings.Builder
	for _, s := range ss {
		f := byte('-')
		if s.Fin {
			f = 'F'
		}
		fmt.Fprintf(&b, "%x%c%s ", s.Op, f, LenClass(s.Len))
	}
	return b.String()
}

// LenClass buckets a payload length around the protocol thresholds.
func LenClass(n int) string {
	switch {
	case n == 0:
		return "0"
	case n < 8:
		return "s"
	case n <= 125:
		return "7b"
	case n == 126 || n == 127:
		return "126"
	case n < 65535:
		return "16b"
	case n <= 65536:
		return "64k"
	default:
		return "big"
	}
}

// EnumShapes enumerates every state-machine-valid frame sequence of exactly
// 1..depth frames over the alphabet {text,binary,continuation} x fin x
// dataLens  ∪  {ping,pong} x ctlLens. With complete, sequences that end inside
// a fragmented message are dropped.
func EnumShapes(depth int, dataLens, ctlLens []int, complete bool) [][]Shape {
	var out [][]Shape
	var rec func(cur []Shape, frag bool)
	rec = func(cur []Shape, frag bool) {
		if len(cur) > 0 && (!complete || !frag) {
			out = append(out, append([]Shape(nil), cur...))
		}
		if len(cur) == depth {
			return
		}
		for _, op := range []byte{ref.OpPing, ref.OpPong} {
			for _, l := range ctlLens {
				rec(append(cur, Shape{Op: op, Fin: true, Len: l}), frag)
			}
		}
		var ops []byte
		if frag {
			ops = []byte{ref.OpCont}
		} else {
			ops = []byte{ref.OpText, ref.OpBinary}
		}
		for _, op := range ops {
			for _, fin := range []bool{true, false} {
				for _, l := range dataLens {
					rec(append(cur, Shape{Op: op, Fin: fin, Len: l}), !fin)
				}
			}
		}
	}
	rec(nil, false)
	return out
}

// RandomShapes draws a valid, complete sequence of up to maxFrames frames.
func RandomShapes(rng *rand.Rand, maxFrames int, lens []int) []Shape {
	n := 1 + rng.Intn(maxFrames)
	var out []Shape
	frag := false
	pick := func() int {
		l := lens[rng.Intn(len(lens))]
		if l > 0 && rng.Intn(3) == 0 {
			l += rng.Intn(3) - 1
		}
		return l
	}
	for len(out) < n || frag {
		if rng.Intn(5) == 0 {
			op := byte(ref.OpPing)
			if rng.Intn(2) == 0 {
				op = ref.OpPong
			}
			l := []int{0, 1, 5, 124, 125}[rng.Intn(5)]
			out = append(out, Shape{Op: op, Fin: true, Len: l})
			continue
		}
		fin := rng.Intn(3) != 0
		if len(out) >= n+6 {
			fin = true
		}
		if frag {
			out = append(out, Shape{Op: ref.OpCont, Fin: fin, Len: pick()})
		} else {
			op := byte(ref.OpText)
			if rng.Intn(2) == 0 {
				op = ref.OpBinary
			}
			out = append(out, Shape{Op: op, Fin: fin, Len: pick()})
		}
		frag = !fin
	}
	return out
}

// Build gives the shapes content. Payload bytes are position-tagged (a counter
// stream over the whole sequence) so that a lost, duplicated or moved region is
// identified exactly; with ascii the bytes stay in 0x20..0x7e (valid UTF-8).
// Frames are masked (random keys, sometimes all-zero) iff the RECEIVER is a
// server. With ascii set, data payloads are printable ASCII (valid text) while
// ping and pong payloads are deliberately NOT valid UTF-8.
func Build(shapes []Shape, receiver ref.Side, rng *rand.Rand, ascii bool) []ref.Frame {
	frames := make([]ref.Frame, len(shapes))
	ctr := rng.Intn(251)
	for i, s := range shapes {
		p := make([]byte, s.Len)
		for j := range p {
			ctr++
			if ascii && (s.Op == ref.OpPing || s.Op == ref.OpPong) {
				// ping/pong payloads are arbitrary binary data: never valid UTF-8 on their own
				// (stray continuation bytes, a three-byte lead, 0xff), also inside text messages
				p[j] = []byte{0xe8, 0x80, 0xff, 0xbf, 0xc3}[ctr%5]
			} else if ascii {
				p[j] = byte(0x20 + ctr%95)
			} else {
				p[j] = byte(ctr*131 + ctr>>8)
			}
		}
		h := ref.Header{Fin: s.Fin, Op: s.Op, Rsv: s.Rsv, Length: int64(s.Len)}
		if receiver == ref.SideServer {
			h.Masked = true
			if rng.Intn(8) != 0 {
				rng.Read(h.Mask[:])
			}
		}
		frames[i] = ref.Frame{H: h, Payload: p}
	}
	return frames
}

// Encode concatenates the encodings and returns the start offset of each frame
// plus offsets strictly inside every header (useful chunk marks).
func Encode(frames []ref.Frame) (stream []byte, starts []int, headerMarks []int) {
	for _, f := range frames {
		starts = append(starts, len(stream))
		hl := ref.EncodedLen(ref.Header{Masked: f.H.Masked, Length: int64(len(f.Payload))})
		for k := 1; k <= hl; k++ {
			headerMarks = append(headerMarks, len(stream)+k)
		}
		stream = append(stream, f.Encode()...)
	}
	return
}

// BuildUTF8 is Build(..., ascii=true) with the payload of every data MESSAGE
// (the concatenation of its fragments) replaced by valid UTF-8 made mostly of
// multi-byte characters, so that fragment boundaries, caller buffers and
// partial reads fall inside characters. Lengths are unchanged.
func BuildUTF8(shapes []Shape, receiver ref.Side, rng *rand.Rand) []ref.Frame {
	frames := Build(shapes, receiver, rng, true)
	chars := []string{"\u00e9", "\u20ac", "\U0001f600", "\u0416", "\U0010ffff", "a", "\ud7ff"}
	i := 0
	for i < len(frames) {
		if ref.IsControl(frames[i].H.Op) {
			i++
			continue
		}
		// collect the data frames of this message (control frames may sit in between)
		var idx []int
		total := 0
		j := i
		for ; j < len(frames); j++ {
			if ref.IsControl(frames[j].H.Op) {
				continue
			}
			idx = append(idx, j)
			total += len(frames[j].Payload)
			if frames[j].H.Fin {
				j++
				break
			}
		}
		text := make([]byte, 0, total)
		for k := rng.Intn(len(chars)); len(text) < total; k++ {
			if rng.Intn(3) == 0 {
				// an ASCII run of 0..20 bytes in front of the next multi-byte character (word-at-a-time and
				// "skip the ASCII prefix" validators are exact about where a run ends)
				for run := rng.Intn(21); run > 0 && len(text) < total-4; run-- {
					text = append(text, byte('a'+rng.Intn(26)))
				}
			}
			ch := chars[k%len(chars)]
			if len(text)+len(ch) > total {
				ch = "z"
			}
			text = append(text, ch...)
		}
		off := 0
		for _, fi := range idx {
			n := len(frames[fi].Payload)
			frames[fi].Payload = append([]byte(nil), text[off:off+n]...)
			off += n
		}
		i = j
	}
	return frames
}
