package gen

import (
	"encoding/base64"
	"fmt"
	"math/rand"
	"strings"

	"verifharness/ref"
)

// Hdr is one header line of a generated request/response.
type Hdr struct {
	Name, Value string
	Raw         string // when non-empty the line is emitted verbatim (malformed lines)
}

// Req is a generated upgrade request together with its derivation.
type Req struct {
	Method  string
	URI     string
	Proto   string // "HTTP/1.1", ... ; "" = the request line has only two parts
	EOL     string
	Headers []Hdr

	// derivation: which variant each factor took
	Variant  map[string]string
	Key      string   // the key value a compliant server must use ("" if none/ambiguous)
	Protos   []string // subprotocols offered, in client order, across headers
	ExtNames []string // extension names offered
	Verdict  ref.Verdict
}

// Bytes renders the request.
func (r *Req) Bytes() []byte {
	var b strings.Builder
	b.WriteString(r.Method)
	b.WriteByte(' ')
	b.WriteString(r.URI)
	if r.Proto != "" {
		b.WriteByte(' ')
		b.WriteString(r.Proto)
	}
	b.WriteString(r.EOL)
	for _, h := range r.Headers {
		if h.Raw != "" {
			b.WriteString(h.Raw)
		} else {
			b.WriteString(h.Name)
			b.WriteString(":")
			b.WriteString(h.Value)
		}
		b.WriteString(r.EOL)
	}
	b.WriteString(r.EOL)
	return []byte(b.String())
}

func (r *Req) Describe() map[string]interface{} {
	return map[string]interface{}{"variants": r.Variant, "verdict": r.Verdict.ClassName(), "why": r.Verdict.Why, "statuses": fmt.Sprint(r.Verdict.Statuses), "text": string(r.Bytes())}
}

// Factor names.
var ReqFactors = []string{"method", "proto", "host", "upgrade", "connection", "version", "key", "extra", "eol"}

// ReqVariants lists the variants of each factor; the first is canonical.
var ReqVariants = map[string][]string{
	"method": {"GET", "get", "POST", "HEAD", "PUT", "OPTIONS", "GETT"},
	"proto": {"HTTP/1.1", "HTTP/1.0", "HTTP/1.2", "HTTP/1.9", "HTTP/1.10", "HTTP/2.0", "HTTP/0.9", "HTTP/1.:", "HTTP/1.;", "HTTP/1.1x", "HTTP/1.18446744073709551617", "missing", "HTTP/1.01", "http/1.1", "Http/1.1", "hTTp/1.2", "HTTP/1.", "HTTP/.1", "HTTP/11",
		// number spellings that a general-purpose integer parser takes but an HTTP version does not have
		"HTTP/1.+1", "HTTP/+1.1", "HTTP/1.-1", "HTTP/-1.1", "HTTP/1.1e0", "HTTP/0x1.1", "HTTP/1_0.1", "HTTP/1.١"},
	"host":       {"canonical", "absent", "case-name", "blanks", "empty", "dup-same", "with-port"},
	"upgrade":    {"canonical", "absent", "case-name", "case-value", "blanks", "wrong", "empty", "dup-same", "dup-diff", "token-list", "prefix", "suffix", "cr-tail"},
	"connection": {"canonical", "absent", "case-name", "case-value", "blanks", "wrong", "empty", "dup-same", "dup-diff", "list-first", "list-middle", "list-last", "list-nospace", "substring", "list-tab", "cr-tail"},
	"version": {"canonical", "absent", "case-name", "blanks", "wrong-12", "wrong-8", "wrong-130", "empty", "dup-same", "dup-diff", "list", "cr-tail",
		// spellings a numeric parser takes for 13 but that are not the version token "13" (RFC 6455 §4.2.1: no leading zeros)
		"num-013", "num-0013", "num-+13", "num-13.0", "num-0xd", "num-1_3", "num-13e0"},
	"key":   {"canonical", "absent", "case-name", "blanks", "len23", "len25", "nonbase64-24", "decodes-17", "decodes-18", "empty", "dup-same", "dup-diff", "len16raw", "cr-inside", "cr-cr-tail", "cr-tail", "noncanonical-pad-bits"},
	"extra": {"none", "some", "long-value", "many", "no-colon-line", "empty-name", "cr-only-line", "token-names", "blank-value", "response-only-headers"},
	"eol":   {"crlf", "lf"},
}

func caseVary(s string, rng *rand.Rand) string {
	b := []byte(s)
	changed := false
	for i := range b {
		if rng.Intn(2) == 0 {
			switch {
			case b[i] >= 'a' && b[i] <= 'z':
				b[i] -= 32
				changed = true
			case b[i] >= 'A' && b[i] <= 'Z':
				b[i] += 32
				changed = true
			}
		}
	}
	if !changed {
		return strings.ToUpper(s)
	}
	return string(b)
}

func blanks(rng *rand.Rand) string {
	return []string{" ", "  ", "\t", " \t ", ""}[rng.Intn(5)]
}

// NewKey returns a valid Sec-WebSocket-Key.
func NewKey(rng *rand.Rand) string {
	var k [16]byte
	rng.Read(k[:])
	return base64.StdEncoding.EncodeToString(k[:])
}

// BuildReq builds a request from a choice of variants (missing factors are
// canonical). Extra Sec-WebSocket-Protocol / -Extensions header values are
// appended as given.
func BuildReq(rng *rand.Rand, choice map[string]string, protoHdrs, extHdrs []string) *Req {
	r := &Req{Method: "GET", URI: []string{"/", "/chat", "/ws?x=1&y=2", "/a/b/c"}[rng.Intn(4)], Proto: "HTTP/1.1", EOL: "\r\n", Variant: map[string]string{}}
	v := &r.Verdict
	get := func(f string) string {
		c, ok := choice[f]
		if !ok {
			c = ReqVariants[f][0]
		}
		r.Variant[f] = c
		return c
	}
	// ---- request line
	switch m := get("method"); m {
	case "GET":
	default:
		r.Method = m
		v.Reject("method "+m, 405)
	}
	switch p := get("proto"); p {
	case "HTTP/1.1", "HTTP/1.2", "HTTP/1.9", "HTTP/1.10":
		r.Proto = p
	case "HTTP/1.0", "HTTP/2.0", "HTTP/0.9":
		r.Proto = p
		v.Reject("version "+p, 505)
	case "HTTP/1.:", "HTTP/1.;", "HTTP/1.1x", "HTTP/1.", "HTTP/.1", "HTTP/11", "HTTP/1.+1", "HTTP/+1.1", "HTTP/1.-1", "HTTP/-1.1", "HTTP/1.1e0", "HTTP/0x1.1", "HTTP/1_0.1", "HTTP/1.١":
		r.Proto = p
		v.Reject("version token "+p, 505, 400)
		v.NoResponseOK = true
	case "HTTP/1.18446744073709551617":
		// digits only, numerically huge: not a 1.x the statement speaks about
		// with certainty (overflow); leave the verdict open.
		r.Proto = p
		v.MarkOpen("minor version overflows 64 bits")
		v.NoResponseOK = true
	case "missing":
		r.Proto = ""
		v.Reject("no version", 400, 505)
		v.NoResponseOK = true
	case "HTTP/1.01":
		r.Proto = p
		v.MarkOpen("version token " + p)
		v.NoResponseOK = true
	case "http/1.1", "Http/1.1", "hTTp/1.2":
		// the protocol name is case-sensitive (RFC 7230 §2.6): not HTTP/1.x
		r.Proto = p
		v.Reject("protocol name "+p, 505, 400)
		v.NoResponseOK = true
	}
	if get("eol") == "lf" {
		r.EOL = "\n"
	}
	add := func(name, value string) { r.Headers = append(r.Headers, Hdr{Name: name, Value: value}) }
	// ---- mandatory headers
	mand := func(factor, name, good string, wrongStatus int) {
		switch c := get(factor); c {
		case "canonical":
			add(name, " "+good)
		case "absent":
			v.Reject(name+" absent", 400)
		case "case-name":
			add(caseVary(name, rng), " "+good)
		case "case-value":
			add(name, " "+caseVary(good, rng))
		case "blanks":
			add(name, blanks(rng)+good+blanks(rng))
		case "wrong":
			add(name, " "+good+"x")
			v.Reject(name+" wrong value", wrongStatus)
		case "empty":
			add(name, "")
			if factor == "host" {
				v.MarkOpen("empty Host")
			} else if factor == "version" {
				v.Reject(name+" empty", 400, 426)
			} else {
				v.Reject(name+" empty", wrongStatus)
			}
		case "dup-same":
			add(name, " "+good)
			add(name, " "+good)
			if factor == "host" {
				v.MarkOpen("duplicate Host (net/http refuses it itself)")
			}
		case "dup-diff":
			add(name, " "+good)
			add(name, " "+good+"x")
			v.MarkOpen("duplicated " + name + " with different validity")
		}
	}
	// crTail: a correct value followed by one bare CR before the line end. Under
	// CRLF line ends the value then ends in a CR, which is neither a blank nor part of
	// the expected value; under LF line ends "value CR LF" is an ordinary CRLF line.
	crTail := func(name, good string, statuses ...int) {
		add(name, " "+good+"\r")
		if r.EOL == "\n" {
			v.MarkOpen(name + " line ending in CRLF among LF line ends")
		} else {
			v.Reject(name+" value ending in a bare CR", statuses...)
		}
	}
	hostVal := "example.com"
	switch c := get("host"); c {
	case "with-port":
		add("Host", " example.com:8080")
	default:
		mand("host", "Host", hostVal, 400)
	}
	switch c := get("upgrade"); c {
	case "token-list":
		add("Upgrade", " websocket, foo")
		v.MarkOpen("Upgrade token list")
	case "prefix":
		add("Upgrade", " xwebsocket")
		v.Reject("Upgrade wrong value", 400)
	case "suffix":
		add("Upgrade", " websocket/13")
		v.Reject("Upgrade wrong value", 400)
	case "cr-tail":
		crTail("Upgrade", "websocket", 400)
	default:
		mand("upgrade", "Upgrade", "websocket", 400)
	}
	switch c := get("connection"); c {
	case "list-first":
		add("Connection", " "+caseVary("upgrade", rng)+", keep-alive")
	case "list-middle":
		add("Connection", " keep-alive, Upgrade , foo")
	case "list-last":
		add("Connection", " keep-alive,  UPGRADE")
	case "list-tab":
		// HTAB as list whitespace is legal HTTP (OWS) but the tokenizer lives in the
		// httphead dependency; the statement speaks of "blanks": left open.
		add("Connection", " keep-alive,\tUPGRADE")
		v.MarkOpen("HTAB inside the Connection list")
	case "list-nospace":
		add("Connection", " keep-alive,upgrade,foo")
	case "substring":
		add("Connection", " keep-alive, upgrades")
		v.Reject("Connection lacks the upgrade token", 400)
	case "cr-tail":
		// (what a token list ending in a bare CR contains is the list tokenizer's call)
		add("Connection", " Upgrade\r")
		v.MarkOpen("Connection list ending in a bare CR")
	default:
		mand("connection", "Connection", "Upgrade", 400)
	}
	switch c := get("version"); c {
	case "wrong-12":
		add("Sec-WebSocket-Version", " 12")
		v.Reject("version 12", 426)
	case "wrong-8":
		add("Sec-WebSocket-Version", " 8")
		v.Reject("version 8", 426)
	case "wrong-130":
		add("Sec-WebSocket-Version", " 130")
		v.Reject("version 130", 426)
	case "list":
		add("Sec-WebSocket-Version", " 13, 8")
		v.MarkOpen("version list")
	case "wrong":
		add("Sec-WebSocket-Version", " 13x")
		v.Reject("version 13x", 426)
	case "num-013", "num-0013", "num-+13", "num-13.0", "num-0xd", "num-1_3", "num-13e0":
		add("Sec-WebSocket-Version", " "+strings.TrimPrefix(c, "num-"))
		v.Reject("version spelled "+strings.TrimPrefix(c, "num-"), 426, 400)
	case "cr-tail":
		crTail("Sec-WebSocket-Version", "13", 426, 400)
	default:
		mand("version", "Sec-WebSocket-Version", "13", 426)
	}
	key := NewKey(rng)
	r.Key = key
	keyHdr := "Sec-WebSocket-Key"
	switch c := get("key"); c {
	case "canonical":
		add(keyHdr, " "+key)
	case "absent":
		r.Key = ""
		v.Reject("key absent", 400)
	case "case-name":
		add(caseVary(keyHdr, rng), " "+key)
	case "blanks":
		add(keyHdr, blanks(rng)+key+blanks(rng))
	case "len23":
		add(keyHdr, " "+key[:23])
		v.Reject("key of 23 chars", 400)
	case "len25":
		add(keyHdr, " "+key+"=")
		v.Reject("key of 25 chars", 400)
	case "nonbase64-24":
		r.Key = "!!!!!!!!!!!!!!!!!!!!!!!!"
		add(keyHdr, " "+r.Key)
		v.Reject("24-char key that is not base64", 400)
	case "decodes-17":
		var k [17]byte
		rng.Read(k[:])
		r.Key = base64.StdEncoding.EncodeToString(k[:])
		add(keyHdr, " "+r.Key)
		v.Reject("24-char key decoding to 17 bytes", 400)
	case "decodes-18":
		var k [18]byte
		rng.Read(k[:])
		r.Key = base64.StdEncoding.EncodeToString(k[:])
		add(keyHdr, " "+r.Key)
		v.Reject("24-char key decoding to 18 bytes", 400)
	case "cr-inside":
		// bytes a lenient base64 decoder skips (RFC 4648 decoders commonly ignore CR/LF)
		add(keyHdr, " "+key[:12]+"\r"+key[12:])
		r.Key = ""
		v.Reject("key with a bare CR inside", 400)
	case "cr-cr-tail":
		add(keyHdr, " "+key[:8]+"\r"+key[8:]+"\r\r")
		r.Key = ""
		v.Reject("key with three bare CRs", 400)
	case "cr-tail":
		crTail(keyHdr, key, 400)
		r.Key = ""
	case "noncanonical-pad-bits":
		// 24 characters that decode (with a decoder that is not strict) to 16 bytes, the four unused low bits of the
		// 22nd character not zero: another SPELLING of the same 16 bytes. Whether a server takes it is open; if it
		// does, the accept value is computed over the text it received (RFC 6455 4.2.2 5.4: "the value of the
		// |Sec-WebSocket-Key| header field ... concatenate"), not over a re-encoding
		const alpha = "ABCDEFGHIJKLMNOPQRSTUVWXYZabcdefghijklmnopqrstuvwxyz0123456789+/"
		i := strings.IndexByte(alpha, key[21])
		r.Key = key[:21] + string(alpha[i&^15|(1+rng.Intn(15))]) + "=="
		add(keyHdr, " "+r.Key)
		v.MarkOpen("non-canonical base64 spelling of a 16-byte key")
	case "len16raw":
		add(keyHdr, " 0123456789abcdef")
		v.Reject("16-char key", 400)
	case "empty":
		add(keyHdr, "")
		v.Reject("empty key", 400)
	case "dup-same":
		add(keyHdr, " "+key)
		add(keyHdr, " "+key)
	case "dup-diff":
		add(keyHdr, " "+key)
		add(keyHdr, " "+NewKey(rng))
		r.Key = ""
		v.MarkOpen("two different keys")
	}
	// ---- subprotocols / extensions
	for _, p := range protoHdrs {
		add("Sec-WebSocket-Protocol", " "+p)
		for _, t := range strings.Split(p, ",") {
			if t = strings.TrimSpace(t); t != "" {
				r.Protos = append(r.Protos, t)
			}
		}
	}
	for _, e := range extHdrs {
		add("Sec-WebSocket-Extensions", " "+e)
		for _, t := range strings.Split(e, ",") {
			name := strings.TrimSpace(strings.SplitN(t, ";", 2)[0])
			if name != "" {
				r.ExtNames = append(r.ExtNames, name)
			}
		}
	}
	// ---- extras
	extraNames := []string{"Origin", "User-Agent", "Cookie", "X-Forwarded-For", "Accept-Language", "Cache-Control", "Pragma", "X-Custom-Thing"}
	switch c := get("extra"); c {
	case "none":
	case "some":
		for i := 0; i < 1+rng.Intn(3); i++ {
			add(extraNames[rng.Intn(len(extraNames))], " v"+fmt.Sprint(rng.Intn(1000)))
		}
	case "long-value":
		add("Cookie", " "+strings.Repeat("abcdefghij", 20+rng.Intn(600)))
	case "token-names":
		// RFC 7230 3.2.6: a field name is a token, and a token has more characters than letters, digits and '-'
		for i := 0; i < 1+rng.Intn(3); i++ {
			add(TokenNames[rng.Intn(len(TokenNames))], " v"+fmt.Sprint(rng.Intn(1000)))
		}
	case "response-only-headers":
		// headers that mean something in the OTHER direction of the handshake only (a proxy echoing them, a confused
		// client): to the server they are headers like any other
		for _, h := range [][2]string{{"Sec-WebSocket-Accept", " s3pPLMBiTxaQ9kYGzzhZRbK+xOo="}, {"sec-websocket-accept", " x"}, {"Server", " nginx"}}[:1+rng.Intn(3)] {
			add(h[0], h[1])
		}
	case "blank-value":
		// a field value may be empty, or nothing but optional whitespace
		add(extraNames[rng.Intn(len(extraNames))], []string{"", " ", "  ", "\t", " \t "}[rng.Intn(5)])
		if rng.Intn(2) == 0 {
			add("X-Other", " v")
		}
	case "many":
		for i := 0; i < 5; i++ {
			add(extraNames[rng.Intn(len(extraNames))], " "+strings.Repeat("z", rng.Intn(80)))
		}
	case "no-colon-line":
		r.Headers = append(r.Headers, Hdr{Raw: "this line has no colon"})
		v.Reject("header line without colon", 400)
	case "cr-only-line":
		// a line holding one bare CR: with CRLF line ends that is a (malformed) header
		// line, not the blank line that ends the head; with LF line ends it IS a blank line
		// (and would cut the head short: not generated there)
		if r.EOL != "\n" {
			r.Headers = append(r.Headers, Hdr{Raw: "\r"})
			v.Reject("header line holding only a bare CR", 400)
		}
	case "empty-name":
		r.Headers = append(r.Headers, Hdr{Raw: ": value-without-name"})
		v.MarkOpen("header with empty name")
	}
	// shuffle header order (RFC: order is not important) but keep duplicates' relative order
	if rng.Intn(2) == 0 && len(r.Headers) > 1 {
		idx := rng.Perm(len(r.Headers))
		// stable for equal names: sort positions of same-name headers
		out := make([]Hdr, len(r.Headers))
		for i, j := range idx {
			out[i] = r.Headers[j]
		}
		// restore relative order among headers with the same (case-insensitive) name
		pos := map[string][]int{}
		for i, h := range out {
			pos[strings.ToLower(h.Name)] = append(pos[strings.ToLower(h.Name)], i)
		}
		orig := map[string][]Hdr{}
		for _, h := range r.Headers {
			orig[strings.ToLower(h.Name)] = append(orig[strings.ToLower(h.Name)], h)
		}
		for n, ps := range pos {
			for k, p := range ps {
				out[p] = orig[n][k]
			}
		}
		r.Headers = out
	}
	return r
}

// TokenNames are legal header field names (RFC 7230 tokens) using more of the token alphabet than
// letters, digits and '-'.
var TokenNames = []string{"X_Request_Id", "X.Trace", "x-amz_id+2", "X-A!#$%&'*^`|~", "_", "~x", "a.b_c+d", "X-Trace.Span_Id"}
