// C11 — the handshake outcome is shared by both peers and independent of transport chunking.
package main

import (
	"bufio"
	"bytes"
	"context"
	"crypto/tls"
	"errors"
	"fmt"
	"io"
	"log"
	"net"
	"net/http"
	"net/url"
	"regexp"
	"strings"
	"sync"
	"time"

	"github.com/gobwas/httphead"
	"github.com/gobwas/ws"
	"github.com/gobwas/ws/wsflate"
	"github.com/gobwas/ws/wsutil"

	"verifharness/fakeconn"
	"verifharness/gen"
	"verifharness/mon"
	"verifharness/ref"
	"verifharness/tlsx"
	"verifharness/xport"
)

// ---------------------------------------------------------------- pair runs

// limitConn limits every Read to at most k bytes (k<=0: unlimited).
type limitConn struct {
	net.Conn
	k   int
	rng func() int
}

func (l *limitConn) Read(p []byte) (int, error) {
	k := l.k
	if l.rng != nil {
		k = l.rng()
	}
	if k > 0 && len(p) > k {
		p = p[:k]
	}
	return l.Conn.Read(p)
}

type pairCfg struct {
	Protocols                  []string
	ProtoSel                   string // nil|none|all|slice
	ExtOffer                   []string
	ExtSel                     string // nil|extension-all|extension-none|negotiate-accept|negotiate-decline|negotiate-error|negotiate-wsflate
	CliHdr                     int    // length of an extra client header value (0 none)
	SrvHdr                     int
	CRBuf, CWBuf, SRBuf, SWBuf int
	CLimit, SLimit             int
	HTTPServer                 bool
	// Dialer, when set, is the application's ONE dialer value used for this handshake too (a copy of the struct per
	// call, slices shared); Out receives the outcome both peers agreed on
	Dialer *ws.Dialer
	Out    *string
}

func (p pairCfg) String() string {
	return fmt.Sprintf("protocols=%v sel=%s offer=%v extsel=%s clihdr=%d srvhdr=%d cbuf=%d/%d sbuf=%d/%d limit=%d/%d http=%v", p.Protocols, p.ProtoSel, p.ExtOffer, p.ExtSel, p.CliHdr, p.SrvHdr, p.CRBuf, p.CWBuf, p.SRBuf, p.SWBuf, p.CLimit, p.SLimit, p.HTTPServer)
}

func protoSelector(kind string, offered ...string) func(string) bool {
	exact := func(k int) func(string) bool {
		if len(offered) == 0 {
			return func(string) bool { return false }
		}
		want := offered[k%len(offered)]
		return func(s string) bool { return s == want }
	}
	switch kind {
	case "exact-last":
		return exact(len(offered) - 1 + len(offered))
	case "exact-second":
		return exact(1)
	case "none":
		return func(string) bool { return false }
	case "all":
		return func(string) bool { return true }
	case "slice":
		return ws.SelectFromSlice([]string{"b", "c", "json"})
	}
	return nil
}

func negotiator(kind string) func(httphead.Option) (httphead.Option, error) {
	switch kind {
	case "negotiate-accept":
		return func(o httphead.Option) (httphead.Option, error) { return o.Clone(), nil }
	case "negotiate-decline":
		return func(o httphead.Option) (httphead.Option, error) { return httphead.Option{}, nil }
	case "negotiate-error":
		return func(o httphead.Option) (httphead.Option, error) {
			return httphead.Option{}, errors.New("negotiate boom")
		}
	case "negotiate-wsflate":
		e := &wsflate.Extension{Parameters: wsflate.Parameters{ServerNoContextTakeover: true, ClientNoContextTakeover: true}}
		return e.Negotiate
	// servers whose answer is not the offer: the bare name, only the offer's first parameter, parameters of its own
	case "negotiate-bare":
		return func(o httphead.Option) (httphead.Option, error) {
			return httphead.Option{Name: append([]byte(nil), o.Name...)}, nil
		}
	case "negotiate-first-param":
		return func(o httphead.Option) (httphead.Option, error) {
			r := httphead.Option{Name: append([]byte(nil), o.Name...)}
			done := false
			o.Parameters.ForEach(func(k, v []byte) bool {
				if !done {
					r.Parameters.Set(append([]byte(nil), k...), append([]byte(nil), v...))
					done = true
				}
				return true
			})
			return r, nil
		}
	case "negotiate-own-params":
		return func(o httphead.Option) (httphead.Option, error) {
			r := httphead.Option{Name: append([]byte(nil), o.Name...)}
			r.Parameters.Set([]byte("server_no_context_takeover"), nil)
			r.Parameters.Set([]byte("client_max_window_bits"), []byte("9"))
			return r, nil
		}
	}
	return nil
}

type sideResult struct {
	hs  ws.Handshake
	err error
}

var (
	httpOnce sync.Once
	httpCh   chan net.Conn
)

type runKey struct{}
type tagged struct {
	net.Conn
	cfg pairCfg
	res chan sideResult
}
type plistener struct{}

func (plistener) Accept() (net.Conn, error) { return <-httpCh, nil }
func (plistener) Close() error              { return nil }
func (plistener) Addr() net.Addr            { return &net.TCPAddr{} }

func startHTTP() {
	httpOnce.Do(func() {
		httpCh = make(chan net.Conn)
		srv := &http.Server{
			ErrorLog: log.New(io.Discard, "", 0),
			ConnContext: func(ctx context.Context, c net.Conn) context.Context {
				return context.WithValue(ctx, runKey{}, c.(*tagged))
			},
			Handler: http.HandlerFunc(func(w http.ResponseWriter, r *http.Request) {
				t := r.Context().Value(runKey{}).(*tagged)
				u := ws.HTTPUpgrader{Protocol: protoSelector(t.cfg.ProtoSel, t.cfg.Protocols...)}
				switch t.cfg.ExtSel {
				case "nil", "custom-reversed": // (HTTPUpgrader has no ExtensionCustom)
				case "extension-all":
					u.Extension = func(httphead.Option) bool { return true }
				case "extension-none":
					u.Extension = func(httphead.Option) bool { return false }
				default:
					u.Negotiate = negotiator(t.cfg.ExtSel)
				}
				if t.cfg.SrvHdr > 0 {
					u.Header = http.Header{"X-Server-Long": {strings.Repeat("s", t.cfg.SrvHdr)}}
				}
				conn, _, hs, err := u.Upgrade(r, w)
				t.res <- sideResult{hs, err}
				if conn != nil {
					// keep the connection open until the client is done
					go func() { io.Copy(io.Discard, conn); conn.Close() }()
				}
			}),
		}
		go srv.Serve(plistener{})
	})
}

func runPair(c *mon.C, cfg pairCfg) bool {
	c.Count(1)
	cc, sc := fakeconn.BufPipe()
	rnd := func(seed int64) func() int {
		r := c.Rng.Int63() ^ seed
		return func() int { r = r*6364136223846793005 + 1442695040888963407; return 1 + int(uint64(r)>>33)%7 }
	}
	var cconn, sconn net.Conn = cc, sc
	if cfg.CLimit != 0 {
		l := &limitConn{Conn: cc, k: cfg.CLimit}
		if cfg.CLimit < 0 {
			l.rng = rnd(1)
		}
		cconn = l
	}
	if cfg.SLimit != 0 {
		l := &limitConn{Conn: sc, k: cfg.SLimit}
		if cfg.SLimit < 0 {
			l.rng = rnd(2)
		}
		sconn = l
	}
	srvRes := make(chan sideResult, 1)
	if cfg.HTTPServer {
		startHTTP()
		httpCh <- &tagged{Conn: sconn, cfg: cfg, res: srvRes}
	} else {
		go func() {
			u := ws.Upgrader{ReadBufferSize: cfg.SRBuf, WriteBufferSize: cfg.SWBuf}
			if sel := protoSelector(cfg.ProtoSel, cfg.Protocols...); sel != nil {
				u.Protocol = func(b []byte) bool { return sel(string(b)) }
			}
			switch cfg.ExtSel {
			case "nil":
			case "extension-all":
				u.Extension = func(httphead.Option) bool { return true }
			case "extension-none":
				u.Extension = func(httphead.Option) bool { return false }
			case "custom-reversed":
				// a server that lists the extensions it accepts in an order of its own (the last offered first):
				// the order of an answer is the server's business, both peers report the same list
				u.ExtensionCustom = func(v []byte, sel []httphead.Option) ([]httphead.Option, bool) {
					opts, ok := httphead.ParseOptions(append([]byte(nil), v...), nil)
					for i := len(opts) - 1; i >= 0; i-- {
						sel = append(sel, opts[i])
					}
					return sel, ok
				}
			default:
				u.Negotiate = negotiator(cfg.ExtSel)
			}
			if cfg.SrvHdr > 0 {
				u.Header = ws.HandshakeHeaderString("X-Server-Long: " + strings.Repeat("s", cfg.SrvHdr) + "\r\n")
			}
			hs, err := u.Upgrade(sconn)
			srvRes <- sideResult{hs, err}
			if err != nil {
				sconn.Close()
			}
		}()
	}
	d := ws.Dialer{ReadBufferSize: cfg.CRBuf, WriteBufferSize: cfg.CWBuf, Protocols: cfg.Protocols}
	for _, e := range cfg.ExtOffer {
		opts, _ := httphead.ParseOptions([]byte(e), nil)
		d.Extensions = append(d.Extensions, opts...)
	}
	if cfg.Dialer != nil {
		if cfg.Dialer.Extensions == nil && cfg.Dialer.Protocols == nil {
			*cfg.Dialer = d // first use: this is how the application configured it
		}
		d = *cfg.Dialer
	}
	if cfg.CliHdr > 0 {
		d.Header = ws.HandshakeHeaderString("X-Client-Long: " + strings.Repeat("c", cfg.CliHdr) + "\r\n")
	}
	cliRes := make(chan sideResult, 1)
	go func() {
		u, _ := url.ParseRequestURI("ws://pair.example/ws")
		_, hs, err := d.Upgrade(cconn, u)
		cliRes <- sideResult{hs, err}
	}()
	var cr, sr sideResult
	timeout := time.After(60 * time.Second)
	for got := 0; got < 2; got++ {
		select {
		case cr = <-cliRes:
		case sr = <-srvRes:
		case <-timeout:
			cc.Close()
			sc.Close()
			c.Inconclusive("pair stuck for 60 s: " + cfg.String())
			return true
		}
	}
	cc.Close()
	sc.Close()
	det := map[string]interface{}{"config": cfg.String(), "client_err": fmt.Sprint(cr.err), "server_err": fmt.Sprint(sr.err),
		"client_hs": fmt.Sprintf("protocol=%q ext=%v", cr.hs.Protocol, cr.hs.Extensions), "server_hs": fmt.Sprintf("protocol=%q ext=%v", sr.hs.Protocol, sr.hs.Extensions)}
	srvName := "Upgrader"
	if cfg.HTTPServer {
		srvName = "HTTPUpgrader"
	}
	if (cr.err == nil) != (sr.err == nil) {
		c.Fail("pair/"+srvName+"/one-sided", fmt.Sprintf("one peer succeeded and the other failed (client err=%v, server err=%v)", cr.err, sr.err), det)
		return false
	}
	if cr.err == nil {
		if cr.hs.Protocol != sr.hs.Protocol {
			c.Fail("pair/"+srvName+"/protocol", fmt.Sprintf("peers disagree on the subprotocol: client %q server %q", cr.hs.Protocol, sr.hs.Protocol), det)
			return false
		}
		if len(cr.hs.Extensions) != len(sr.hs.Extensions) {
			c.Fail("pair/"+srvName+"/extensions-count", "peers disagree on the number of extensions", det)
			return false
		}
		for i := range cr.hs.Extensions {
			if !cr.hs.Extensions[i].Equal(sr.hs.Extensions[i]) {
				c.Fail("pair/"+srvName+"/extensions", fmt.Sprintf("peers disagree on extension %d: client %s server %s", i, cr.hs.Extensions[i], sr.hs.Extensions[i]), det)
				return false
			}
		}
	}
	if cfg.Out != nil {
		*cfg.Out = fmt.Sprintf("ok=%v protocol=%q extensions=%v", cr.err == nil, cr.hs.Protocol, cr.hs.Extensions)
	}
	c.Classf("pair|%s|ok=%v|p=%d sel=%s|e=%d %s|hdr=%v/%v", srvName, cr.err == nil, len(cfg.Protocols), cfg.ProtoSel, len(cfg.ExtOffer), cfg.ExtSel, cfg.CliHdr > 0, cfg.SrvHdr > 0)
	if c.WantSample() {
		c.Sample(det)
	}
	return true
}

var (
	// the last four: names differing only in letter case, names that are prefixes of each other, token punctuation
	protoLists = [][]string{nil, {"a"}, {"a", "b"}, {"b", "a", "c"}, {"Chat", "chat"}, {"chat", "CHAT", "Chat", "b"}, {"chat", "chat.v2", "cha"}, {"v1.json+x", "v1.json", "C"}}
	protoSels  = []string{"nil", "none", "all", "slice", "exact-last", "exact-second"}
	extOffers  = [][]string{nil, {"permessage-deflate; client_max_window_bits; server_no_context_takeover"}, {"permessage-deflate", "permessage-deflate; server_max_window_bits=10"}, {"x-unknown; p=1", "permessage-deflate; client_no_context_takeover"},
		{"x-a; p=1", "x-bb; q=22; r", "permessage-deflate", "x-cccc; s=\"t u\"", "x-d"}}
	extSels = []string{"nil", "extension-all", "extension-none", "negotiate-accept", "negotiate-decline", "negotiate-error", "negotiate-wsflate", "negotiate-bare", "negotiate-first-param", "negotiate-own-params", "custom-reversed"}
	bufs    = []int{0, 16, 17, 64, 256, 4096}
)

func subPairs() mon.Sub {
	return mon.Sub{
		Name: "pairs", Required: true,
		N: func(t string) int {
			if t == "thorough" {
				return 150000
			}
			return 6000
		},
		Do: func(c *mon.C) {
			i := c.I
			cfg := pairCfg{Protocols: protoLists[i%8], ProtoSel: protoSels[i/8%6], ExtOffer: extOffers[(i/48+i/1920)%len(extOffers)], ExtSel: extSels[i/192%len(extSels)]}
			cfg.CRBuf, cfg.CWBuf = bufs[c.Rng.Intn(len(bufs))], bufs[c.Rng.Intn(len(bufs))]
			cfg.SRBuf, cfg.SWBuf = bufs[c.Rng.Intn(len(bufs))], bufs[c.Rng.Intn(len(bufs))]
			lim := []int{0, 1, 2, 13, -1}
			cfg.CLimit, cfg.SLimit = lim[c.Rng.Intn(len(lim))], lim[c.Rng.Intn(len(lim))]
			hl := func(buf int) int {
				if buf == 0 {
					buf = 4096
				}
				return []int{0, buf - 18, buf - 17, buf - 16, buf - 15, buf - 14, 3 * buf}[c.Rng.Intn(7)]
			}
			if n := hl(cfg.SRBuf); n > 0 {
				cfg.CliHdr = n
			}
			if n := hl(cfg.CRBuf); n > 0 {
				cfg.SrvHdr = n
			}
			cfg.HTTPServer = i%5 == 4
			if i%3 != 0 {
				runPair(c, cfg)
				return
			}
			// one case in three: the application's ONE Dialer value connects twice (a reconnect) to servers configured
			// alike: the same offer is negotiated and the same outcome reached, and the Dialer reads as configured
			var base ws.Dialer
			var out1, out2 string
			cfg.Dialer, cfg.Out = &base, &out1
			if !runPair(c, cfg) || out1 == "" {
				return
			}
			snap := fmt.Sprintf("%q %v", base.Protocols, base.Extensions)
			cfg.Out = &out2
			if !runPair(c, cfg) || out2 == "" {
				return
			}
			det := map[string]interface{}{"config": cfg.String(), "first": out1, "second": out2, "dialer_before": snap, "dialer_after": fmt.Sprintf("%q %v", base.Protocols, base.Extensions)}
			if out1 != out2 {
				c.Fail("pair/reconnect/outcome", "the same Dialer value against a server configured alike reached another outcome the second time: "+out1+" / "+out2, det)
				return
			}
			if now := fmt.Sprintf("%q %v", base.Protocols, base.Extensions); now != snap {
				c.Fail("pair/reconnect/configuration-changed", "the application's Dialer no longer holds what it was configured with: "+now+" / "+snap, det)
			}
		},
	}
}

// ------------------------------------------------- single peer, chunking independence

var hdrWriterKinds = []string{"nil", "string", "bytes", "func", "http-1", "http-many"}

// hdrWriter returns a fresh extra-header writer of the given kind (the caller's
// headers are part of "the bytes written", which may not vary from run to run).
func hdrWriter(kind string) ws.HandshakeHeader {
	switch kind {
	case "string":
		return ws.HandshakeHeaderString("X-Extra: one\r\nX-Other: two\r\n")
	case "bytes":
		return ws.HandshakeHeaderBytes("X-Extra: one\r\nX-Other: two\r\n")
	case "func":
		return ws.HandshakeHeaderFunc(func(w io.Writer) (int64, error) {
			n, err := io.WriteString(w, "X-Extra: one\r\n")
			m, _ := io.WriteString(w, "X-Other: two\r\n")
			return int64(n + m), err
		})
	case "http-1":
		return ws.HandshakeHeaderHTTP(http.Header{"X-Extra": {"one"}})
	case "http-many":
		return ws.HandshakeHeaderHTTP(http.Header{"X-Extra": {"one", "again"}, "Cookie": {"a=b; c=d"}, "Origin": {"http://chunk.example"}, "X-Zeta": {"z"}, "Authorization": {"Bearer abc"}, "X-Alpha": {"a"}, "User-Agent": {"monitor"}})
	}
	return nil
}

var keyRe = regexp.MustCompile(`(?i)Sec-WebSocket-Key: [A-Za-z0-9+/=]{24}`)

func subUpgraderChunking() mon.Sub {
	return mon.Sub{
		Name: "upgrader-chunking", Required: true,
		N: func(t string) int {
			if t == "thorough" {
				return 60000
			}
			return 3000
		},
		Do: func(c *mon.C) {
			choice := map[string]string{}
			for _, f := range gen.ReqFactors {
				if c.Rng.Intn(6) == 0 {
					vs := gen.ReqVariants[f]
					choice[f] = vs[c.Rng.Intn(len(vs))]
				}
			}
			if c.Rng.Intn(2) == 0 {
				choice["extra"] = "long-value"
			}
			req := gen.BuildReq(c.Rng, choice, [][]string{nil, {"a, b"}, {"c", "json"}}[c.Rng.Intn(3)], extOffers[c.Rng.Intn(len(extOffers))])
			// add a header whose line length sits at the read-buffer boundary
			rb := bufs[c.Rng.Intn(len(bufs))]
			eff := rb
			if eff == 0 {
				eff = 4096
			}
			line := eff + []int{-2, -1, 0, 1, 2}[c.Rng.Intn(5)]
			if c.Rng.Intn(3) == 0 {
				line = 3 * eff
			}
			if n := line - len("X-Pad: ") - 2; n > 0 {
				req.Headers = append([]gen.Hdr{{Name: "X-Pad", Value: " " + strings.Repeat("p", n)}}, req.Headers...)
			}
			data := req.Bytes()
			sel := protoSelector("slice")
			type res struct {
				err     string
				hs      string
				written string
			}
			var base *res
			var basePlan string
			hdrKind := hdrWriterKinds[c.I%len(hdrWriterKinds)]
			plans := xport.Plans(c.Rng.Int63(), nil)
			for k := 0; k < 5; k++ {
				c.Count(1)
				plan := plans[(c.I+k*3)%len(plans)]
				u := ws.Upgrader{ReadBufferSize: rb, WriteBufferSize: bufs[(c.I+k)%len(bufs)], Protocol: func(b []byte) bool { return sel(string(b)) }, Negotiate: negotiator("negotiate-accept")}
				u.Header = hdrWriter(hdrKind)
				if k > 0 {
					u.ReadBufferSize = bufs[(c.I+k)%len(bufs)]
				}
				rec := xport.NewRec()
				hs, err := u.Upgrade(xport.RW{Reader: xport.NewChunker(data, plan), Writer: rec})
				r := &res{fmt.Sprint(err), fmt.Sprintf("%q %v", hs.Protocol, hs.Extensions), string(rec.Bytes())}
				if base == nil {
					base, basePlan = r, plan.String()
					continue
				}
				if *r != *base {
					what := "outcome"
					if r.err == base.err && r.hs == base.hs {
						what = "bytes written"
					} else if r.err == base.err {
						what = "handshake data"
					}
					c.Fail("upgrader-chunking/"+what, "the same request gives a different "+what+" under a different chunk plan / buffer size", map[string]interface{}{"request": string(data), "plan_a": basePlan, "plan_b": plan.String(), "rbuf_b": u.ReadBufferSize,
						"a": base, "b": r, "err_a": base.err, "err_b": r.err, "hs_a": base.hs, "hs_b": r.hs})
					return
				}
			}
			c.Classf("upg|%s|%v|line=%d|hdr=%s", req.Verdict.ClassName(), base.err == "<nil>", line-eff, hdrKind)
			c.Sample(map[string]interface{}{"request_len": len(data), "pad_line": line, "read_buf": rb, "outcome": base.err})
		},
	}
}

func subDialerChunking() mon.Sub {
	return mon.Sub{
		Name: "dialer-chunking", Required: true,
		N: func(t string) int {
			if t == "thorough" {
				return 60000
			}
			return 3000
		},
		Do: func(c *mon.C) {
			choice := map[string]string{}
			for _, f := range gen.RespFactors {
				if c.Rng.Intn(6) == 0 {
					vs := gen.RespVariants[f]
					choice[f] = vs[c.Rng.Intn(len(vs))]
				}
			}
			if c.Rng.Intn(2) == 0 {
				choice["extra"] = "long-value"
			}
			rb := bufs[c.Rng.Intn(len(bufs))]
			eff := rb
			if eff == 0 {
				eff = 4096
			}
			pad := eff + []int{-2, -1, 0, 1, 2}[c.Rng.Intn(5)]
			if c.Rng.Intn(3) == 0 {
				pad = 3 * eff
			}
			u, _ := url.ParseRequestURI("ws://chunk.example/x?y=1")
			protos := protoLists[c.Rng.Intn(len(protoLists))]
			offer := extOffers[c.Rng.Intn(len(extOffers))]
			seed := c.Rng.Int63()
			type res struct{ err, hs, req string }
			var base *res
			var basePlan string
			plans := xport.Plans(seed, nil)
			for k := 0; k < 5; k++ {
				c.Count(1)
				plan := plans[(c.I+k*3)%len(plans)]
				d := ws.Dialer{ReadBufferSize: rb, WriteBufferSize: bufs[(c.I+k)%len(bufs)], Protocols: protos}
				d.Header = hdrWriter(hdrWriterKinds[c.I%len(hdrWriterKinds)])
				if k > 0 {
					d.ReadBufferSize = bufs[(c.I+k)%len(bufs)]
				}
				for _, e := range offer {
					opts, _ := httphead.ParseOptions([]byte(e), nil)
					d.Extensions = append(d.Extensions, opts...)
				}
				conn := &fakeconn.Script{Plan: plan}
				conn.Respond = func(written []byte) []byte {
					req, err := http.ReadRequest(bufio.NewReader(bytes.NewReader(written)))
					if err != nil {
						return []byte("HTTP/1.1 400 Bad\r\n\r\n")
					}
					info := gen.ReqInfo{Key: req.Header.Get("Sec-Websocket-Key"), Protocols: protos}
					for _, e := range offer {
						opts, _ := httphead.ParseOptions([]byte(e), nil)
						for _, o := range opts {
							info.Extensions = append(info.Extensions, string(o.Name))
						}
					}
					// the response derivation is the same for every run of this case
					r := gen.BuildResp(newRand(seed), choice, info)
					if n := pad - len("X-Pad: ") - 2; n > 0 {
						r.Headers = append([]gen.Hdr{{Name: "X-Pad", Value: " " + strings.Repeat("p", n)}}, r.Headers...)
					}
					return r.Head()
				}
				_, hs, err := d.Upgrade(conn, u)
				r := &res{fmt.Sprint(err), fmt.Sprintf("%q %v", hs.Protocol, hs.Extensions), keyRe.ReplaceAllString(conn.Written.String(), "Sec-WebSocket-Key: <masked>")}
				if base == nil {
					base, basePlan = r, plan.String()
					continue
				}
				if *r != *base {
					what := "outcome"
					if r.err == base.err && r.hs == base.hs {
						what = "request bytes"
					} else if r.err == base.err {
						what = "handshake data"
					}
					c.Fail("dialer-chunking/"+what, "the same response gives a different "+what+" under a different chunk plan / buffer size", map[string]interface{}{"choice": choice, "plan_a": basePlan, "plan_b": plan.String(), "rbuf_a": rb, "rbuf_b": d.ReadBufferSize,
						"err_a": base.err, "err_b": r.err, "hs_a": base.hs, "hs_b": r.hs, "pad_line": pad})
					return
				}
			}
			c.Classf("dial|%v|pad=%d|%v", base.err == "<nil>", pad-eff, len(choice))
			c.Sample(map[string]interface{}{"choice": choice, "read_buf": rb, "pad_line": pad, "outcome": base.err})
		},
	}
}

// ------------------------------------------------- debug wrappers

func subDebugUpgrader() mon.Sub {
	return mon.Sub{
		Name: "debug-upgrader", Required: true,
		N: func(t string) int {
			if t == "thorough" {
				return 40000
			}
			return 2500
		},
		Do: func(c *mon.C) {
			choice := map[string]string{}
			for _, f := range gen.ReqFactors {
				if c.Rng.Intn(6) == 0 {
					vs := gen.ReqVariants[f]
					choice[f] = vs[c.Rng.Intn(len(vs))]
				}
			}
			if c.I == 0 {
				// fixed case: a version token the upgrader accepts but net/http refuses
				choice = map[string]string{"proto": "HTTP/1.10"}
			}
			req := gen.BuildReq(c.Rng, choice, [][]string{nil, {"a, b"}}[c.Rng.Intn(2)], extOffers[c.Rng.Intn(len(extOffers))])
			if req.Verdict.NoResponseOK || req.Variant["extra"] == "no-colon-line" || req.Variant["extra"] == "empty-name" || req.Variant["method"] != "GET" {
				// DebugUpgrader parses the request with net/http first; requests net/http
				// itself refuses or treats differently (bodies of other methods) are outside what the wrapper documents.
				req = gen.BuildReq(c.Rng, map[string]string{"key": choice["key"], "version": choice["version"], "upgrade": choice["upgrade"]}, nil, nil)
				for k, v := range req.Variant {
					if v == "" {
						delete(req.Variant, k)
					}
				}
			}
			data := req.Bytes()
			sel := protoSelector("slice")
			mk := func() ws.Upgrader {
				return ws.Upgrader{ReadBufferSize: bufs[c.I%len(bufs)], WriteBufferSize: bufs[c.I/7%len(bufs)], Protocol: func(b []byte) bool { return sel(string(b)) }, Negotiate: negotiator("negotiate-accept")}
			}
			plans := xport.Plans(c.Rng.Int63(), nil)
			plan := plans[c.I%len(plans)]
			if c.I == 0 {
				plan = xport.Plan{Kind: "fixed", K: 13}
			}
			// reference run without the wrapper
			rec0 := xport.NewRec()
			hs0, err0 := mk().Upgrade(xport.RW{Reader: xport.NewChunker(data, plan), Writer: rec0})
			for mode := 1; mode <= 3; mode++ {
				c.Count(1)
				var gotReq, gotResp []byte
				reqCalls, respCalls := 0, 0
				d := wsutil.DebugUpgrader{Upgrader: mk()}
				if mode&1 != 0 {
					d.OnRequest = func(p []byte) { reqCalls++; gotReq = append([]byte(nil), p...) }
				}
				if mode&2 != 0 {
					d.OnResponse = func(p []byte) { respCalls++; gotResp = append([]byte(nil), p...) }
				}
				rec := xport.NewRec()
				hs, err := d.Upgrade(xport.RW{Reader: xport.NewChunker(data, plan), Writer: rec})
				det := map[string]interface{}{"request": string(data), "plan": plan.String(), "mode": mode, "err_plain": fmt.Sprint(err0), "err_debug": fmt.Sprint(err), "variants": req.Variant}
				if fmt.Sprint(err) != fmt.Sprint(err0) || hs.Protocol != hs0.Protocol || fmt.Sprint(hs.Extensions) != fmt.Sprint(hs0.Extensions) {
					c.Fail("debug-upgrader/outcome", "DebugUpgrader changes the outcome or the handshake data", det)
					return
				}
				if !bytes.Equal(rec.Bytes(), rec0.Bytes()) {
					c.Fail("debug-upgrader/written", "DebugUpgrader changes the bytes written to the connection", det)
					return
				}
				if mode&1 != 0 && (reqCalls != 1 || !bytes.Equal(gotReq, data)) {
					det["on_request"] = string(gotReq)
					sig := "debug-upgrader/on-request"
					if _, perr := http.ReadRequest(bufio.NewReader(bytes.NewReader(data))); perr != nil {
						// net/http cannot parse this request although the upgrader handles it
						sig = "debug-upgrader/on-request/request-net-http-cannot-parse"
						det["net_http_error"] = perr.Error()
					}
					c.Fail(sig, fmt.Sprintf("OnRequest called %d times with %d bytes; the request has %d", reqCalls, len(gotReq), len(data)), det)
					return
				}
				if mode&2 != 0 && (respCalls != 1 || !bytes.Equal(gotResp, rec.Bytes())) {
					det["on_response"] = string(gotResp)
					c.Fail("debug-upgrader/on-response", "OnResponse bytes differ from the bytes written", det)
					return
				}
			}
			c.Classf("dbgupg|%v|%s", err0 == nil, req.Verdict.ClassName())
			c.Sample(map[string]interface{}{"variants": req.Variant, "outcome": fmt.Sprint(err0)})
		},
	}
}

func subDebugDialer() mon.Sub {
	trail := []int{0, 1, 100, 5000}
	return mon.Sub{
		Name: "debug-dialer", Required: true,
		N: func(t string) int {
			if t == "thorough" {
				return 40000
			}
			return 2500
		},
		Do: func(c *mon.C) {
			choice := map[string]string{}
			kind := c.I % 8
			switch kind {
			case 0, 1, 2, 3: // valid 101
			case 4:
				choice["status"] = []string{"200", "400", "301"}[c.Rng.Intn(3)]
			case 5:
				for _, f := range []string{"upgrade", "connection", "accept", "protocol", "extensions"} {
					if c.Rng.Intn(3) == 0 {
						vs := gen.RespVariants[f]
						choice[f] = vs[c.Rng.Intn(len(vs))]
					}
				}
			case 6:
				choice["eol"] = "lf"
			case 7: // empty or truncated response
			}
			protos := protoLists[c.Rng.Intn(len(protoLists))]
			rb := bufs[c.Rng.Intn(len(bufs))]
			tr := make([]byte, trail[c.Rng.Intn(len(trail))])
			for i := range tr {
				tr[i] = byte(i*13 + 5)
			}
			// what the server sends behind its head is a frame, and frames may hold anything - in particular the octets
			// that end an HTTP head (a text message with an empty line, a length byte 0x0a in front of an LF): every
			// other case plants LF LF, CRLF CRLF or CR LF LF near the start of the trailing bytes
			if len(tr) >= 100 && c.Rng.Intn(2) == 0 {
				pat := [][]byte{[]byte("\n\n"), []byte("\r\n\r\n"), []byte("\r\n\n"), []byte("a\n\nb\r\n\r\nc")}[c.Rng.Intn(4)]
				copy(tr[2+c.Rng.Intn(40):], pat)
			}
			body := ""
			if kind == 4 {
				body = strings.Repeat("error body ", c.Rng.Intn(20))
				if c.Rng.Intn(3) == 0 {
					body = strings.Repeat("a longer error page. ", 30+c.Rng.Intn(300)) // beyond the usual buffer sizes
				}
			}
			seed := c.Rng.Int63()
			cut := -1
			if kind == 7 {
				cut = c.Rng.Intn(40)
			}
			var headSent, reqSeen []byte
			// one case in five runs over wss:// : the library's own TLS client against a crypto/tls server on an
			// in-memory duplex. What the callbacks must see is the HTTP exchange, not the TLS records around it.
			useTLS := c.I%5 == 4 && kind != 7
			target := "ws://dbg.example/p"
			if useTLS {
				target = "wss://dbg.example/p"
			}
			mkTLSConn := func() net.Conn {
				cc, sc := fakeconn.BufPipe()
				done := make(chan struct{})
				go func() {
					defer close(done)
					defer sc.Close()
					srv := tls.Server(sc, &tls.Config{Certificates: []tls.Certificate{tlsx.SelfSigned()}})
					if srv.Handshake() != nil {
						return
					}
					var raw bytes.Buffer
					req, err := http.ReadRequest(bufio.NewReader(io.TeeReader(srv, &raw)))
					reqSeen = append([]byte(nil), raw.Bytes()...)
					if err != nil {
						return
					}
					r := gen.BuildResp(newRand(seed), choice, gen.ReqInfo{Key: req.Header.Get("Sec-Websocket-Key"), Protocols: protos})
					if kind == 4 {
						r.Headers = append(r.Headers, gen.Hdr{Name: "Content-Length", Value: fmt.Sprintf(" %d", len(body))})
					}
					headSent = append(append([]byte(nil), r.Head()...), body...)
					srv.Write(append(append([]byte(nil), headSent...), tr...))
					srv.Close()
				}()
				return &joinConn{Conn: cc, done: done}
			}
			var mkScript func(plan xport.Plan) *fakeconn.Script
			mkConn := func(plan xport.Plan) net.Conn {
				if useTLS {
					return mkTLSConn()
				}
				return mkScript(plan)
			}
			mkScript = func(plan xport.Plan) *fakeconn.Script {
				conn := &fakeconn.Script{Plan: plan}
				conn.Respond = func(written []byte) []byte {
					reqSeen = append([]byte(nil), written...)
					req, err := http.ReadRequest(bufio.NewReader(bytes.NewReader(written)))
					if err != nil {
						return nil
					}
					r := gen.BuildResp(newRand(seed), choice, gen.ReqInfo{Key: req.Header.Get("Sec-Websocket-Key"), Protocols: protos})
					if kind == 4 {
						r.Headers = append(r.Headers, gen.Hdr{Name: "Content-Length", Value: fmt.Sprintf(" %d", len(body))})
					}
					head := r.Head()
					headSent = append(append([]byte(nil), head...), body...)
					out := append(append([]byte(nil), headSent...), tr...)
					if cut >= 0 && cut < len(out) {
						out = out[:cut]
						headSent = out
					}
					return out
				}
				return conn
			}
			plans := xport.Plans(c.Rng.Int63(), nil)
			plan := plans[c.I%len(plans)]
			var cur net.Conn // the connection the next NetDial call hands out
			// half of the cases: the application looks at rejections itself (OnStatusError reads the response the
			// dialer hands it to the end) and at every response header (OnHeader); what they see is part of the outcome
			withCallbacks := c.I/8%2 == 0
			var seen []string
			mkDialer := func(conn net.Conn) ws.Dialer {
				cur = conn
				d := ws.Dialer{ReadBufferSize: rb, Protocols: protos, TLSConfig: &tls.Config{InsecureSkipVerify: true}, NetDial: func(ctx context.Context, n, a string) (net.Conn, error) { return cur, nil }}
				if withCallbacks {
					d.OnStatusError = func(status int, reason []byte, resp io.Reader) {
						why := string(reason) // (taken first: reading resp refills the buffer the reason points into)
						b, err := io.ReadAll(resp)
						b = acceptRe.ReplaceAll(b, []byte("Sec-WebSocket-Accept: <per-dial>")) // (follows the nonce of each dial)
						seen = append(seen, fmt.Sprintf("status-error %d %q: %d bytes fnv=%08x err=%v", status, why, len(b), fnv32(b), err))
					}
					d.OnHeader = func(k, v []byte) error {
						seen = append(seen, fmt.Sprintf("header %s=%d bytes", k, len(v)))
						return nil
					}
				}
				return d
			}
			// reference: plain dialer
			conn0 := mkConn(plan)
			nc0, _, hs0, err0 := mkDialer(conn0).Dial(context.Background(), target)
			if nc0 != nil {
				nc0.Close()
			}
			seen0 := strings.Join(seen, "; ")
			if jc, ok := conn0.(*joinConn); ok {
				jc.Close()
				<-jc.done
			}
			// Each DebugDialer value is used for three dials in a row (a reconnect loop):
			// every dial must behave like the first. Half of the cases carry the
			// application's own WrapConn, which must see every connection exactly once.
			userWrap := c.Rng.Intn(2) == 0
			for mode := 1; mode <= 3; mode++ {
				var gotReq, gotResp []byte
				reqCalls, respCalls, wrapCalls := 0, 0, 0
				dd := wsutil.DebugDialer{Dialer: mkDialer(nil)}
				if userWrap {
					dd.Dialer.WrapConn = func(nc net.Conn) net.Conn { wrapCalls++; return nc }
				}
				if mode&1 != 0 {
					dd.OnRequest = func(p []byte) { reqCalls++; gotReq = append([]byte(nil), p...) }
				}
				if mode&2 != 0 {
					dd.OnResponse = func(p []byte) { respCalls++; gotResp = append([]byte(nil), p...) }
				}
				for round := 0; round < 3; round++ {
					c.Count(1)
					conn := mkConn(plan)
					cur = conn
					gotReq, gotResp, reqCalls, respCalls, wrapCalls = nil, nil, 0, 0, 0
					seen = nil
					det := map[string]interface{}{"callbacks": withCallbacks, "choice": choice, "kind": kind, "plan": plan.String(), "mode": mode, "dial_number_on_this_DebugDialer": round + 1, "user_wrapconn": userWrap, "tls": useTLS, "read_buf": rb, "trailing": len(tr), "cut": cut, "err_plain": fmt.Sprint(err0)}
					sigKind := []string{"valid", "valid", "valid", "valid", "non101", "invalid101", "lf-only", "truncated"}[kind]
					if round > 0 {
						sigKind += "/redial"
					}
					var nc net.Conn
					var br *bufio.Reader
					var hs ws.Handshake
					var err error
					panicked := func() (p interface{}) {
						defer func() { p = recover() }()
						nc, br, hs, err = dd.Dial(context.Background(), target)
						return nil
					}()
					if jc, ok := conn.(*joinConn); ok && (err != nil || panicked != nil) {
						jc.Close() // a failed dial: let the TLS server goroutine end before its records are compared
						<-jc.done
					} else if ok {
						// the server writes the whole response and closes on its own
						<-jc.done
					}
					det["response_sent"] = string(headSent)
					if panicked != nil {
						det["panic"] = fmt.Sprint(panicked)
						c.Fail("debug-dialer/panic/"+sigKind, fmt.Sprintf("DebugDialer.Dial panics: %v", panicked), det)
						return
					}
					det["err_debug"] = fmt.Sprint(err)
					if fmt.Sprint(err) != fmt.Sprint(err0) || hs.Protocol != hs0.Protocol || fmt.Sprint(hs.Extensions) != fmt.Sprint(hs0.Extensions) {
						c.Fail("debug-dialer/outcome/"+sigKind, "DebugDialer changes the outcome or the handshake data", det)
						return
					}
					if got := strings.Join(seen, "; "); got != seen0 {
						det["callbacks_plain"], det["callbacks_debug"] = seen0, got
						c.Fail("debug-dialer/callbacks/"+sigKind, "the dialer's OnStatusError / OnHeader callbacks see something else through the DebugDialer than through the plain dialer", det)
						return
					}
					if mode&1 != 0 && (reqCalls != 1 || !bytes.Equal(gotReq, reqSeen)) {
						c.Fail("debug-dialer/on-request/"+sigKind, "OnRequest bytes differ from the bytes written to the connection", det)
						return
					}
					if mode&2 != 0 {
						det["on_response"] = string(gotResp)
						if respCalls != 1 || !bytes.Equal(gotResp, headSent) {
							if _, perr := http.ReadResponse(bufio.NewReader(bytes.NewReader(headSent)), nil); perr != nil && len(headSent) > 0 && cut < 0 {
								// net/http cannot parse this (complete) response although the dialer itself handles it
								det["net_http_error"] = perr.Error()
								sigKind = "response-net-http-cannot-parse"
							}
							c.Fail("debug-dialer/on-response/"+sigKind, fmt.Sprintf("OnResponse got %d bytes, the response (head + Content-Length body) has %d", len(gotResp), len(headSent)), det)
							return
						}
					}
					if err == nil {
						var got []byte
						if br != nil {
							p := make([]byte, br.Buffered())
							io.ReadFull(br, p)
							got = append(got, p...)
						}
						rest, _ := io.ReadAll(nc)
						got = append(got, rest...)
						if !bytes.Equal(got, tr) {
							det["got_len"] = len(got)
							c.Fail("debug-dialer/post-handshake-bytes/"+sigKind, fmt.Sprintf("post-handshake bytes not preserved: got %d bytes, sent %d", len(got), len(tr)), det)
							return
						}
					}
					if userWrap && wrapCalls != 1 || (dd.Dialer.WrapConn != nil) != userWrap {
						c.Fail("debug-dialer/wrapconn/"+sigKind, fmt.Sprintf("the application's Dialer.WrapConn was called %d times (want 1 when set) / set after Dial: %v (was set: %v)", wrapCalls, dd.Dialer.WrapConn != nil, userWrap), det)
						return
					}
				}
			}
			c.Classf("dbgdial|kind=%d|ok=%v|trail=%d|rb=%d|tls=%v", kind, err0 == nil, len(tr), rb, useTLS)
			c.Sample(map[string]interface{}{"kind": kind, "choice": choice, "outcome": fmt.Sprint(err0), "trailing": len(tr)})
		},
	}
}

var acceptRe = regexp.MustCompile(`(?i)Sec-WebSocket-Accept:[^\r\n]*`)

func fnv32(p []byte) uint32 {
	h := uint32(2166136261)
	for _, b := range p {
		h = (h ^ uint32(b)) * 16777619
	}
	return h
}

// joinConn is the client end of an in-memory connection to a TLS server goroutine.
type joinConn struct {
	net.Conn
	done chan struct{}
}

func main() {
	_ = ref.Accept
	mon.Main(&mon.Spec{
		Property: "C11",
		Level:    "exploration",
		Rule: "(pair) library dialer <-> library upgrader (ws.Upgrader, and ws.HTTPUpgrader behind net/http) over an in-memory duplex, two goroutines, configurations = 8 protocol lists (incl. names differing only in case, prefixes of each other) x 6 selectors (incl. exactly the last / second offered name) x 5 extension offers x 10 extension selectors/negotiators (incl. servers answering with the bare name, with the offer's first parameter only, with parameters of their own) x I/O buffer sizes {0,16,17,64,256,4096} on each side x read limiters {none,1,2,13,random} x extra header lines of length buf-2..buf+2 and 3*buf: both succeed with equal protocol/extensions or both fail. " +
			"(single peer) the same request / response derivation run under 5 chunk plans and buffer sizes must give identical outcome, handshake data and bytes written (dialer requests compared with the random key masked). (debug wrappers) DebugUpgrader / DebugDialer with each callback combination vs the unwrapped run: same outcome and data, callbacks get exactly the bytes exchanged, post-handshake bytes preserved, each DebugDialer value used for three dials in a row with and without an application WrapConn, one case in five over wss:// (the library's TLS client against a crypto/tls server on an in-memory duplex: the callbacks must see the HTTP exchange, not TLS records); responses: valid 101 with trailing frames {0,1,100,5000}, non-101 with bodies, invalid 101, LF-only, empty/truncated. distinct = configuration classes.",
		Assumptions: []string{"a pair stuck for 60 s is inconclusive, not a violation", "requests that net/http itself refuses are not sent through DebugUpgrader"},
		Subs:        []mon.Sub{subPairs(), subUpgraderChunking(), subDialerChunking(), subDebugUpgrader(), subDebugDialer(), subDebugWriteFault()},
	})
}
