package main

import (
	"bytes"
	"context"
	"fmt"
	"io"
	"net"
	"strings"
	"time"

	"github.com/gobwas/ws"
	"github.com/gobwas/ws/wsutil"

	"verifharness/mon"
	"verifharness/xport"
)

// subDebugWriteFault: "the debugging wrappers ... report exactly the request and response bytes exchanged". The
// transport refuses a whole chunk of the request (the peer is already gone) - the first one, or with a small write
// buffer and a long header a later one: what OnRequest reports, if it is called, is what the transport TOOK, and
// the dial fails like the plain dialer's.
type refusingConn struct {
	taken   bytes.Buffer
	calls   int
	failAt  int
	err     error
	closed  bool
	partial int
}

func (r *refusingConn) Write(p []byte) (int, error) {
	r.calls++
	if r.calls-1 >= r.failAt {
		n := min(r.partial, len(p))
		r.taken.Write(p[:n])
		r.partial = 0
		return n, r.err
	}
	return r.taken.Write(p)
}
func (r *refusingConn) Read(p []byte) (int, error)       { return 0, io.EOF }
func (r *refusingConn) Close() error                     { r.closed = true; return nil }
func (r *refusingConn) LocalAddr() net.Addr              { return &net.TCPAddr{} }
func (r *refusingConn) RemoteAddr() net.Addr             { return &net.TCPAddr{} }
func (r *refusingConn) SetDeadline(time.Time) error      { return nil }
func (r *refusingConn) SetReadDeadline(time.Time) error  { return nil }
func (r *refusingConn) SetWriteDeadline(time.Time) error { return nil }

func subDebugWriteFault() mon.Sub {
	return mon.Sub{
		Name: "debug-dialer-write-fault", Required: true,
		N: func(t string) int {
			if t == "thorough" {
				return 4000
			}
			return 200
		},
		Do: func(c *mon.C) {
			wbuf := []int{0, 64, 128, 300}[c.I%4]
			failAt := c.I / 4 % 4
			kind := xport.FaultKinds[c.Rng.Intn(len(xport.FaultKinds))]
			hdr := ws.HandshakeHeaderString("X-Long: " + strings.Repeat("h", 50+c.Rng.Intn(400)) + "\r\n")
			mk := func() (*refusingConn, ws.Dialer) {
				rc := &refusingConn{failAt: failAt, err: kind.Err}
				if c.I%3 == 2 {
					rc.partial = 1 + c.I%40
				}
				return rc, ws.Dialer{WriteBufferSize: wbuf, Header: hdr, NetDial: func(ctx context.Context, n, a string) (net.Conn, error) { return rc, nil }}
			}
			// the plain dialer
			rc0, d0 := mk()
			_, _, _, err0 := d0.Dial(context.Background(), "ws://fault.example/x")
			// through the debugging wrapper
			rc, d := mk()
			var reported []byte
			calls := 0
			dd := wsutil.DebugDialer{Dialer: d, OnRequest: func(p []byte) { calls++; reported = append([]byte(nil), p...) }, OnResponse: func([]byte) {}}
			c.Count(1)
			_, _, _, err := dd.Dial(context.Background(), "ws://fault.example/x")
			det := map[string]interface{}{"write_buffer": wbuf, "refused_from_write_call": failAt, "fault": kind.Name, "partial": c.I%3 == 2, "plain_err": fmt.Sprint(err0), "debug_err": fmt.Sprint(err),
				"transport_took": rc.taken.Len(), "on_request_calls": calls, "on_request_bytes": len(reported), "plain_transport_took": rc0.taken.Len()}
			if (err == nil) != (err0 == nil) {
				c.Fail("debug-write-fault/outcome", "the DebugDialer changes the outcome of a dial whose request the transport refuses", det)
				return
			}
			// (the Sec-WebSocket-Key differs from dial to dial: lengths are compared between the two dials, bytes within one)
			if rc.taken.Len() != rc0.taken.Len() {
				c.Fail("debug-write-fault/bytes-sent", "through the DebugDialer the transport took another number of request bytes than from the plain dialer", det)
				return
			}
			if calls > 1 || (calls == 1 && !bytes.Equal(reported, rc.taken.Bytes())) {
				c.Fail("debug-write-fault/on-request", fmt.Sprintf("OnRequest reports %d request bytes; the transport took %d before it refused", len(reported), rc.taken.Len()), det)
				return
			}
			c.Classf("debug-write-fault|wbuf=%d|failAt=%d|calls=%d", wbuf, failAt, calls)
		},
	}
}
