package main

import (
	"bytes"
	"fmt"
	"sync"

	"github.com/gobwas/ws/wsutil"

	"verifharness/mon"
	"verifharness/ref"
)

// subCopiedWriter: a CipherWriter / CipherReader is a small value; an application may copy one that is already in use
// (a per-connection template: `w := *tmpl; w.Reset(conn, key)`) and then use copy and original for two connections
// at the same time. Each of them masks ITS payload with ITS key at ITS offset - they share nothing. The writes
// overlap deterministically (the original is parked inside its destination's Write while the copy writes) and then
// race freely under the race detector.
type gateW struct {
	mu      sync.Mutex
	buf     bytes.Buffer
	entered chan struct{}
	release chan struct{}
	once    sync.Once
}

func (g *gateW) Write(p []byte) (int, error) {
	if g.entered != nil {
		g.once.Do(func() { close(g.entered) })
		<-g.release
	}
	g.mu.Lock()
	defer g.mu.Unlock()
	return g.buf.Write(p)
}

func subCopiedWriter() mon.Sub {
	sizes := []int{5, 64, 125, 126, 300, 4096, 70000}
	return mon.Sub{
		Name: "copied-writer", Required: true,
		N: func(t string) int {
			if t == "thorough" {
				return len(sizes) * 40
			}
			return len(sizes) * 3
		},
		Do: func(c *mon.C) {
			n := sizes[c.I%len(sizes)]
			keyA, keyB := keyOf(c, 3), keyOf(c, 3)
			pa, pb := make([]byte, n), make([]byte, n)
			c.Rng.Read(pa)
			c.Rng.Read(pb)
			warm := make([]byte, 1+c.Rng.Intn(200))
			var warmDst bytes.Buffer
			a := wsutil.NewCipherWriter(&warmDst, keyA)
			a.Write(warm)
			b := *a // the copy, taken from a writer that has already written
			dstB := &gateW{}
			b.Reset(dstB, keyB)
			dstA := &gateW{entered: make(chan struct{}), release: make(chan struct{})}
			a.Reset(dstA, keyA)
			done := make(chan error, 1)
			go func() { _, err := a.Write(pa); done <- err }()
			<-dstA.entered // the original is inside its destination's Write ...
			c.Count(2)
			_, errB := b.Write(pb) // ... while the copy writes to ITS destination
			close(dstA.release)
			errA := <-done
			det := map[string]interface{}{"size": n, "warm_up": len(warm)}
			if errA != nil || errB != nil {
				c.Fail("copied-writer/error", fmt.Sprintf("Write failed: %v / %v", errA, errB), det)
				return
			}
			if want := ref.Mask(append([]byte(nil), pa...), keyA, 0); !bytes.Equal(dstA.buf.Bytes(), want) {
				c.Fail("copied-writer/original", fmt.Sprintf("the original writer's destination did not receive its payload XOR its key (first difference at %d) after a COPY of the writer wrote to another destination meanwhile", firstDiffIdx(dstA.buf.Bytes(), want)), det)
				return
			}
			if want := ref.Mask(append([]byte(nil), pb...), keyB, 0); !bytes.Equal(dstB.buf.Bytes(), want) {
				c.Fail("copied-writer/copy", fmt.Sprintf("the copied writer's destination did not receive its payload XOR its key (first difference at %d)", firstDiffIdx(dstB.buf.Bytes(), want)), det)
				return
			}
			// free-running: original and copy write at once, 20 rounds (the race detector watches)
			var wg sync.WaitGroup
			var da, db bytes.Buffer
			a.Reset(&da, keyA)
			b.Reset(&db, keyB)
			for _, w := range []struct {
				w *wsutil.CipherWriter
				p []byte
			}{{a, pa}, {&b, pb}} {
				wg.Add(1)
				go func(w *wsutil.CipherWriter, p []byte) {
					defer wg.Done()
					for r := 0; r < 20; r++ {
						w.Write(p)
					}
				}(w.w, w.p)
			}
			wg.Wait()
			wantA := ref.Mask(bytes.Repeat(pa, 20), keyA, 0)
			wantB := ref.Mask(bytes.Repeat(pb, 20), keyB, 0)
			if !bytes.Equal(da.Bytes(), wantA) || !bytes.Equal(db.Bytes(), wantB) {
				c.Fail("copied-writer/parallel", "original and copy writing at the same time: a destination received other bytes than its payload XOR its key", det)
				return
			}
			c.Classf("copied-writer|%d", n)
		},
	}
}
