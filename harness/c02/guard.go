package main

import (
	"bytes"
	"fmt"
	"io"
	"os"
	"runtime/debug"
	"sync"
	"syscall"

	"github.com/gobwas/ws"
	"github.com/gobwas/ws/wsutil"

	"verifharness/mon"
	"verifharness/ref"
	"verifharness/xport"
)

// A guard page, the classic sanitizer device: the payload is laid so that it ENDS exactly where a page the
// process may read but not write begins. The slice's spare capacity reaches into that page (cap > len, as for any
// message cut out of a larger buffer), so a masking routine that stores to anything behind payload[len-1] - even
// the very bytes it loaded from there, which no comparison afterwards could see - takes a fault. The fault is turned
// into a panic of the calling goroutine (debug.SetPanicOnFault) and reported.

type guarded struct {
	mem  []byte
	page int
}

func newGuarded() (*guarded, error) {
	ps := syscall.Getpagesize()
	mem, err := syscall.Mmap(-1, 0, 3*ps, syscall.PROT_READ|syscall.PROT_WRITE, syscall.MAP_ANON|syscall.MAP_PRIVATE)
	if err != nil {
		return nil, err
	}
	for i := range mem {
		mem[i] = byte(0x5A ^ i)
	}
	if err := syscall.Mprotect(mem[2*ps:], syscall.PROT_READ); err != nil {
		syscall.Munmap(mem)
		return nil, err
	}
	return &guarded{mem: mem, page: ps}, nil
}

// slice returns n writable bytes that end at the read-only page; cap = n + page size.
func (g *guarded) slice(n int) []byte { return g.mem[2*g.page-n : 2*g.page] }

func (g *guarded) tailIntact() bool {
	for i := 2 * g.page; i < 3*g.page; i++ {
		if g.mem[i] != byte(0x5A^i) {
			return false
		}
	}
	return true
}

func (g *guarded) free() { syscall.Munmap(g.mem) }

// faulting runs f and reports the fault (or panic) it ended with.
func faulting(f func()) (fault string) {
	old := debug.SetPanicOnFault(true)
	defer debug.SetPanicOnFault(old)
	defer func() {
		if p := recover(); p != nil {
			fault = fmt.Sprint(p)
		}
	}()
	f()
	return ""
}

func subGuardPage() mon.Sub {
	return mon.Sub{
		Name: "guard-page", Exhaustive: true, Required: true,
		N: func(string) int { return 8 * 4 },
		Do: func(c *mon.C) {
			g, err := newGuarded()
			if err != nil {
				c.Inconclusive("no guard page: " + err.Error())
				return
			}
			defer g.free()
			off := c.I % 8
			var key [4]byte
			switch c.I / 8 {
			case 0:
				key = [4]byte{1, 2, 3, 4}
			case 1:
				key = [4]byte{0xff, 0xff, 0xff, 0xff}
			case 2: // the all-zero key: XOR is the identity, nothing needs to be stored at all
			default:
				c.Rng.Read(key[:])
			}
			lens := []int{}
			for n := 0; n <= 200; n++ {
				lens = append(lens, n)
			}
			lens = append(lens, 255, 256, 257, 1000, 4095)
			for _, n := range lens {
				data := make([]byte, n)
				c.Rng.Read(data)
				want := ref.Mask(data, key, off)
				det := map[string]interface{}{"len": n, "offset": off, "key": fmt.Sprintf("%x", key)}
				apis := map[string]func(p []byte){
					"ws.Cipher": func(p []byte) { ws.Cipher(p, key, off) },
				}
				if off == 0 {
					apis["ws.MaskFrameInPlaceWith"] = func(p []byte) { ws.MaskFrameInPlaceWith(ws.NewBinaryFrame(p), key) }
					apis["ws.UnmaskFrameInPlace"] = func(p []byte) {
						f := ws.NewBinaryFrame(p)
						f.Header.Masked, f.Header.Mask = true, key
						ws.UnmaskFrameInPlace(f)
					}
					apis["wsutil.CipherReader.Read"] = func(p []byte) {
						// the caller's read buffer ends at the guard page; the source has exactly len(p) bytes
						src := append([]byte(nil), p...)
						io.ReadFull(wsutil.NewCipherReader(bytes.NewReader(src), key), p)
					}
				}
				for name, call := range apis {
					c.Count(1)
					p := g.slice(n)
					copy(p, data)
					if f := faulting(func() { call(p) }); f != "" {
						det["fault"] = f
						c.Fail("guard-page/"+name, fmt.Sprintf("%s on a %d-byte slice whose spare capacity is read-only memory took a fault: it stores to bytes behind the slice", name, n), det)
						return
					}
					if !bytes.Equal(p, want) {
						c.Fail("guard-page/bytes/"+name, fmt.Sprintf("%s: result differs from payload[i]^key[(offset+i)%%4]", name), det)
						return
					}
				}
				if !g.tailIntact() {
					c.Fail("guard-page/tail", "the bytes behind the slice changed", det)
					return
				}
				// the variants documented as COPYING get the caller's payload in read-only memory: they never store to it
				if off == 0 && n > 0 {
					ro, free, err := xport.ReadOnly(data)
					if err != nil {
						c.Inconclusive("no read-only mapping: " + err.Error())
						return
					}
					copying := map[string]func() []byte{
						"ws.MaskFrameWith": func() []byte { return ws.MaskFrameWith(ws.NewBinaryFrame(ro), key).Payload },
						"ws.MaskFrame":     func() []byte { f := ws.MaskFrame(ws.NewBinaryFrame(ro)); return ref.Mask(f.Payload, f.Header.Mask, 0) },
						"ws.UnmaskFrame": func() []byte {
							f := ws.NewBinaryFrame(ro)
							f.Header.Masked, f.Header.Mask = true, key
							return ws.UnmaskFrame(f).Payload
						},
						"wsutil.CipherWriter.Write": func() []byte {
							var b bytes.Buffer
							wsutil.NewCipherWriter(&b, key).Write(ro)
							return b.Bytes()
						},
					}
					for name, call := range copying {
						c.Count(1)
						var out []byte
						if f := faulting(func() { out = call() }); f != "" {
							det["fault"] = f
							free()
							c.Fail("read-only-input/"+name, fmt.Sprintf("%s on a %d-byte payload in read-only memory took a fault: it stores to the caller's bytes", name, n), det)
							return
						}
						wantOut := want
						if name == "ws.MaskFrame" {
							wantOut = data // (unmasked again with the key the helper chose)
						}
						if !bytes.Equal(out, wantOut) {
							free()
							c.Fail("read-only-input/bytes/"+name, name+": result differs from the XOR of the payload with the key", det)
							return
						}
					}
					free()
				}
			}
			c.Classf("offset=%d key=%d", off, c.I/8)
			c.Sample(map[string]interface{}{"offset": off, "key": fmt.Sprintf("%x", key), "lengths": len(lens), "page_size": g.page})
		},
	}
}

// subAdjacent: two goroutines mask the two consecutive chunks [0:split) and [split:n) of ONE buffer at the same time
// (a worker per chunk, running offset carried over): the buffer afterwards is what one call makes of it. A routine that
// rewrites bytes of its neighbour - unchanged - loses the neighbour's update; under the race detector (this monitor is
// built with -race) the overlapping stores are reported as a data race as well.
func subAdjacent() mon.Sub {
	return mon.Sub{
		Name: "adjacent-chunks-parallel", Required: true,
		N: func(t string) int {
			if t == "thorough" {
				return 4000
			}
			return 200
		},
		Do: func(c *mon.C) {
			n := 16 + c.Rng.Intn(200)
			split := 8 + c.Rng.Intn(n-8)
			var key [4]byte
			c.Rng.Read(key[:])
			data := make([]byte, n)
			c.Rng.Read(data)
			want := ref.Mask(data, key, 0)
			for round := 0; round < 200; round++ {
				c.Count(1)
				buf := append([]byte(nil), data...)
				var wg sync.WaitGroup
				start := make(chan struct{})
				wg.Add(2)
				go func() { defer wg.Done(); <-start; ws.Cipher(buf[:split], key, 0) }()
				go func() { defer wg.Done(); <-start; ws.Cipher(buf[split:], key, split) }()
				close(start)
				wg.Wait()
				if !bytes.Equal(buf, want) {
					c.Fail("adjacent/bytes", fmt.Sprintf("two workers masking [0:%d) and [%d:%d) of one buffer at once: the result differs from one call over the whole buffer (round %d)", split, split, n, round),
						map[string]interface{}{"len": n, "split": split, "key": fmt.Sprintf("%x", key), "first_diff": firstDiffIdx(buf, want)})
					return
				}
			}
			c.Classf("split%%16=%d tail%%16=%d", split%16, (n-split)%16)
		},
	}
}

func firstDiffIdx(a, b []byte) int {
	for i := range a {
		if i >= len(b) || a[i] != b[i] {
			return i
		}
	}
	return -1
}

// subLongStream: ONE CipherReader and ONE CipherWriter carry a single stream of more than 2 GiB (a legal frame payload:
// lengths go up to 2^63-1), fed from / drained into synthetic ends that hold no payload in memory; the first and last
// 64 bytes of every chunk are compared with payload[i] XOR key[i mod 4] at their absolute stream position. Offsets
// beyond 2^31 are where a running position kept in a narrower type, or folded back with the wrong modulus, goes wrong.
type synthSrc struct{ pos int64 }

func synthByte(i int64) byte { return byte(i*131 + i>>9*17 + 7) }

func (s *synthSrc) Read(p []byte) (int, error) {
	// (only the sampled borders need their true values; the middle is left as it is)
	for k := 0; k < len(p) && k < 64; k++ {
		p[k] = synthByte(s.pos + int64(k))
	}
	for k := len(p) - 64; k < len(p); k++ {
		if k >= 0 {
			p[k] = synthByte(s.pos + int64(k))
		}
	}
	s.pos += int64(len(p))
	return len(p), nil
}

type synthSink struct {
	pos int64
	key [4]byte
	bad string
}

func (s *synthSink) Write(p []byte) (int, error) {
	check := func(k int) {
		i := s.pos + int64(k)
		if want := synthByte(i) ^ s.key[i%4]; p[k] != want && s.bad == "" {
			s.bad = fmt.Sprintf("stream position %d: got %#02x, want %#02x (plain %#02x XOR key[%d])", i, p[k], want, synthByte(i), i%4)
		}
	}
	for k := 0; k < len(p) && k < 64; k++ {
		check(k)
	}
	for k := len(p) - 64; k < len(p); k++ {
		if k >= 64 {
			check(k)
		}
	}
	s.pos += int64(len(p))
	return len(p), nil
}

func subLongStream() mon.Sub {
	return mon.Sub{
		Name: "long-stream", Required: true,
		// (2 GiB through the race-instrumented cipher take about 25 s: the quick tier carries the reader's stream, the
		// thorough tier the writer's as well)
		N: func(t string) int {
			if os.Getenv("VERIF_PUREGO") != "" {
				return 0 // (the pass against the purego build leaves the 2 GiB streams to the main pass)
			}
			if t == "thorough" {
				return 2
			}
			return 1
		},
		Do: func(c *mon.C) {
			key := [4]byte{0x1b, 0x2c, 0x3d, 0x4e}
			const total = int64(1)<<31 + 6<<20
			chunk := []int{1<<20 + 3, 1<<16 - 5}[c.I%2]
			c.Count(1)
			if c.I == 0 {
				src := &synthSrc{}
				cr := wsutil.NewCipherReader(src, key)
				p := make([]byte, chunk)
				for pos := int64(0); pos < total; {
					n, err := cr.Read(p)
					if err != nil || n != len(p) {
						c.Fail("long-stream/reader/read", fmt.Sprintf("Read at stream position %d returned (%d, %v)", pos, n, err), nil)
						return
					}
					for _, k := range []int{0, 1, 2, 3, 5, 63, n - 64, n - 3, n - 2, n - 1} {
						i := pos + int64(k)
						if want := synthByte(i) ^ key[i%4]; p[k] != want {
							c.Fail("long-stream/reader/bytes", fmt.Sprintf("CipherReader at stream position %d (2^31 = 2147483648): got %#02x, want plain %#02x XOR key[%d] = %#02x", i, p[k], synthByte(i), i%4, want), map[string]interface{}{"chunk": chunk})
							return
						}
					}
					pos += int64(n)
				}
			} else {
				sink := &synthSink{key: key}
				cw := wsutil.NewCipherWriter(sink, key)
				src := &synthSrc{}
				p := make([]byte, chunk)
				for pos := int64(0); pos < total; pos += int64(chunk) {
					src.Read(p)
					if n, err := cw.Write(p); err != nil || n != len(p) {
						c.Fail("long-stream/writer/write", fmt.Sprintf("Write at stream position %d returned (%d, %v)", pos, n, err), nil)
						return
					}
					if sink.bad != "" {
						c.Fail("long-stream/writer/bytes", "CipherWriter: "+sink.bad, map[string]interface{}{"chunk": chunk})
						return
					}
				}
			}
			c.Classf("long-stream|%d|chunk=%d", c.I, chunk)
			c.Sample(map[string]interface{}{"bytes_through_one_cipher": total, "chunk": chunk, "which": []string{"CipherReader", "CipherWriter"}[c.I]})
		},
	}
}
