// C02 — payload masking equals the RFC 6455 §5.3 XOR for any offset and chunking.
package main

import (
	"bytes"
	"fmt"
	"io"
	"strconv"
	"strings"

	"github.com/gobwas/ws"
	"github.com/gobwas/ws/wsutil"

	"verifharness/drive"
	"verifharness/mon"
	"verifharness/ref"
	"verifharness/xport"
)

var lengths = func() []int {
	var l []int
	for i := 0; i <= 96; i++ {
		l = append(l, i)
	}
	return append(l, 127, 128, 129, 255, 256, 257, 1000, 4095, 4096, 4097, 65539)
}()

// largeLengths straddle the bytes pool's top size class (64 KiB) and its
// multiples, where an implementation may switch to piecewise processing.
var largeLengths = []int{65535, 65536, 65537, 65539, 70001, 131070, 131071, 131072, 131073, 196607, 196609, 200003, 262144, 262147}

// pickLen draws a payload length: mostly the small table, one case in eight a
// large one handed over in few big calls.
func pickLen(c *mon.C) (n int, large bool) {
	if c.Rng.Intn(8) == 0 {
		n = largeLengths[c.Rng.Intn(len(largeLengths))]
		if c.Rng.Intn(3) == 0 {
			n += c.Rng.Intn(9) - 4
		}
		return n, true
	}
	return lengths[c.Rng.Intn(len(lengths)-1)], false
}

// bigPartition splits n into a few large parts (often a single one).
func bigPartition(c *mon.C, n int) []int {
	var parts []int
	switch c.Rng.Intn(4) {
	case 0:
		return []int{n}
	case 1:
		k := c.Rng.Intn(8)
		return []int{k, n - k}
	}
	for n > 0 {
		k := 1 + c.Rng.Intn(n)
		if c.Rng.Intn(3) == 0 && k > 70000 {
			k = 65530 + c.Rng.Intn(12)
		}
		parts = append(parts, k)
		n -= k
	}
	return parts
}

var offsets = func() []int {
	o := []int{0, 1, 2, 3, 4, 5, 6, 7, 8, 9, 10, 11, 65537, 1<<30 + 1}
	if strconv.IntSize == 64 {
		// (int is 32 bits wide in the 386 build pass: the offset of every byte has to be an int)
		for _, big := range []int64{1<<31 + 2, 1<<40 + 3} {
			o = append(o, int(big))
		}
	}
	return o
}()

const canary = 32

func keyOf(c *mon.C, k int) [4]byte {
	switch k {
	case 0:
		return [4]byte{}
	case 1:
		return [4]byte{0xff, 0xff, 0xff, 0xff}
	case 2:
		return [4]byte{1, 2, 3, 4}
	}
	var key [4]byte
	c.Rng.Read(key[:])
	return key
}

func subGrid() mon.Sub {
	return mon.Sub{
		Name: "cipher-grid", Exhaustive: true, Required: true,
		N: func(string) int { return len(lengths) },
		Do: func(c *mon.C) {
			n := lengths[c.I]
			src := make([]byte, n)
			c.Rng.Read(src)
			aligns := 16
			if n > 5000 {
				aligns = 3
			}
			for _, off := range offsets {
				for a := 0; a < aligns; a++ {
					for k := 0; k < 4; k++ {
						c.Count(1)
						key := keyOf(c, k)
						buf := make([]byte, canary+a+n+canary)
						for i := range buf {
							buf[i] = 0xC3
						}
						p := buf[canary+a : canary+a+n : canary+a+n]
						copy(p, src)
						ws.Cipher(p, key, off)
						want := ref.Mask(src, key, off)
						det := map[string]interface{}{"len": n, "offset": off, "align": a, "key": fmt.Sprintf("%x", key)}
						if !bytes.Equal(p, want) {
							i := firstDiff(p, want)
							det["first_diff_at"] = i
							c.Fail(fmt.Sprintf("cipher/bytes/len%s/offmod%d", lenClass(n), off%4), fmt.Sprintf("Cipher output differs from p[i]^key[(off+i)%%4] at byte %d (len=%d off=%d)", i, n, off), det)
							return
						}
						for i, b := range buf {
							if (i < canary+a || i >= canary+a+n) && b != 0xC3 {
								c.Fail("cipher/outside", "Cipher changed a byte outside the payload slice", det)
								return
							}
						}
						ws.Cipher(p, key, off)
						if !bytes.Equal(p, src) {
							c.Fail("cipher/involution", "applying Cipher twice does not restore the input", det)
							return
						}
						c.Classf("len=%d offmod=%d big=%v align=%d key=%d", n, off%4, off > 11, a%8, k)
					}
				}
			}
			c.Sample(map[string]interface{}{"len": n, "offsets": offsets, "alignments": aligns, "keys": 4})
		},
	}
}

func lenClass(n int) string {
	switch {
	case n < 8:
		return "lt8"
	case n < 24:
		return "8-23"
	case n >= 65530:
		return "ge64K"
	default:
		return "ge24"
	}
}

func firstDiff(a, b []byte) int {
	for i := range a {
		if i >= len(b) || a[i] != b[i] {
			return i
		}
	}
	return len(a)
}

// randomPartition splits n into positive (and sometimes zero) parts.
func randomPartition(c *mon.C, n int) []int {
	var parts []int
	for n > 0 {
		k := 1
		switch c.Rng.Intn(5) {
		case 0:
			k = 0
		case 1:
			k = 1 + c.Rng.Intn(8)
		case 2:
			k = 1 + c.Rng.Intn(40)
		case 3:
			k = 1 + c.Rng.Intn(n)
		}
		if k > n {
			k = n
		}
		parts = append(parts, k)
		n -= k
	}
	return parts
}

func subChunks() mon.Sub {
	return mon.Sub{
		Name: "cipher-chunks", Required: true,
		N: func(t string) int {
			if t == "thorough" {
				return 400000
			}
			return 3000
		},
		Do: func(c *mon.C) {
			n, large := pickLen(c)
			if !large && c.Rng.Intn(4) == 0 {
				n = c.Rng.Intn(3000)
			}
			src := make([]byte, n)
			c.Rng.Read(src)
			key := keyOf(c, 3)
			off0 := offsets[c.Rng.Intn(len(offsets))]
			parts := randomPartition(c, n)
			if large {
				parts = bigPartition(c, n)
			}
			got := append([]byte(nil), src...)
			pos := 0
			for _, k := range parts {
				ws.Cipher(got[pos:pos+k], key, off0+pos)
				pos += k
			}
			want := ref.Mask(src, key, off0)
			if !bytes.Equal(got, want) {
				c.Fail("chunks/compose", "chunked Cipher with running offset differs from the one-shot XOR", map[string]interface{}{"len": n, "offset": off0, "parts": parts, "key": fmt.Sprintf("%x", key), "first_diff_at": firstDiff(got, want)})
				return
			}
			c.Classf("n=%s parts=%d off=%d", lenClass(n), min(len(parts), 6), off0%4)
			c.Sample(map[string]interface{}{"len": n, "offset": off0, "parts": parts})
		},
	}
}

var bufSizes = []int{1, 3, 7, 8, 16, 17, 4096}

func subReader() mon.Sub {
	return mon.Sub{
		Name: "cipher-reader", Required: true,
		N: func(t string) int {
			if t == "thorough" {
				return 300000
			}
			return 2500
		},
		Do: func(c *mon.C) {
			n, large := pickLen(c)
			src := make([]byte, n)
			c.Rng.Read(src)
			key := keyOf(c, 3)
			masked := ref.Mask(src, key, 0)
			ps := xport.Plans(c.Rng.Int63(), nil)
			plan := ps[c.Rng.Intn(len(ps))]
			bs := bufSizes[c.Rng.Intn(len(bufSizes))]
			if large {
				// big caller buffers over a source that hands everything at once
				bs = []int{65535, 65536, 65537, 100000, n, n + 1}[c.Rng.Intn(6)]
				if c.Rng.Intn(2) == 0 {
					plan = ps[0]
				}
			}
			// the kind of io.Reader behind the cipher varies (buffered, part-consumed, Read-only)
			wrap := drive.Wraps[c.Rng.Intn(len(drive.Wraps))]
			rd := wsutil.NewCipherReader(drive.WrapSource(xport.NewChunker(masked, plan), wrap), key)
			resetAt := -1
			if c.Rng.Intn(3) == 0 && n > 0 {
				resetAt = c.Rng.Intn(n)
			}
			var got []byte
			buf := make([]byte, bs)
			did := false
			for {
				if resetAt >= 0 && !did && len(got) >= resetAt {
					// Reset mid-stream onto a fresh stream: position starts over.
					did = true
					key = keyOf(c, 3)
					masked = ref.Mask(src, key, 0)
					rd.Reset(drive.WrapSource(xport.NewChunker(masked, plan), drive.Wraps[c.Rng.Intn(len(drive.Wraps))]), key)
					got = got[:0]
				}
				if did || resetAt < 0 {
					if c.Rng.Intn(4) == 0 {
						// the rest of the stream is drained through io.Copy (which would pick an io.WriterTo
						// fast path if the reader had one): the running offset must carry on
						var rest bytes.Buffer
						if _, err := io.Copy(&rest, rd); err != nil {
							c.Fail("reader/error", "io.Copy from a CipherReader failed: "+err.Error(), nil)
							return
						}
						got = append(got, rest.Bytes()...)
						break
					}
				}
				k, err := rd.Read(buf)
				got = append(got, buf[:k]...)
				if err == io.EOF {
					break
				}
				if err != nil {
					c.Fail("reader/error", "CipherReader returned an unexpected error: "+err.Error(), nil)
					return
				}
			}
			if !bytes.Equal(got, src) {
				c.Fail("reader/bytes", "CipherReader output differs from the XOR of the source", map[string]interface{}{"len": n, "plan": plan.String(), "buf": bs, "reset_at": resetAt, "source": wrap, "first_diff_at": firstDiff(got, src)})
				return
			}
			c.Classf("n=%s plan=%s buf=%d reset=%v", lenClass(n), plan.String(), bs, resetAt >= 0)
			c.Sample(map[string]interface{}{"len": n, "plan": plan.String(), "buf": bs, "reset_at": resetAt})
		},
	}
}

func subWriter() mon.Sub {
	return mon.Sub{
		Name: "cipher-writer", Required: true,
		N: func(t string) int {
			if t == "thorough" {
				return 300000
			}
			return 2500
		},
		Do: func(c *mon.C) {
			n, large := pickLen(c)
			src := make([]byte, n)
			c.Rng.Read(src)
			key := keyOf(c, 3)
			rec := xport.NewRec()
			parts := randomPartition(c, n)
			if large {
				parts = bigPartition(c, n)
			}
			short := c.Rng.Intn(3) == 0 && len(parts) > 0
			if short {
				rec.FailAt = c.Rng.Intn(len(parts))
				rec.ShortN = c.Rng.Intn(parts[rec.FailAt] + 1)
			}
			var dst io.Writer = rec
			if c.Rng.Intn(3) == 0 {
				dst = xport.RichDst{Rec: rec} // a destination with ReadFrom / WriteString of its own
			}
			// the destination looks at the caller's slice WHILE the write is in progress (another goroutine
			// broadcasting the same payload would): it holds what the caller put there at every moment
			wd := &duringW{w: dst}
			dst = wd
			w := wsutil.NewCipherWriter(dst, key)
			pos := 0
			var accepted []byte
			viaCopy := 0
			for _, k := range parts {
				p := append([]byte(nil), src[pos:pos+k]...)
				if !short && c.Rng.Intn(3) == 0 {
					// the part arrives through io.Copy: whatever optional fast path (io.ReaderFrom on the
					// writer, io.WriterTo on the source) gets picked, the running offset must carry on
					var from io.Reader = xport.NewChunker(p, xport.Plans(c.Rng.Int63(), nil)[c.Rng.Intn(11)])
					if c.Rng.Intn(3) == 0 {
						from = bytes.NewReader(p)
					}
					m, err := io.Copy(w, from)
					if err != nil || int(m) != len(p) {
						c.Fail("writer/copy", fmt.Sprintf("io.Copy into a CipherWriter over a healthy destination returned %d, %v for %d bytes", m, err, len(p)), nil)
						return
					}
					accepted = append(accepted, p...)
					pos += k
					viaCopy++
					continue
				}
				for len(p) > 0 || k == 0 {
					keep := append([]byte(nil), p...)
					wd.p, wd.want = p, keep
					m, err := w.Write(p)
					wd.p = nil
					if wd.bad {
						c.Fail("writer/mutates-caller-during-write", "the caller's slice did not hold the caller's bytes while CipherWriter.Write was handing data to the destination", map[string]interface{}{"len": n, "parts": parts})
						return
					}
					if !bytes.Equal(p, keep) {
						c.Fail("writer/mutates-caller", "CipherWriter.Write modified the caller's slice", map[string]interface{}{"len": n, "parts": parts})
						return
					}
					if m < 0 || m > len(p) {
						c.Fail("writer/count", fmt.Sprintf("CipherWriter.Write returned n=%d for %d bytes", m, len(p)), nil)
						return
					}
					if err == nil && m != len(p) {
						c.Fail("writer/short-nil", "CipherWriter.Write returned n<len(p) with nil error", nil)
						return
					}
					accepted = append(accepted, p[:m]...)
					p = p[m:] // the caller retries the remainder after a short write
					if k == 0 {
						break
					}
				}
				pos += k
			}
			got := rec.Bytes()
			want := ref.Mask(accepted, key, 0)
			if !bytes.Equal(got, want) {
				c.Fail("writer/bytes", "bytes reaching the destination differ from the XOR of the accepted bytes at their stream position", map[string]interface{}{"len": n, "parts": parts, "short_at": rec.FailAt, "short_n": rec.ShortN, "first_diff_at": firstDiff(got, want)})
				return
			}
			if !bytes.Equal(accepted, src) {
				c.Fail("writer/lost", "not all bytes were accepted", nil)
				return
			}
			c.Classf("n=%s parts=%d short=%v copy=%v", lenClass(n), min(len(parts), 6), short, viaCopy > 0)
			c.Sample(map[string]interface{}{"len": n, "parts": parts, "short_write_at_call": rec.FailAt, "short_n": rec.ShortN, "parts_via_io_copy": viaCopy})
		},
	}
}

// subStacked: cipher readers / writers built on top of one another (a relay
// that unmasks with the peer's key and masks again with its own; a proxy that
// peeks at the first bytes and re-masks the rest): each layer is the XOR with
// ITS key from ITS offset 0, wherever the layer below has got to.
// stagedSrc is a source that grows while it is read (a buffer refilled by an event loop as data arrives, a
// file being appended to): at the end of each part it reports io.EOF once, and delivers more afterwards.
type stagedSrc struct {
	parts [][]byte
	eofs  int
}

func (s *stagedSrc) Read(p []byte) (int, error) {
	if len(s.parts) == 0 {
		return 0, io.EOF
	}
	if len(s.parts[0]) == 0 {
		s.parts = s.parts[1:]
		s.eofs++
		return 0, io.EOF
	}
	n := copy(p, s.parts[0])
	s.parts[0] = s.parts[0][n:]
	return n, nil
}

// subStaged: the reader keeps its running offset across a TRANSIENT end of its source.
func subStaged() mon.Sub {
	return mon.Sub{
		Name: "cipher-reader-staged", Required: true,
		N: func(t string) int {
			if t == "thorough" {
				return 60000
			}
			return 1500
		},
		Do: func(c *mon.C) {
			n := 1 + c.Rng.Intn(200)
			src := make([]byte, n)
			c.Rng.Read(src)
			key := keyOf(c, 3)
			masked := ref.Mask(src, key, 0)
			var parts [][]byte
			var cuts []int
			for rest := masked; len(rest) > 0; {
				k := 1 + c.Rng.Intn(len(rest))
				if k > 13 && c.Rng.Intn(2) == 0 {
					k = 1 + c.Rng.Intn(13)
				}
				parts = append(parts, append([]byte(nil), rest[:k]...))
				cuts = append(cuts, k)
				rest = rest[k:]
			}
			st := &stagedSrc{parts: parts}
			rd := wsutil.NewCipherReader(st, key)
			buf := make([]byte, []int{1, 3, 4, 7, 64, 512}[c.Rng.Intn(6)])
			var got []byte
			c.Count(1)
			for rounds := 0; rounds < 4*n+8; rounds++ {
				k, err := rd.Read(buf)
				got = append(got, buf[:k]...)
				if err != nil && err != io.EOF {
					c.Fail("staged/error", "CipherReader: "+err.Error(), nil)
					return
				}
				if err == io.EOF && len(st.parts) == 0 {
					break
				}
			}
			if !bytes.Equal(got, src) {
				c.Fail("staged/bytes", fmt.Sprintf("a CipherReader over a source that reported io.EOF %d times while it grew: first difference at byte %d of %d", st.eofs, firstDiff(got, src), n), map[string]interface{}{"len": n, "parts": cuts, "buf": len(buf)})
				return
			}
			c.Classf("n=%s parts=%d", lenClass(n), min(len(cuts), 8))
			c.Sample(map[string]interface{}{"len": n, "parts": cuts, "transient_eofs": st.eofs})
		},
	}
}

func subStacked() mon.Sub {
	return mon.Sub{
		Name: "stacked", Required: true,
		N: func(t string) int {
			if t == "thorough" {
				return 100000
			}
			return 2000
		},
		Do: func(c *mon.C) {
			n := []int{1, 2, 3, 5, 8, 13, 16, 31, 64, 200, 1000}[c.Rng.Intn(11)]
			src := make([]byte, n)
			c.Rng.Read(src)
			k1, k2 := keyOf(c, 3), keyOf(c, c.Rng.Intn(4))
			head := c.Rng.Intn(n + 1)
			if head > 9 && c.Rng.Intn(2) == 0 {
				head = c.Rng.Intn(10)
			}
			ps := xport.Plans(c.Rng.Int63(), nil)
			plan := ps[c.Rng.Intn(len(ps))]
			// reader over reader
			c.Count(1)
			inner := wsutil.NewCipherReader(xport.NewChunker(src, plan), k1)
			first := make([]byte, head)
			if _, err := io.ReadFull(readerOnlyLoop{inner}, first); err != nil {
				c.Fail("stacked/reader/error", "inner CipherReader: "+err.Error(), nil)
				return
			}
			outer := wsutil.NewCipherReader(inner, k2)
			rest, err := io.ReadAll(outer)
			if err != nil {
				c.Fail("stacked/reader/error", "outer CipherReader: "+err.Error(), nil)
				return
			}
			want1 := ref.Mask(src, k1, 0)
			wantRest := ref.Mask(want1[head:], k2, 0)
			det := map[string]interface{}{"len": n, "read_through_inner_first": head, "plan": plan.String(), "key1": fmt.Sprintf("%x", k1), "key2": fmt.Sprintf("%x", k2)}
			if !bytes.Equal(first, want1[:head]) || !bytes.Equal(rest, wantRest) {
				c.Fail("stacked/reader/bytes", fmt.Sprintf("a CipherReader on top of a CipherReader that had delivered %d bytes: first difference at byte %d of the outer stream", head, firstDiff(rest, wantRest)), det)
				return
			}
			// writer over writer
			c.Count(1)
			rec := xport.NewRec()
			wi := wsutil.NewCipherWriter(rec, k1)
			if _, err := wi.Write(src[:head]); err != nil {
				c.Fail("stacked/writer/error", err.Error(), det)
				return
			}
			wo := wsutil.NewCipherWriter(wi, k2)
			for _, part := range cutRandom(c, src[head:]) {
				if _, err := wo.Write(part); err != nil {
					c.Fail("stacked/writer/error", err.Error(), det)
					return
				}
			}
			wantW := append(append([]byte(nil), want1[:head]...), ref.Mask(ref.Mask(src[head:], k2, 0), k1, head)...)
			if got := rec.Bytes(); !bytes.Equal(got, wantW) {
				c.Fail("stacked/writer/bytes", fmt.Sprintf("a CipherWriter on top of a CipherWriter that had taken %d bytes: first difference at %d", head, firstDiff(got, wantW)), det)
				return
			}
			c.Classf("n=%s head%%4=%d k2=%x", lenClass(n), head%4, k2)
			c.Sample(det)
		},
	}
}

type readerOnlyLoop struct{ r io.Reader }

func (r readerOnlyLoop) Read(p []byte) (int, error) { return r.r.Read(p) }

func cutRandom(c *mon.C, p []byte) [][]byte {
	var out [][]byte
	for len(p) > 0 {
		k := 1 + c.Rng.Intn(len(p))
		out = append(out, p[:k])
		p = p[k:]
	}
	return out
}

// duringW checks the caller's slice from inside the destination's Write.
type duringW struct {
	w       io.Writer
	p, want []byte
	bad     bool
}

func (d *duringW) Write(b []byte) (int, error) {
	if d.p != nil && !bytes.Equal(d.p, d.want) {
		d.bad = true
	}
	return d.w.Write(b)
}

func sameBacking(a, b []byte) bool {
	if cap(a) == 0 || cap(b) == 0 {
		return false
	}
	return &a[:cap(a)][cap(a)-1] == &b[:cap(b)][cap(b)-1]
}

func subFrames() mon.Sub {
	helpers := []string{"MaskFrame", "MaskFrameWith", "MaskFrameInPlace", "MaskFrameInPlaceWith", "UnmaskFrame", "UnmaskFrameInPlace"}
	return mon.Sub{
		Name: "frame-helpers", Required: true,
		N: func(t string) int {
			if t == "thorough" {
				return len(helpers) * len(lengths) * 8
			}
			return len(helpers) * len(lengths)
		},
		Do: func(c *mon.C) {
			name := helpers[c.I%len(helpers)]
			n := lengths[c.I/len(helpers)%len(lengths)]
			for kk := 0; kk < 4; kk++ {
				if !frameHelperCase(c, name, n, keyOf(c, kk), keyOf(c, (kk+1)%4), kk) {
					return
				}
			}
		},
	}
}

// frameHelperCase checks one helper with one key (all-zero, all-ones, fixed, random).
func frameHelperCase(c *mon.C, name string, n int, key, inKey [4]byte, kk int) bool {
	{
		{
			c.Count(1)
			src := make([]byte, n)
			c.Rng.Read(src)
			payload := append([]byte(nil), src...)
			f := ws.Frame{Header: ws.Header{Fin: true, OpCode: ws.OpBinary, Length: int64(n)}, Payload: payload}
			// the helpers work on the PAYLOAD: a frame literal that leaves Length unset, or whose payload was
			// replaced before the length is fixed up, is masked all the same (two key rounds out of four)
			switch kk {
			case 2:
				f.Header.Length = 0
			case 3:
				f.Header.Length = int64(n) + 3
			}
			det := map[string]interface{}{"helper": name, "len": n, "header_length": f.Header.Length, "key": fmt.Sprintf("%x", key), "frame_key": fmt.Sprintf("%x", inKey)}
			fail := func(sig, what string) { c.Fail("frames/"+name+"/"+sig, name+": "+what, det) }
			var out ws.Frame
			copying := false
			unmask := false
			// every other key round the frame handed to a MASKING helper already carries a mask in its header
			// (a frame read from a client and forwarded, or masked once before): the helper's job does not
			// depend on that - the payload bytes as given are XORed with the new key
			premasked := kk%2 == 1 && !strings.HasPrefix(name, "Unmask")
			if premasked {
				f.Header.Masked, f.Header.Mask = true, inKey
				det["input_header_already_masked"] = true
			}
			switch name {
			case "MaskFrame":
				out, copying = ws.MaskFrame(f), true
			case "MaskFrameWith":
				out, copying = ws.MaskFrameWith(f, key), true
			case "MaskFrameInPlace":
				out = ws.MaskFrameInPlace(f)
			case "MaskFrameInPlaceWith":
				out = ws.MaskFrameInPlaceWith(f, key)
			case "UnmaskFrame":
				f.Header.Masked, f.Header.Mask = true, inKey
				out, copying, unmask = ws.UnmaskFrame(f), true, true
			case "UnmaskFrameInPlace":
				f.Header.Masked, f.Header.Mask = true, inKey
				out, unmask = ws.UnmaskFrameInPlace(f), true
			}
			if unmask {
				if out.Header.Masked || out.Header.Mask != ([4]byte{}) {
					fail("header", "mask fields not cleared")
					return false
				}
				if !bytes.Equal(out.Payload, ref.Mask(src, inKey, 0)) {
					fail("bytes", "payload is not the XOR with the header's key")
					return false
				}
			} else {
				if !out.Header.Masked {
					fail("header", "Masked not set")
					return false
				}
				if (name == "MaskFrameWith" || name == "MaskFrameInPlaceWith") && out.Header.Mask != key {
					fail("header", "Mask field is not the given key")
					return false
				}
				if !bytes.Equal(ref.Mask(out.Payload, out.Header.Mask, 0), src) {
					fail("bytes", "payload does not unmask to the original with the reported key")
					return false
				}
			}
			out.Header.Masked, out.Header.Mask = f.Header.Masked, f.Header.Mask
			if out.Header != f.Header {
				fail("header-other", "header fields other than the mask changed")
				return false
			}
			if copying {
				if !bytes.Equal(payload, src) {
					fail("mutates-caller", "documented as copying but the caller's payload changed")
					return false
				}
				if n > 0 && sameBacking(out.Payload, payload) {
					fail("aliases-caller", "documented as copying but the result aliases the caller's payload")
					return false
				}
			} else if n > 0 && !sameBacking(out.Payload, payload) {
				fail("not-inplace", "documented as in-place but the result does not alias the input")
				return false
			}
			c.Classf("%s n=%s key=%d premasked=%v", name, lenClass(n), kk, premasked)
			c.Sample(det)
		}
	}
	return true
}

func main() {
	mon.Main(&mon.Spec{
		Property: "C02",
		Level:    "exploration",
		Rule: "cases: (a) exhaustive grid payload length {0..96,127..129,255..257,1000,4095..4097,65539} x offset {0..11, 2^16+1, 2^31+2, 2^40+3} x slice alignment 0..15 x 4 keys with 32-byte canaries, " +
			"(b) random partitions with running offset, (c) CipherReader over chunked sources x caller buffer sizes x mid-stream Reset, (d) CipherWriter over random write partitions incl. short-write destinations, (d'') a cipher reader over a source that reports io.EOF between instalments of one payload (running offset kept), (d') cipher readers stacked on cipher readers that already delivered 0..n bytes, and writers on writers (each layer = XOR with its own key from its own offset 0), (d''') one CipherWriter / CipherReader value (zero value or constructed) re-used for 2-5 streams through Reset(new destination/source, new key) after stopping at any offset, (e) the six frame mask/unmask helpers x all lengths x 4 keys, the masking helpers also on frames whose header already says masked, and all six on frames whose Header.Length is unset or stale (the payload is what gets masked). " +
			"Non-trivial = output compared byte-for-byte with the naive XOR reference; distinct = (length, offset mod 4, alignment, key kind) / (length class, partition size, plan, buffer) classes. Built with -race (checkptr on).",
		Assumptions: []string{"reference ref.Mask is the one-line XOR of RFC 6455 §5.3", "offsets near MaxInt are outside what a stream can reach and are not claimed"},
		Subs:        []mon.Sub{subGrid(), subChunks(), subReader(), subWriter(), subStaged(), subStacked(), subReuse(), subFrames(), subGuardPage(), subAdjacent(), subLongStream(), subCopiedWriter()},
	})
}
