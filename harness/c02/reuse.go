package main

import (
	"bytes"
	"fmt"
	"io"

	"github.com/gobwas/ws/wsutil"

	"verifharness/mon"
	"verifharness/ref"
	"verifharness/xport"
)

// subReuse: one CipherWriter / CipherReader value lives through several
// streams (a pooled per-connection object, a zero value set up with Reset): each
// epoch starts with Reset(new destination or source, new key) after the epoch
// before it stopped at ANY offset, and is the XOR with ITS key from offset 0.
func subReuse() mon.Sub {
	return mon.Sub{
		Name: "cipher-reuse", Required: true,
		N: func(t string) int {
			if t == "thorough" {
				return 60000
			}
			return 3000
		},
		Do: func(c *mon.C) {
			epochs := 2 + c.Rng.Intn(4)
			zero := c.I%2 == 0 // the value starts as the zero value and gets everything from Reset
			var w *wsutil.CipherWriter
			var r *wsutil.CipherReader
			if zero {
				w, r = new(wsutil.CipherWriter), new(wsutil.CipherReader)
			}
			var lens []int
			for e := 0; e < epochs; e++ {
				n := []int{0, 1, 2, 3, 5, 6, 7, 9, 13, 31, 64, 65, 130, 1001}[c.Rng.Intn(14)]
				lens = append(lens, n)
				src := make([]byte, n)
				c.Rng.Read(src)
				key := keyOf(c, c.Rng.Intn(4))
				det := map[string]interface{}{"epoch": e, "epoch_lengths": lens, "key": fmt.Sprintf("%x", key), "starts_as_zero_value": zero}
				c.Count(2)
				// ---- writer
				rec := &xport.Rec{FailAt: -1}
				if w == nil {
					w = wsutil.NewCipherWriter(rec, key)
				} else {
					w.Reset(rec, key)
				}
				for pos := 0; pos < n; {
					k := 1 + c.Rng.Intn(n-pos)
					if m, err := w.Write(append([]byte(nil), src[pos:pos+k]...)); err != nil || m != k {
						c.Fail("reuse/writer/count", fmt.Sprintf("CipherWriter.Write over a healthy destination returned %d, %v for %d bytes", m, err, k), det)
						return
					}
					pos += k
				}
				if got, want := rec.Bytes(), ref.Mask(src, key, 0); !bytes.Equal(got, want) {
					det["first_diff_at"] = firstDiff(got, want)
					c.Fail("reuse/writer/bytes", fmt.Sprintf("epoch %d of a re-used CipherWriter (after Reset to a new destination and key): bytes differ from the XOR with the epoch's key from offset 0", e), det)
					return
				}
				// ---- reader
				masked := ref.Mask(src, key, 0)
				ch := xport.NewChunker(masked, xport.Plans(c.Rng.Int63(), nil)[c.Rng.Intn(11)])
				if r == nil {
					r = wsutil.NewCipherReader(ch, key)
				} else {
					r.Reset(ch, key)
				}
				// the epoch may stop before the end of its stream (the rest is dropped with the connection)
				take := n
				if e < epochs-1 && n > 0 && c.Rng.Intn(2) == 0 {
					take = c.Rng.Intn(n + 1)
				}
				got := make([]byte, take)
				if _, err := io.ReadFull(r, got); err != nil && take > 0 {
					c.Fail("reuse/reader/error", fmt.Sprintf("epoch %d of a re-used CipherReader: %v", e, err), det)
					return
				}
				if !bytes.Equal(got, src[:take]) {
					det["first_diff_at"] = firstDiff(got, src[:take])
					c.Fail("reuse/reader/bytes", fmt.Sprintf("epoch %d of a re-used CipherReader (after Reset to a new source and key): bytes differ from the XOR with the epoch's key from offset 0", e), det)
					return
				}
			}
			c.Classf("epochs=%d zero=%v first=%d", epochs, zero, lens[0]%4)
			c.Sample(map[string]interface{}{"epoch_lengths": lens, "starts_as_zero_value": zero})
		},
	}
}
