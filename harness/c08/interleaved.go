package main

import (
	"bytes"
	"fmt"

	"github.com/gobwas/ws"
	"github.com/gobwas/ws/wsutil"

	"verifharness/mon"
	"verifharness/ref"
	"verifharness/wsx"
	"verifharness/xport"
)

// subInterleaved: SEVERAL control frames between the fragments of one data
// message (and before / after it), collected by wsutil.ReadMessage and answered
// one by one with HandleControlMessage afterwards - the way example/autobahn
// does it. Every collected message must hold the payload that was sent when it
// is answered, every ping gets exactly one pong echoing it, pongs get nothing.
func subInterleaved() mon.Sub {
	return mon.Sub{
		Name: "readmessage-interleaved", Required: true,
		N: func(t string) int {
			if t == "thorough" {
				return 60000
			}
			return 2500
		},
		Do: func(c *mon.C) {
			side := []ref.Side{ref.SideServer, ref.SideClient}[c.I%2]
			st := wsx.State(side, c.I/2%2 == 1, false)
			nfrag := 2 + c.Rng.Intn(3)
			type ctl struct {
				op      byte
				payload []byte
			}
			var ctls []ctl
			var frames []ref.Frame
			mk := func(op byte, fin bool, p []byte) {
				h := ref.Header{Fin: fin, Op: op, Masked: side == ref.SideServer}
				if h.Masked {
					c.Rng.Read(h.Mask[:])
				}
				frames = append(frames, ref.Frame{H: h, Payload: p})
			}
			var data []byte
			for f := 0; f < nfrag; f++ {
				if f > 0 || c.Rng.Intn(3) == 0 {
					for k := c.Rng.Intn(4); k > 0; k-- {
						x := ctl{op: []byte{ref.OpPing, ref.OpPing, ref.OpPong}[c.Rng.Intn(3)], payload: make([]byte, []int{0, 1, 5, 40, 124, 125}[c.Rng.Intn(6)])}
						for i := range x.payload {
							x.payload[i] = byte('a' + (len(ctls)*7+i)%26)
						}
						ctls = append(ctls, x)
						mk(x.op, true, x.payload)
					}
				}
				p := []byte(fmt.Sprintf("fragment-%d;", f))
				data = append(data, p...)
				op := byte(ref.OpCont)
				if f == 0 {
					op = ref.OpBinary
				}
				mk(op, f == nfrag-1, p)
			}
			var stream []byte
			for _, f := range frames {
				stream = append(stream, f.Encode()...)
			}
			plans := xport.Plans(c.Rng.Int63(), nil)
			plan := plans[c.Rng.Intn(len(plans))]
			det := map[string]interface{}{"side": side, "fragments": nfrag, "control_frames": len(ctls), "plan": plan.String()}
			var sizes []string
			for _, x := range ctls {
				sizes = append(sizes, fmt.Sprintf("%x:%d", x.op, len(x.payload)))
			}
			det["controls"] = sizes
			c.Count(1)
			src := xport.NewChunker(stream, plan)
			var msgs []wsutil.Message
			var err error
			// control frames in front of the message come back as messages of their own
			for len(msgs) == 0 || msgs[len(msgs)-1].OpCode.IsControl() {
				if msgs, err = wsutil.ReadMessage(src, st, msgs); err != nil {
					c.Fail("interleaved/read-error", "ReadMessage failed on a valid stream: "+err.Error(), det)
					return
				}
			}
			if len(msgs) != len(ctls)+1 || !bytes.Equal(msgs[len(msgs)-1].Payload, data) {
				c.Fail("interleaved/messages", fmt.Sprintf("ReadMessage returned %d messages for %d control frames + 1 data message (or the data differs)", len(msgs), len(ctls)), det)
				return
			}
			// answer them now, in order
			for i, x := range ctls {
				m := msgs[i]
				if byte(m.OpCode) != x.op || !bytes.Equal(m.Payload, x.payload) {
					c.Fail("interleaved/held-payload", fmt.Sprintf("collected control message %d (op %x) holds % x when it is answered; % x was sent", i, m.OpCode, m.Payload, x.payload), det)
					return
				}
				dst := xport.NewRec()
				if err := wsutil.HandleControlMessage(dst, st, m); err != nil {
					c.Fail("interleaved/handle-error", fmt.Sprintf("HandleControlMessage(%x): %v", m.OpCode, err), det)
					return
				}
				reply, consumed, bad := ref.ParseFrames(dst.Bytes())
				if x.op == ref.OpPong {
					if dst.Len() != 0 {
						c.Fail("interleaved/pong-answered", "a pong was answered", det)
						return
					}
					continue
				}
				if bad != "" || consumed != dst.Len() || len(reply) != 1 || reply[0].H.Op != ref.OpPong || !reply[0].H.Fin || reply[0].H.Masked != (side == ref.SideClient) || !bytes.Equal(reply[0].Payload, x.payload) {
					c.Fail("interleaved/reply", fmt.Sprintf("ping %d (% x) answered with % x", i, x.payload, dst.Bytes()), det)
					return
				}
				if br := ref.BrokenRules(reply[0].H, peerOf(side), false, false); len(br) > 0 {
					c.Fail("interleaved/peer-rejects", fmt.Sprintf("reply breaks %v for the peer", br), det)
					return
				}
			}
			// the collected payloads still hold after everything was answered
			for i, x := range ctls {
				if !bytes.Equal(msgs[i].Payload, x.payload) {
					c.Fail("interleaved/held-payload-after", fmt.Sprintf("collected control message %d changed while the others were answered", i), det)
					return
				}
			}
			_ = ws.OpPing
			c.Classf("side=%d frag=%d ctl=%d", side, nfrag, len(ctls))
			c.Sample(det)
		},
	}
}
