package main

import (
	"bytes"
	"fmt"

	"github.com/gobwas/ws"
	"github.com/gobwas/ws/wsutil"

	"verifharness/mon"
	"verifharness/ref"
	"verifharness/wsx"
	"verifharness/xport"
)

// subLongLived: "for every received ping, pong or close frame ... through any of the control-handling entry points".
// An application's frame loop builds ONE wsutil.ControlFrameHandler for its connection and hands it every control
// frame of the connection's life. During that life single writes are refused by the connection (a write deadline
// that had expired and was then extended, a temporary failure): the frame whose reply was refused reports the
// error, and EVERY OTHER frame - before or after - gets exactly the reply it would get from a new handler.
type episodicDst struct {
	buf    bytes.Buffer
	refuse bool
	err    error
	other  []byte // a whole frame another writer of the same connection sends between two Write calls
	others int
}

func (d *episodicDst) Write(p []byte) (int, error) {
	if d.refuse {
		return 0, d.err
	}
	n, err := d.buf.Write(p)
	if d.other != nil {
		// the connection is shared: another goroutine of the application sends its own (whole) frame with one
		// Write call of its own, as soon as this Write call has returned
		d.buf.Write(d.other)
		d.others++
	}
	return n, err
}

func subLongLived() mon.Sub {
	return mon.Sub{
		Name: "long-lived-handler", Required: true,
		N: func(t string) int {
			if t == "thorough" {
				return 40000
			}
			return 1500
		},
		Do: func(c *mon.C) {
			side := []ref.Side{ref.SideServer, ref.SideClient}[c.I%2]
			st := wsx.State(side, false, false)
			dst := &episodicDst{}
			h := wsutil.ControlFrameHandler(dst, st)
			n := 3 + c.Rng.Intn(6)
			var hist []string
			for i := 0; i < n; i++ {
				op := []byte{ref.OpPing, ref.OpPing, ref.OpPing, ref.OpPong}[c.Rng.Intn(4)]
				L := []int{0, 1, 14, 125, c.Rng.Intn(126), c.Rng.Intn(126)}[c.Rng.Intn(6)]
				if i == n-1 && c.Rng.Intn(2) == 0 {
					op = ref.OpClose
					if L == 1 {
						L = 2
					}
				}
				p := make([]byte, L)
				c.Rng.Read(p)
				if op == ref.OpClose && L >= 2 {
					p[0], p[1] = 0x03, 0xe8
					for k := 2; k < L; k++ {
						p[k] = 'a' + byte(k%26)
					}
				}
				dst.refuse = i < n-1 && c.Rng.Intn(3) == 0
				kind := xport.FaultKinds[c.Rng.Intn(len(xport.FaultKinds))]
				dst.err = kind.Err
				before := dst.buf.Len()
				c.Count(1)
				// one ping in three is answered while ANOTHER writer uses the connection (net.Conn serialises Write
				// calls, not frames): its whole frames may land between this handler's Write calls
				shared := op == ref.OpPing && !dst.refuse && c.Rng.Intn(3) == 0
				dst.other, dst.others = nil, 0
				if shared {
					dst.other = ref.Frame{H: ref.Header{Fin: true, Op: ref.OpBinary}, Payload: []byte("app-frame")}.Encode()
				}
				var err error
				if c.Rng.Intn(2) == 0 {
					err = h(ws.Header{Fin: true, OpCode: ws.OpCode(op), Length: int64(L)}, bytes.NewReader(p))
				} else {
					// (the message-level entry: the control message was collected by ReadMessage and is answered now)
					err = wsutil.HandleControlMessage(dst, st, wsutil.Message{OpCode: ws.OpCode(op), Payload: append([]byte(nil), p...)})
				}
				dst.other = nil
				out := append([]byte(nil), dst.buf.Bytes()[before:]...)
				if shared {
					// what the peer receives is whole frames: this handler's pong and the other writer's frames
					frames, consumed, bad := ref.ParseFrames(out)
					var mine []byte
					pongs, apps := 0, 0
					for _, f := range frames {
						if f.H.Op == ref.OpPong {
							pongs++
							mine = f.Payload
						} else if f.H.Op == ref.OpBinary && string(f.Payload) == "app-frame" {
							apps++
						}
					}
					if bad != "" || consumed != len(out) || pongs != 1 || apps != dst.others || !bytes.Equal(mine, p) {
						hist = append(hist, fmt.Sprintf("frame %d: a %d-byte ping answered on a shared connection -> % x", i, L, out))
						c.Fail("long-lived/reply-torn-by-another-writer", fmt.Sprintf("a pong sent while another writer of the same connection sends whole frames (one Write call each) does not reach the peer as one frame: %d frames parsed (%s), %d pongs, %d of %d other frames intact", len(frames), bad, pongs, apps, dst.others), map[string]interface{}{"side": sideName(side), "history": hist})
						return
					}
					continue
				}
				hist = append(hist, fmt.Sprintf("frame %d: op=%x len=%d refused=%v(%s) -> err=%v, %d bytes sent", i, op, L, dst.refuse, kind.Name, err, len(out)))
				det := map[string]interface{}{"side": sideName(side), "history": hist}
				expectReply := op == ref.OpPing || op == ref.OpClose
				switch {
				case dst.refuse && expectReply:
					if err == nil {
						c.Fail("long-lived/refused-reply-unreported", "the connection refused the write of a reply and the handler returned nil", det)
						return
					}
					continue
				case !expectReply:
					if len(out) != 0 || err != nil {
						c.Fail("long-lived/pong-answered", fmt.Sprintf("a pong was answered with %d bytes / err=%v", len(out), err), det)
						return
					}
					continue
				}
				// a ping or close on a connection that takes the reply
				if op == ref.OpPing && err != nil {
					c.Fail("long-lived/stale-error", fmt.Sprintf("frame %d (a %d-byte ping) on a handler that has served %d frames before: %v - the connection accepted every write of this frame", i, L, i, err), det)
					return
				}
				if op == ref.OpClose {
					if _, isClosed := err.(wsutil.ClosedError); !isClosed {
						c.Fail("long-lived/close-not-reported", fmt.Sprintf("a valid close was reported as %v", err), det)
						return
					}
				}
				f, ok := checkReplyFrame(c, "long-lived", side, out, det)
				if !ok {
					return
				}
				wantOp, wantPayload := byte(ref.OpPong), p
				if op == ref.OpClose {
					wantOp = ref.OpClose
					if L >= 2 {
						wantPayload = p[:2]
					}
					if len(f.Payload) >= 2 {
						f.Payload = f.Payload[:2] // (the reason is optional in the reply)
					}
				}
				if f.H.Op != wantOp || !bytes.Equal(f.Payload, wantPayload) {
					c.Fail("long-lived/content", fmt.Sprintf("frame %d: the reply (op=%x, %d bytes) is not the one RFC 6455 asks for", i, f.H.Op, len(f.Payload)), det)
					return
				}
			}
			c.Classf("long-lived|%s|n=%d", sideName(side), n)
		},
	}
}

var _ = mon.Sub{}
