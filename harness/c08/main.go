// C08 — automatic control-frame replies are always valid frames with the right content.
package main

import (
	"bytes"
	"fmt"
	"io"
	"strings"
	"unicode/utf8"

	"github.com/gobwas/ws"
	"github.com/gobwas/ws/wsutil"

	"verifharness/mon"
	"verifharness/ref"
	"verifharness/wsx"
	"verifharness/xport"
)

var entries = []string{"Handle", "Handle-presrc", "HandleX", "ControlFrameHandler-inline", "ControlFrameHandler-intermediate", "HandleControlMessage", "HandleSideControlMessage", "ReadData",
	// the control frame between the fragments of a TEXT message whose validity is being checked
	"ControlFrameHandler-intermediate-text", "ReadData-intermediate-text",
	// the application read the frame itself and unmasked it in place (ws.UnmaskFrameInPlace clears Header.Masked):
	// the header handed to the handler says "not masked" although the endpoint is a server
	"Handle-unmasked-header",
	// the control frame sits between the fragments of a message the application does NOT want: skipped by the
	// opcode-filtered read helpers, or thrown away with Reader.Discard - it is answered all the same
	"ReadText-skipping-binary", "Reader-Discard"}

func peerOf(side ref.Side) ref.Side {
	if side == ref.SideServer {
		return ref.SideClient
	}
	return ref.SideServer
}

// runControl delivers one control frame (op, plaintext payload) to an endpoint
// on `side` through `entry` and returns what was written and the error.
func runControl(c *mon.C, entry string, side ref.Side, op byte, payload []byte, plan xport.Plan) (written []byte, err error) {
	st := wsx.State(side, false, false)
	// hst is the state value handed to the HANDLERS: only its side bit matters to them; a connection with a
	// negotiated extension carries StateExtended, and a handler set up in the middle of a message StateFragmented
	hst := st | []ws.State{0, ws.StateExtended, ws.StateFragmented, ws.StateExtended | ws.StateFragmented}[(len(payload)+int(op)+c.I)%4]
	dst := xport.NewRec()
	defer func() { written = dst.Bytes() }()
	h := ref.Header{Fin: true, Op: op, Length: int64(len(payload)), Masked: side == ref.SideServer}
	if h.Masked && c.Rng.Intn(8) != 0 {
		c.Rng.Read(h.Mask[:])
	}
	wire := payload
	if h.Masked {
		wire = ref.Mask(payload, h.Mask, 0)
	}
	frame := append(ref.EncodeHeader(h), wire...)
	wh := wsx.ToWS(h)
	switch entry {
	case "Handle", "HandleX":
		ch := wsutil.ControlHandler{Src: xport.NewChunker(wire, plan), Dst: dst, State: hst}
		if entry == "Handle" {
			return nil, ch.Handle(wh)
		}
		switch op {
		case ref.OpPing:
			return nil, ch.HandlePing(wh)
		case ref.OpPong:
			return nil, ch.HandlePong(wh)
		default:
			return nil, ch.HandleClose(wh)
		}
	case "Handle-presrc":
		// payload already pulled and unmasked by the application
		ch := wsutil.ControlHandler{Src: xport.NewChunker(payload, plan), Dst: dst, State: hst, DisableSrcCiphering: true}
		return nil, ch.Handle(wh)
	case "Handle-unmasked-header":
		uh := wh
		uh.Masked, uh.Mask = false, [4]byte{}
		ch := wsutil.ControlHandler{Src: xport.NewChunker(payload, plan), Dst: dst, State: hst}
		if c.Rng.Intn(2) == 0 {
			ch.DisableSrcCiphering = true
		}
		return nil, ch.Handle(uh)
	case "ControlFrameHandler-inline":
		rd := &wsutil.Reader{Source: xport.NewChunker(frame, plan), State: st}
		hdr, e := rd.NextFrame()
		if e != nil {
			return nil, fmt.Errorf("harness: NextFrame: %v", e)
		}
		return nil, wsutil.ControlFrameHandler(dst, hst)(hdr, rd)
	case "ControlFrameHandler-intermediate":
		mk := func(op byte, fin bool, p []byte) []byte {
			fh := ref.Header{Fin: fin, Op: op, Masked: h.Masked, Mask: h.Mask}
			return ref.Frame{H: fh, Payload: p}.Encode()
		}
		stream := append(append(mk(ref.OpBinary, false, []byte("ab")), frame...), mk(ref.OpCont, true, []byte("cd"))...)
		rd := &wsutil.Reader{Source: xport.NewChunker(stream, plan), State: st, OnIntermediate: wsutil.ControlFrameHandler(dst, hst)}
		if _, e := rd.NextFrame(); e != nil {
			return nil, fmt.Errorf("harness: NextFrame: %v", e)
		}
		data, e := io.ReadAll(rd)
		if e == nil && string(data) != "abcd" {
			return nil, fmt.Errorf("harness: surrounding message corrupted: %q", data)
		}
		return nil, e
	case "ControlFrameHandler-intermediate-text", "ReadData-intermediate-text":
		mk := func(op byte, fin bool, p []byte) []byte {
			fh := ref.Header{Fin: fin, Op: op, Masked: h.Masked, Mask: h.Mask}
			return ref.Frame{H: fh, Payload: p}.Encode()
		}
		// "é" is split across the two fragments, the control frame sits between its halves
		stream := append(append(mk(ref.OpText, false, []byte("a\xc3")), frame...), mk(ref.OpCont, true, []byte("\xa9d"))...)
		var data []byte
		var e error
		if entry == "ReadData-intermediate-text" {
			rw := xport.RW{Reader: xport.NewChunker(stream, plan), Writer: dst}
			if side == ref.SideServer {
				data, _, e = wsutil.ReadClientData(rw)
			} else {
				data, _, e = wsutil.ReadServerData(rw)
			}
		} else {
			rd := &wsutil.Reader{Source: xport.NewChunker(stream, plan), State: st, CheckUTF8: true, OnIntermediate: wsutil.ControlFrameHandler(dst, hst)}
			if _, e := rd.NextFrame(); e != nil {
				return nil, fmt.Errorf("harness: NextFrame: %v", e)
			}
			data, e = io.ReadAll(rd)
		}
		if e == nil && string(data) != "a\xc3\xa9d" {
			return nil, fmt.Errorf("harness: surrounding message corrupted: %q", data)
		}
		return nil, e
	case "ReadText-skipping-binary", "Reader-Discard":
		mk := func(op byte, fin bool, p []byte) []byte {
			fh := ref.Header{Fin: fin, Op: op, Masked: h.Masked, Mask: h.Mask}
			return ref.Frame{H: fh, Payload: p}.Encode()
		}
		stream := append(append(mk(ref.OpBinary, false, []byte("unwanted-1")), frame...), mk(ref.OpCont, true, []byte("unwanted-2"))...)
		stream = append(stream, mk(ref.OpText, true, []byte("wanted"))...)
		if entry == "Reader-Discard" {
			rd := &wsutil.Reader{Source: xport.NewChunker(stream, plan), State: st, OnIntermediate: wsutil.ControlFrameHandler(dst, hst)}
			if _, e := rd.NextFrame(); e != nil {
				return nil, fmt.Errorf("harness: NextFrame: %v", e)
			}
			if k := len(payload) % 3; k > 0 {
				io.ReadFull(rd, make([]byte, k*5)) // part of the first fragment, or exactly all of it
			}
			if e := rd.Discard(); e != nil {
				return nil, e
			}
			hdr, e := rd.NextFrame()
			if e != nil {
				return nil, e
			}
			data, e := io.ReadAll(rd)
			if e == nil && (hdr.OpCode != ws.OpText || string(data) != "wanted") {
				return nil, fmt.Errorf("harness: message after the discarded one corrupted: op=%x %q", hdr.OpCode, data)
			}
			return nil, e
		}
		rw := xport.RW{Reader: xport.NewChunker(stream, plan), Writer: dst}
		var data []byte
		var e error
		if side == ref.SideServer {
			data, e = wsutil.ReadClientText(rw)
		} else {
			data, e = wsutil.ReadServerText(rw)
		}
		if e == nil && string(data) != "wanted" {
			return nil, fmt.Errorf("harness: message after the skipped one corrupted: %q", data)
		}
		return nil, e
	case "HandleControlMessage":
		return nil, wsutil.HandleControlMessage(dst, hst, wsutil.Message{OpCode: ws.OpCode(op), Payload: append([]byte(nil), payload...)})
	case "HandleSideControlMessage":
		m := wsutil.Message{OpCode: ws.OpCode(op), Payload: append([]byte(nil), payload...)}
		if side == ref.SideServer {
			return nil, wsutil.HandleClientControlMessage(dst, m)
		}
		return nil, wsutil.HandleServerControlMessage(dst, m)
	case "ReadData":
		fh := ref.Header{Fin: true, Op: ref.OpText, Masked: h.Masked, Mask: h.Mask}
		stream := append(append([]byte(nil), frame...), ref.Frame{H: fh, Payload: []byte("hello")}.Encode()...)
		rw := xport.RW{Reader: xport.NewChunker(stream, plan), Writer: dst}
		var data []byte
		var e error
		if side == ref.SideServer {
			data, _, e = wsutil.ReadClientData(rw)
		} else {
			data, _, e = wsutil.ReadServerData(rw)
		}
		if e == nil && string(data) != "hello" {
			return nil, fmt.Errorf("harness: following message corrupted: %q", data)
		}
		return nil, e
	}
	panic("unknown entry")
}

// checkReplyFrame checks the clauses common to every reply: one final frame the
// peer's header check accepts, <= 125 bytes, masked with a correctly applied key
// exactly when sent by a client. It returns the parsed frame.
func checkReplyFrame(c *mon.C, sigp string, side ref.Side, written []byte, det map[string]interface{}) (ref.Frame, bool) {
	frames, consumed, bad := ref.ParseFrames(written)
	det["written"] = fmt.Sprintf("%x", written)
	if bad != "" || consumed != len(written) || len(frames) != 1 {
		c.Fail(sigp+"/not-one-frame", fmt.Sprintf("reply is not exactly one whole frame (%d frames, %d of %d bytes parsed, %s)", len(frames), consumed, len(written), bad), det)
		return ref.Frame{}, false
	}
	f := frames[0]
	if f.H.Masked != (side == ref.SideClient) {
		c.Fail(sigp+"/mask-bit", fmt.Sprintf("reply masked=%v from a %s", f.H.Masked, sideName(side)), det)
		return f, false
	}
	if br := ref.BrokenRules(f.H, peerOf(side), false, false); len(br) > 0 {
		c.Fail(sigp+"/peer-rejects", fmt.Sprintf("reply header breaks %v for the peer", br), det)
		return f, false
	}
	if err := ws.CheckHeader(wsx.ToWS(f.H), wsx.State(peerOf(side), false, false)); err != nil {
		c.Fail(sigp+"/peer-checkheader", "the peer's CheckHeader rejects the reply: "+err.Error(), det)
		return f, false
	}
	if !f.H.Fin || len(f.Payload) > 125 {
		c.Fail(sigp+"/shape", "reply is not a single final frame of at most 125 bytes", det)
		return f, false
	}
	return f, true
}

func sideName(s ref.Side) string {
	if s == ref.SideServer {
		return "server"
	}
	return "client"
}

func subPingPong() mon.Sub {
	return mon.Sub{
		Name: "ping-pong", Exhaustive: true, Required: true,
		N: func(string) int { return 126 * 2 },
		Do: func(c *mon.C) {
			n := c.I % 126
			side := []ref.Side{ref.SideServer, ref.SideClient}[c.I/126]
			payload := make([]byte, n)
			c.Rng.Read(payload)
			plans := xport.Plans(c.Rng.Int63(), nil)
			for _, op := range []byte{ref.OpPing, ref.OpPong} {
				for ei, entry := range entries {
					plan := plans[(c.I+ei)%len(plans)]
					c.Count(1)
					written, err := runControl(c, entry, side, op, payload, plan)
					det := map[string]interface{}{"op": op, "len": n, "side": sideName(side), "entry": entry, "plan": plan.String(), "err": fmt.Sprint(err), "payload": fmt.Sprintf("%x", payload)}
					sigp := fmt.Sprintf("%s/%s/%s", map[byte]string{ref.OpPing: "ping", ref.OpPong: "pong"}[op], entry, sideName(side))
					if err != nil {
						c.Fail(sigp+"/error", "handling a valid control frame returned "+err.Error(), det)
						return
					}
					if op == ref.OpPong {
						if len(written) != 0 {
							det["written"] = fmt.Sprintf("%x", written)
							c.Fail(sigp+"/reply-to-pong", "something was written in reply to a pong", det)
							return
						}
					} else {
						f, ok := checkReplyFrame(c, sigp, side, written, det)
						if !ok {
							return
						}
						if f.H.Op != ref.OpPong || !bytes.Equal(f.Payload, payload) {
							c.Fail(sigp+"/content", "reply to ping is not a pong with the identical payload", det)
							return
						}
					}
					c.Classf("%s len=%d plan=%s", sigp, n, plan.Kind)
				}
			}
			c.Sample(map[string]interface{}{"payload_len": n, "side": sideName(side), "opcodes": "ping,pong", "entries": entries})
		},
	}
}

var (
	// valid reasons include the characters a hand-written validator trips over: U+FFFD itself (what a decoder
	// returns for garbage, but also a character a peer may send), the first and last code points of each encoded
	// length, non-characters, NUL
	validReasons = [][]byte{nil, []byte("bye"), []byte("€ going away \U0001F600"), []byte("sanitised \uFFFD text"), []byte("\uFFFD"), []byte("\u0080\u07FF\u0800\uD7FF\uE000\uFFFF\U00010000\U0010FFFF"), []byte("nul \x00 inside"), []byte("\uFEFFbom")}
	invalidReasons = [][]byte{{0xff}, {'o', 'k', 0xc3}, {0xed, 0xa0, 0x80}, {0xc0, 0xaf}, {0xf4, 0x90, 0x80, 0x80}, {'a', 0xef, 0xbf}}
)

// checkClose decides one close exchange.
func checkClose(c *mon.C, entry string, side ref.Side, payload []byte, plan xport.Plan) bool {
	c.Count(1)
	written, err := runControl(c, entry, side, ref.OpClose, payload, plan)
	det := map[string]interface{}{"payload": fmt.Sprintf("%x", payload), "side": sideName(side), "entry": entry, "plan": plan.String(), "err": fmt.Sprint(err), "err_type": fmt.Sprintf("%T", err)}
	kind := "empty"
	var code uint16
	var reason []byte
	cls := ref.CodeRefuse
	reasonOK := true
	switch {
	case len(payload) == 0:
	case len(payload) == 1:
		kind = "1byte"
	default:
		code = uint16(payload[0])<<8 | uint16(payload[1])
		reason = payload[2:]
		cls = ref.CloseCodeClass(code)
		reasonOK = utf8.Valid(reason)
		kind = map[ref.CodeClass]string{ref.CodeAccept: "accept", ref.CodeRefuse: "refuse", ref.CodeOpen: "open"}[cls]
		if !reasonOK {
			kind += "-badreason"
		}
	}
	det["kind"] = kind
	sigp := fmt.Sprintf("close/%s/%s/%s", entry, sideName(side), kind)
	f, ok := checkReplyFrame(c, sigp, side, written, det)
	if !ok {
		return false
	}
	if f.H.Op != ref.OpClose {
		c.Fail(sigp+"/opcode", "reply to close is not a close frame", det)
		return false
	}
	// reply payload must itself be an acceptable close payload
	var rcode uint16
	if len(f.Payload) == 1 {
		c.Fail(sigp+"/reply-1byte", "reply close has a 1-byte payload", det)
		return false
	}
	if len(f.Payload) >= 2 {
		rcode = uint16(f.Payload[0])<<8 | uint16(f.Payload[1])
		if ref.CloseCodeClass(rcode) == ref.CodeRefuse || !utf8.Valid(f.Payload[2:]) {
			c.Fail(sigp+"/reply-payload", fmt.Sprintf("reply close payload (code %d) would be refused by the close-payload check", rcode), det)
			return false
		}
		if e := ws.CheckCloseFrameData(ws.StatusCode(rcode), string(f.Payload[2:])); e != nil && ref.CloseCodeClass(rcode) == ref.CodeAccept {
			c.Fail(sigp+"/reply-check", "CheckCloseFrameData refuses the reply: "+e.Error(), det)
			return false
		}
	}
	det["reply_code"] = rcode
	ce, isClosed := err.(wsutil.ClosedError)
	_, isProto := err.(ws.ProtocolError)
	if isClosed && len(payload) >= 2 {
		// The application keeps the returned error while the connection code goes on
		// using the library (same-sized control frames through the same entry, so any
		// pooled scratch memory is handed out again): code and reason must not change.
		before := strings.Clone(ce.Reason)
		scrub := bytes.Repeat([]byte{'Z'}, len(payload))
		scrub[0], scrub[1] = 0x03, 0xe8
		runControl(c, entry, side, ref.OpClose, scrub, plan)
		runControl(c, entry, side, ref.OpPing, bytes.Repeat([]byte{'Q'}, len(payload)), plan)
		if ce.Reason != before {
			det["reason_when_returned"], det["reason_after_later_frames"] = fmt.Sprintf("%x", before), fmt.Sprintf("%x", ce.Reason)
			c.Fail(sigp+"/returned-reason-mutated", "the reason held by the returned ClosedError changed after later control frames were handled", det)
			return false
		}
	}
	expectEcho := func() bool {
		if !isClosed || uint16(ce.Code) != code || ce.Reason != string(reason) {
			c.Fail(sigp+"/returned", fmt.Sprintf("returned %T %v, want ClosedError{%d, reason}", err, err, code), det)
			return false
		}
		if len(f.Payload) < 2 || rcode != code {
			c.Fail(sigp+"/echo-code", fmt.Sprintf("reply carries code %d, peer sent %d", rcode, code), det)
			return false
		}
		return true
	}
	expectProto := func() bool {
		if !isProto {
			c.Fail(sigp+"/returned", fmt.Sprintf("returned %T %v, want a ws.ProtocolError", err, err), det)
			return false
		}
		okCodes := rcode == 1002 || (rcode == 1007 && cls == ref.CodeAccept && !reasonOK)
		if !okCodes {
			c.Fail(sigp+"/proto-code", fmt.Sprintf("reply to an invalid close carries code %d, want 1002 (or 1007 for a bad reason)", rcode), det)
			return false
		}
		return true
	}
	switch {
	case len(payload) == 0:
		if len(f.Payload) != 0 {
			c.Fail(sigp+"/reply-not-empty", "reply to an empty close is not an empty close", det)
			return false
		}
		if !isClosed || ce.Code != ws.StatusNoStatusRcvd {
			c.Fail(sigp+"/returned", fmt.Sprintf("returned %T %v, want ClosedError{1005}", err, err), det)
			return false
		}
	case len(payload) == 1, cls == ref.CodeRefuse, !reasonOK:
		if !expectProto() {
			return false
		}
	case cls == ref.CodeAccept:
		if !expectEcho() {
			return false
		}
	default: // OPEN code with a valid reason: either treatment, consistently
		if isClosed {
			if !expectEcho() {
				return false
			}
		} else if !expectProto() {
			return false
		}
	}
	c.Classf("%s plan=%s codeRange=%d", sigp, plan.Kind, code/500)
	return true
}

func subCloseAllCodes() mon.Sub {
	return mon.Sub{
		Name: "close-all-codes", Exhaustive: true, Required: true,
		N: func(string) int { return 256 * 2 },
		Do: func(c *mon.C) {
			side := []ref.Side{ref.SideServer, ref.SideClient}[c.I/256]
			plans := xport.Plans(c.Rng.Int63(), nil)
			for lo := 0; lo < 256; lo++ {
				code := uint16(c.I%256)<<8 | uint16(lo)
				for ri, r := range [][]byte{validReasons[(lo+c.I)%len(validReasons)], invalidReasons[(lo+c.I)%len(invalidReasons)]} {
					payload := append([]byte{byte(code >> 8), byte(code)}, r...)
					entry := "Handle"
					if c.Tier == "thorough" {
						entry = entries[(lo+ri)%len(entries)]
					}
					if !checkClose(c, entry, side, payload, plans[(lo+ri)%len(plans)]) {
						return
					}
				}
			}
			c.Sample(map[string]interface{}{"codes": fmt.Sprintf("%d..%d", c.I%256<<8, c.I%256<<8|255), "side": sideName(side), "reasons": "valid and invalid UTF-8"})
		},
	}
}

func subCloseEntries() mon.Sub {
	interesting := []uint16{0, 1, 999, 1000, 1001, 1002, 1003, 1004, 1005, 1006, 1007, 1008, 1009, 1010, 1011, 1012, 1013, 1014, 1015, 1016, 1999, 2000, 2999, 3000, 3999, 4000, 4999, 5000, 65535}
	return mon.Sub{
		Name: "close-entries", Required: true,
		N: func(t string) int {
			if t == "thorough" {
				return len(entries) * 2 * 400
			}
			return len(entries) * 2 * 40
		},
		Do: func(c *mon.C) {
			entry := entries[c.I%len(entries)]
			side := []ref.Side{ref.SideServer, ref.SideClient}[c.I/len(entries)%2]
			plans := xport.Plans(c.Rng.Int63(), nil)
			// fixed part: empty, 1-byte, all interesting codes x 3 reason kinds
			k := c.I / len(entries) / 2
			if k == 0 {
				if !checkClose(c, entry, side, nil, plans[0]) || !checkClose(c, entry, side, []byte{0x03}, plans[1]) {
					return
				}
				for _, code := range interesting {
					for _, r := range [][]byte{nil, validReasons[2+int(code)%(len(validReasons)-2)], invalidReasons[int(code)%len(invalidReasons)]} {
						if !checkClose(c, entry, side, append([]byte{byte(code >> 8), byte(code)}, r...), plans[int(code)%len(plans)]) {
							return
						}
					}
				}
				// longest possible reason
				long := bytes.Repeat([]byte("x"), 123)
				if !checkClose(c, entry, side, append([]byte{0x03, 0xe8}, long...), plans[2]) {
					return
				}
			}
			for j := 0; j < 50; j++ {
				code := uint16(c.Rng.Intn(65536))
				if c.Rng.Intn(2) == 0 {
					code = uint16(900 + c.Rng.Intn(4200))
				}
				var r []byte
				switch c.Rng.Intn(3) {
				case 1:
					r = validReasons[1+c.Rng.Intn(len(validReasons)-1)]
				case 2:
					r = invalidReasons[c.Rng.Intn(len(invalidReasons))]
				}
				if !checkClose(c, entry, side, append([]byte{byte(code >> 8), byte(code)}, r...), plans[c.Rng.Intn(len(plans))]) {
					return
				}
			}
			c.Sample(map[string]interface{}{"entry": entry, "side": sideName(side), "codes": "interesting + 50 random", "reasons": "none/valid/invalid"})
		},
	}
}

var cwSizes = []int{0, 1, 60, 62, 63, 64, 124, 125, 126, 200}
// 0 = NewControlWriter; the sizes above 65535 are slabs of an application's own pool (the header reservation of the
// buffered writers depends on the buffer size: the tiers change at 65539 / 65543 bytes)
var cwBufs = []int{0, 8, 16, 127, 131, 133, 200, 4096, 65539, 65540, 65543, 65544, 65550, 131072, 1 << 20}

// subAfterFailure: a control frame whose payload source FAILS in the middle (the peer died, a read error) is followed -
// on another connection of the same side, same goroutine - by a complete ping / close: the reply to the second one is
// what it would be had the first never happened. Whatever the handlers keep between calls (pooled writers, buffers)
// must not carry over.
func subAfterFailure() mon.Sub {
	return mon.Sub{
		Name: "after-failed-control-frame", Required: true,
		N: func(t string) int {
			if t == "thorough" {
				return 20000
			}
			return 1200
		},
		Do: func(c *mon.C) {
			side := []ref.Side{ref.SideServer, ref.SideClient}[c.I%2]
			st := wsx.State(side, false, false)
			L := []int{125, 100, 60, 126 - c.I%50, 2}[c.I/2%5]
			k := []int{1, L / 2, L - 1, 0}[c.I/10%4]
			if k >= L {
				k = L - 1
			}
			M := []int{125, 124, 100, 125 - k + 1, 126 - L, 64, 1}[c.I/40%7]
			if M < 1 || M > 125 {
				M = 125
			}
			firstOp := []byte{ref.OpPing, ref.OpPing, ref.OpPong, ref.OpClose}[c.I/7%4]
			first := make([]byte, L)
			c.Rng.Read(first)
			if firstOp == ref.OpClose {
				first[0], first[1] = 0x03, 0xe8
				for i := 2; i < L; i++ {
					first[i] = 'a' + byte(i%26)
				}
			}
			det := map[string]interface{}{"side": sideName(side), "first_frame": fmt.Sprintf("op=%x announcing %d bytes, source fails after %d", firstOp, L, k), "second_ping_bytes": M}
			// 1. the frame that fails (through the handler, or through ReadData on a cut connection)
			var junk bytes.Buffer
			failing := xport.NewCutter(first, xport.Plan{Kind: "whole"}, k, xport.FaultKinds[c.I%len(xport.FaultKinds)].Err)
			if c.I/3%2 == 0 {
				wsutil.ControlHandler{Src: failing, Dst: &junk, State: st, DisableSrcCiphering: true}.Handle(ws.Header{Fin: true, OpCode: ws.OpCode(firstOp), Length: int64(L)})
			} else {
				f := ref.Frame{H: ref.Header{Fin: true, Op: firstOp, Masked: side == ref.SideServer}, Payload: first}
				if f.H.Masked {
					c.Rng.Read(f.H.Mask[:])
				}
				enc := f.Encode()
				cutAt := len(enc) - (L - k)
				rw := xport.RW{Reader: xport.NewCutter(enc, xport.Plan{Kind: "whole"}, cutAt, xport.FaultKinds[c.I%len(xport.FaultKinds)].Err), Writer: &junk}
				wsutil.ReadData(rw, st)
			}
			// 2. a complete ping on another connection
			c.Count(1)
			second := make([]byte, M)
			c.Rng.Read(second)
			var out bytes.Buffer
			var err error
			entry := []string{"Handle", "HandleControlMessage", "ReadData"}[c.I/5%3]
			switch entry {
			case "Handle":
				err = wsutil.ControlHandler{Src: bytes.NewReader(second), Dst: &out, State: st, DisableSrcCiphering: true}.Handle(ws.Header{Fin: true, OpCode: ws.OpPing, Length: int64(M)})
			case "HandleControlMessage":
				err = wsutil.HandleControlMessage(&out, st, wsutil.Message{OpCode: ws.OpPing, Payload: append([]byte(nil), second...)})
			case "ReadData":
				pf := ref.Frame{H: ref.Header{Fin: true, Op: ref.OpPing, Masked: side == ref.SideServer}, Payload: second}
				if pf.H.Masked {
					c.Rng.Read(pf.H.Mask[:])
				}
				df := ref.Frame{H: ref.Header{Fin: true, Op: ref.OpBinary, Masked: side == ref.SideServer}, Payload: []byte("data")}
				if df.H.Masked {
					c.Rng.Read(df.H.Mask[:])
				}
				var p []byte
				p, _, err = wsutil.ReadData(xport.RW{Reader: bytes.NewReader(append(pf.Encode(), df.Encode()...)), Writer: &out}, st)
				if err == nil && string(p) != "data" {
					err = fmt.Errorf("message behind the ping read as %q", p)
				}
			}
			det["entry"], det["err"] = entry, fmt.Sprint(err)
			if err != nil {
				c.Fail("after-failure/error/"+entry, fmt.Sprintf("a complete %d-byte ping handled after a control frame whose source had failed: %v", M, err), det)
				return
			}
			f, ok := checkReplyFrame(c, "after-failure/"+entry, side, out.Bytes(), det)
			if !ok {
				return
			}
			if f.H.Op != ref.OpPong || !bytes.Equal(f.Payload, second) {
				c.Fail("after-failure/content/"+entry, "the reply is not a pong carrying the ping's payload", det)
				return
			}
			c.Classf("after-failure|%s|%s|first=%x", entry, sideName(side), firstOp)
		},
	}
}

func subControlWriter() mon.Sub {
	nseq := 1
	for i := 0; i < 4; i++ {
		nseq *= len(cwSizes) + 1 // +1: "no more writes"
	}
	return mon.Sub{
		Name: "control-writer", Exhaustive: true, Required: true,
		N: func(string) int { return len(cwBufs) * 2 * 3 },
		Do: func(c *mon.C) {
			bufN := cwBufs[c.I%len(cwBufs)]
			side := []ref.Side{ref.SideServer, ref.SideClient}[c.I/len(cwBufs)%2]
			op := []byte{ref.OpPing, ref.OpPong, ref.OpClose}[c.I/len(cwBufs)/2]
			st := wsx.State(side, false, false)
			step := 1
			var bigBuf []byte
			if bufN > 4096 {
				step = 7 // (a sample of the write sequences for the slabs: 7 is coprime to the 11 choices per write)
				bigBuf = make([]byte, bufN)
			}
			for seq := 0; seq < nseq; seq += step {
				// decode the sequence: up to 4 writes; a Flush is inserted after write #flushAt as well as at the end
				var sizes []int
				x := seq
				for i := 0; i < 4; i++ {
					d := x % (len(cwSizes) + 1)
					x /= len(cwSizes) + 1
					if d == len(cwSizes) {
						break
					}
					sizes = append(sizes, cwSizes[d])
				}
				for flushAt := -1; flushAt < len(sizes)-1; flushAt++ {
					if !runControlWriter(c, bufN, side, st, op, sizes, flushAt, bigBuf) {
						return
					}
				}
			}
			c.Classf("buf=%d side=%d op=%x", bufN, side, op)
			c.Sample(map[string]interface{}{"buffer": bufN, "side": sideName(side), "opcode": op, "write_size_sequences": nseq, "sizes": cwSizes})
		},
	}
}

// plainReader hides every optional method of a source (no WriterTo).
type plainReader struct{ r io.Reader }

func (p plainReader) Read(b []byte) (int, error) { return p.r.Read(b) }

func runControlWriter(c *mon.C, bufN int, side ref.Side, st ws.State, op byte, sizes []int, flushAt int, bigBuf []byte) bool {
	c.Count(1)
	dst := xport.NewRec()
	var w *wsutil.ControlWriter
	if bufN == 0 {
		w = wsutil.NewControlWriter(dst, st, ws.OpCode(op))
	} else {
		buf := bigBuf
		if len(buf) != bufN {
			buf = make([]byte, bufN)
		}
		w = wsutil.NewControlWriterBuffer(dst, st, ws.OpCode(op), buf)
	}
	det := map[string]interface{}{"buffer": bufN, "side": sideName(side), "opcode": op, "writes": sizes, "flush_after_write": flushAt}
	var trace []string
	var accepted []byte // accepted since the last flush
	var emitted []byte
	parsed := 0
	ctr := 0
	check := func(after string) bool {
		all := dst.Bytes()
		frames, consumed, bad := ref.ParseFrames(all[parsed:])
		if bad != "" || parsed+consumed != len(all) {
			det["trace"] = trace
			c.Fail("controlwriter/partial-frame", "bytes sent after "+after+" do not form whole frames", det)
			return false
		}
		parsed += consumed
		for _, f := range frames {
			det["trace"] = trace
			switch {
			case !f.H.Fin:
				c.Fail("controlwriter/non-final", fmt.Sprintf("ControlWriter emitted a non-final frame (op=%x len=%d) after %s", f.H.Op, len(f.Payload), after), det)
				return false
			case len(f.Payload) > 125:
				c.Fail("controlwriter/oversized", fmt.Sprintf("ControlWriter emitted a %d-byte control frame", len(f.Payload)), det)
				return false
			case f.H.Op != op:
				c.Fail("controlwriter/opcode", fmt.Sprintf("ControlWriter emitted opcode %x, configured %x", f.H.Op, op), det)
				return false
			case f.H.Masked != (side == ref.SideClient):
				c.Fail("controlwriter/mask-bit", "mask bit does not match the side", det)
				return false
			case f.H.Rsv != 0:
				c.Fail("controlwriter/rsv", "rsv bits set", det)
				return false
			}
			emitted = append(emitted, f.Payload...)
		}
		return true
	}
	flush := func() bool {
		err := w.Flush()
		trace = append(trace, fmt.Sprintf("Flush -> %v", err))
		if !check("Flush") {
			return false
		}
		if err == nil && !bytes.Equal(emitted, accepted) {
			det["trace"] = trace
			c.Fail("controlwriter/lost", fmt.Sprintf("after Flush %d bytes were emitted but %d were accepted", len(emitted), len(accepted)), det)
			return false
		}
		if err != nil && len(accepted) <= 125 {
			det["trace"] = trace
			c.Fail("controlwriter/flush-error", "Flush failed on a healthy destination: "+err.Error(), det)
			return false
		}
		accepted, emitted = nil, nil
		return true
	}
	for i, n := range sizes {
		p := make([]byte, n)
		for j := range p {
			ctr++
			p[j] = byte(ctr)
		}
		// every third sequence hands some of its pieces over with io.Copy from a plain reader (what HandlePing does
		// with a ping's payload): whichever of Write / io.ReaderFrom the copy ends up in, the limit is one limit
		viaCopy := len(sizes) > 0 && (ctr+flushAt+len(sizes))%3 == 0 && (i+ctr)%2 == 0 && n > 0
		var m int
		var err error
		if viaCopy {
			var m64 int64
			m64, err = io.Copy(w, plainReader{bytes.NewReader(p)})
			m = int(m64)
		} else {
			m, err = w.Write(p)
		}
		trace = append(trace, fmt.Sprintf("%s(%d) -> (%d, %v)", map[bool]string{true: "io.Copy", false: "Write"}[viaCopy], n, m, err))
		if m < 0 || m > n {
			det["trace"] = trace
			c.Fail("controlwriter/count", "Write returned an impossible count", det)
			return false
		}
		if err == nil && m != n {
			det["trace"] = trace
			c.Fail("controlwriter/short-nil", "Write returned n < len(p) with a nil error", det)
			return false
		}
		if err == nil && len(accepted)+n > 125 {
			det["trace"] = trace
			c.Fail("controlwriter/overflow-accepted", fmt.Sprintf("Write of %d bytes accepted although %d were already accepted: the 125-byte limit is crossed", n, len(accepted)), det)
			return false
		}
		accepted = append(accepted, p[:m]...)
		if !check(fmt.Sprintf("Write #%d", i)) {
			return false
		}
		if i == flushAt && !flush() {
			return false
		}
	}
	return flush()
}

func main() {
	mon.Main(&mon.Spec{
		Property: "C08",
		Level:    "exploration",
		Rule: "cases: ping and pong x every payload length 0..125 x both sides x 13 entry points (ControlHandler.Handle given the header of a frame the application already unmasked in place; ControlFrameHandler as OnIntermediate and the ReadData helpers also between the halves of a character split across two fragments of a TEXT message under UTF-8 checking; ControlHandler.Handle with masked source / pre-unmasked source, HandlePing/Pong/Close, ControlFrameHandler in-line and as OnIntermediate, HandleControlMessage and its Client/Server shortcuts, ReadData in-line) under varied source chunk plans; 0-9 pings/pongs (payloads 0..125) in front of and between the 2-4 fragments of one message collected by ReadMessage and answered afterwards with HandleControlMessage (every collected payload intact when answered, one echoing pong per ping); close: all 65536 codes x valid/invalid reasons x both sides (through Handle in quick, spread over all entry points in thorough) plus empty, 1-byte, longest-reason and 29 boundary codes through every entry point; " +
			"ControlWriter: both constructors x 8 buffers x both sides x 3 opcodes x ALL write-size sequences of <= 4 writes over {0,1,60,62,63,64,124,125,126,200} x flush positions. Replies are parsed by the reference parser and checked against the peer's header rules, ws.CheckHeader, the close-payload classes and the expected content; distinct = (kind, entry, side, length/plan/code range).",
		Assumptions: []string{"for codes the statement leaves open (1012-1014, >= 5000) either echo or 1002 is accepted but reply and returned error must agree", "a ControlWriter is reusable after Flush (limit counted per control frame)"},
		Subs:        []mon.Sub{subPingPong(), subCloseAllCodes(), subCloseEntries(), subControlWriter(), subInterleaved(), subAfterFailure(), subLongLived()},
	})
}
