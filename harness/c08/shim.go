//go:build shim

package main

import "github.com/gobwas/pool"

// Built against the instrumented pool (bin/check does): the control handlers
// take their reply buffers from the byte pool; a buffer handed back is
// overwritten with a pattern at once and reused last-in first-out, so a reply
// (or a reported close reason) that refers to a buffer already returned shows
// the pattern.
func init() { pool.Configure(true, pool.ReuseLIFO, false, false) }
