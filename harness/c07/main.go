// C07 — text messages are accepted iff their whole payload is valid UTF-8.
package main

import (
	"bytes"
	"fmt"
	"io"
	"unicode/utf8"

	"github.com/gobwas/ws/wsflate"
	"github.com/gobwas/ws/wsutil"

	"verifharness/drive"
	"verifharness/gen"
	"verifharness/mon"
	"verifharness/ref"
	"verifharness/xport"
)

// compReader delivers data cut after byte i whenever bit i of cuts is set.
type compReader struct {
	data []byte
	cuts uint64
	pos  int
}

func (r *compReader) Read(p []byte) (int, error) {
	if r.pos >= len(r.data) {
		return 0, io.EOF
	}
	n := 0
	for n < len(p) && r.pos < len(r.data) {
		p[n] = r.data[r.pos]
		n++
		r.pos++
		if r.cuts>>(uint(r.pos-1))&1 == 1 {
			break
		}
	}
	return n, nil
}

// standalone drains a UTF8Reader and returns the library's verdict.
func standalone(data []byte, cuts uint64, buf int) (valid bool, err error) {
	u := wsutil.NewUTF8Reader(&compReader{data: data, cuts: cuts})
	p := make([]byte, buf)
	for {
		_, e := u.Read(p)
		if e == io.EOF {
			return u.Valid(), nil
		}
		if e == wsutil.ErrInvalidUTF8 {
			return false, nil
		}
		if e != nil {
			return false, e
		}
	}
}

var rbufs = []int{1, 2, 3, 4, 64}

func checkString(c *mon.C, data []byte, allComps bool) bool {
	want := utf8.Valid(data)
	n := len(data)
	ncomp := uint64(1)
	if n > 1 {
		ncomp = 1 << uint(n-1)
	}
	step := uint64(1)
	if !allComps && ncomp > 4 {
		step = ncomp/4 + 1
	}
	for cuts := uint64(0); cuts < ncomp; cuts += step {
		for _, b := range rbufs {
			if b > n && b != 64 {
				continue
			}
			c.Count(1)
			got, err := standalone(data, cuts, b)
			if err != nil || got != want {
				c.Fail(fmt.Sprintf("standalone/verdict/want-%v", want), fmt.Sprintf("UTF8Reader verdict valid=%v (err=%v) but utf8.Valid=%v for % x", got, err, want, data),
					map[string]interface{}{"bytes": fmt.Sprintf("% x", data), "cuts_bitmask": cuts, "read_buf": b})
				return false
			}
		}
	}
	return true
}

func seqClass(data []byte) string {
	if len(data) == 0 {
		return "empty"
	}
	b := data[0]
	switch {
	case b < 0x80:
		return "ascii"
	case b < 0xc0:
		return "cont"
	case b < 0xc2:
		return "overlong2"
	case b < 0xe0:
		return "lead2"
	case b < 0xf0:
		return fmt.Sprintf("lead3-%x", b)
	case b < 0xf5:
		return fmt.Sprintf("lead4-%x", b)
	}
	return "invalid-lead"
}

func subShort() mon.Sub {
	return mon.Sub{
		Name: "standalone-short", Exhaustive: true, Required: true,
		N: func(string) int { return 256 },
		Do: func(c *mon.C) {
			b0 := byte(c.I)
			if c.I == 0 && !checkString(c, nil, true) {
				return
			}
			if !checkString(c, []byte{b0}, true) {
				return
			}
			for b1 := 0; b1 < 256; b1++ {
				if !checkString(c, []byte{b0, byte(b1)}, true) {
					return
				}
				if c.Tier == "thorough" {
					for b2 := 0; b2 < 256; b2++ {
						if !checkString(c, []byte{b0, byte(b1), byte(b2)}, true) {
							return
						}
					}
				}
			}
			// structured cover of 3- and 4-byte strings: boundary continuation values in each position
			edge := []byte{0x00, 0x7f, 0x80, 0x8f, 0x90, 0x9f, 0xa0, 0xbf, 0xc0, 0xff}
			for _, x := range edge {
				for _, y := range edge {
					if !checkString(c, []byte{b0, x, y}, true) {
						return
					}
					for _, z := range edge {
						if !checkString(c, []byte{b0, x, y, z}, true) {
							return
						}
					}
				}
			}
			c.Classf("lead=%s", seqClass([]byte{b0}))
			c.Classf("b0=%02x", b0)
			c.Sample(map[string]interface{}{"first_byte": fmt.Sprintf("%02x", b0), "strings": "all of length 1..2 (quick) / 1..3 (thorough) + edge cover of 3- and 4-byte strings", "compositions": "all", "read_bufs": rbufs})
		},
	}
}

var pieces = [][]byte{
	[]byte("a"), []byte("é"), []byte("€"), []byte("\U0001F600"), []byte("߿"), []byte("ࠀ"), []byte("퟿"), []byte(""), []byte("￿"), []byte("\U00010000"), []byte("\U0010ffff"),
	{0xc3}, {0xe2, 0x82}, {0xf0, 0x9f, 0x98}, {0x80}, {0xbf}, {0xc0, 0xaf}, {0xc1, 0xbf}, {0xe0, 0x80, 0x80}, {0xe0, 0x9f, 0xbf}, {0xed, 0xa0, 0x80}, {0xed, 0xbf, 0xbf},
	{0xf0, 0x80, 0x80, 0x80}, {0xf0, 0x8f, 0xbf, 0xbf}, {0xf4, 0x90, 0x80, 0x80}, {0xf5, 0x80, 0x80, 0x80}, {0xff}, {0xfe}, {0xf8, 0x88, 0x80, 0x80, 0x80},
}

func randomString(c *mon.C, maxPieces int, validOnly bool) []byte {
	var out []byte
	n := c.Rng.Intn(maxPieces + 1)
	for i := 0; i < n; i++ {
		k := c.Rng.Intn(len(pieces))
		if validOnly || c.Rng.Intn(3) != 0 {
			k = c.Rng.Intn(11)
		}
		out = append(out, pieces[k]...)
	}
	return out
}

func subLong() mon.Sub {
	return mon.Sub{
		Name: "standalone-long", Required: true,
		N: func(t string) int {
			if t == "thorough" {
				return 300000
			}
			return 20000
		},
		Do: func(c *mon.C) {
			data := randomString(c, 64, c.Rng.Intn(3) == 0)
			want := utf8.Valid(data)
			for k := 0; k < 4; k++ {
				plan := xport.Plans(c.Rng.Int63(), nil)[c.Rng.Intn(11)]
				b := rbufs[c.Rng.Intn(len(rbufs))]
				c.Count(1)
				u := wsutil.NewUTF8Reader(xport.NewChunker(data, plan))
				p := make([]byte, b)
				got := false
				if k == 3 {
					// the consumer drains through io.Copy (any io.WriterTo fast path of the reader included)
					if _, e := io.Copy(io.Discard, u); e == nil {
						got = u.Valid()
					}
				} else {
					for {
						_, e := u.Read(p)
						if e == io.EOF {
							got = u.Valid()
							break
						}
						if e != nil {
							break
						}
					}
				}
				if got != want {
					c.Fail(fmt.Sprintf("standalone-long/verdict/want-%v", want), fmt.Sprintf("UTF8Reader verdict %v but utf8.Valid=%v", got, want), map[string]interface{}{"bytes": fmt.Sprintf("% x", data), "plan": plan.String(), "read_buf": b})
					return
				}
			}
			c.Classf("valid=%v len=%d", want, len(data)/8)
			c.Sample(map[string]interface{}{"bytes": fmt.Sprintf("% x", data), "valid": want})
		},
	}
}

// msg is a message of a reader-level case.
type msg struct {
	op      byte
	payload []byte
	cuts    uint64 // fragment boundaries after byte i
	empties uint64 // insert an empty fragment at gap i
	pings   uint64 // interleave a ping at gap i
	// emptyFinal: the last data fragment is non-final and an empty final
	// continuation closes the message.
	emptyFinal bool
	// frags, when set, are the data fragments (cuts is ignored).
	frags [][]byte
}

var ctlLens = []int{2, 125, 0, 1, 124, 125, 64}

func buildFrames(c *mon.C, ms []msg, side ref.Side) []ref.Frame {
	var shapes []gen.Shape
	var payloads [][]byte
	for _, m := range ms {
		var frags [][]byte
		start := 0
		for i := 0; i < len(m.payload); i++ {
			if i < len(m.payload)-1 && m.cuts>>uint(i)&1 == 1 {
				frags = append(frags, m.payload[start:i+1])
				start = i + 1
			}
		}
		frags = append(frags, m.payload[start:])
		if m.frags != nil {
			frags = m.frags
		}
		for fi, f := range frags {
			if fi > 0 {
				if m.pings>>uint(fi)&1 == 1 {
					// every legal control payload size, the two ends of the range above all; the payload
					// itself is bytes that are no UTF-8 (a control frame is not part of the text)
					n := ctlLens[(fi+int(m.pings>>58)+len(m.payload))%len(ctlLens)]
					cop := byte(ref.OpPing)
					if (fi+int(m.pings>>57))%3 == 0 {
						cop = ref.OpPong
					}
					shapes = append(shapes, gen.Shape{Op: cop, Fin: true, Len: n})
					payloads = append(payloads, bytes.Repeat([]byte{0xC0 | byte(fi)}, n))
				}
				if m.empties>>uint(fi)&1 == 1 {
					shapes = append(shapes, gen.Shape{Op: ref.OpCont, Fin: false, Len: 0})
					payloads = append(payloads, nil)
				}
			}
			op := m.op
			if fi > 0 {
				op = ref.OpCont
			}
			shapes = append(shapes, gen.Shape{Op: op, Fin: fi == len(frags)-1 && !m.emptyFinal, Len: len(f)})
			payloads = append(payloads, f)
		}
		if m.emptyFinal {
			if m.pings&1 == 1 {
				shapes = append(shapes, gen.Shape{Op: ref.OpPong, Fin: true, Len: 1})
				payloads = append(payloads, []byte("p"))
			}
			shapes = append(shapes, gen.Shape{Op: ref.OpCont, Fin: true, Len: 0})
			payloads = append(payloads, nil)
		}
	}
	frames := gen.Build(shapes, side, c.Rng, true)
	for i := range frames {
		frames[i].Payload = payloads[i]
	}
	return frames
}

// invalidLead: a byte that no UTF-8 sequence can start with.
func invalidLead(b byte) bool { return b >= 0x80 && b < 0xc2 || b > 0xf4 }

var readerEntries = []string{"reader", "readmessage", "readdata", "reader-discard0"}

// runMessages checks one message sequence on every entry point.
func runMessages(c *mon.C, ms []msg, side ref.Side, nplans int, payloadMarks ...int) bool {
	frames := buildFrames(c, ms, side)
	stream, starts, marks := gen.Encode(frames)
	// places where a fault that consumes nothing (an expired read deadline) can fall so that a retry finds the
	// stream where it was: in front of a frame header (inside a header or an intermediate control frame the
	// library cannot resume, and no property says it must)
	faultAt := append([]int(nil), starts...)
	if len(payloadMarks) > 0 && len(frames) == 1 {
		// transport read boundaries inside the payload of a single-frame message
		hdr := len(stream) - len(frames[0].Payload)
		marks = nil
		for _, m := range payloadMarks {
			marks = append(marks, hdr+m)
		}
	}
	firstBad := -1
	for i, m := range ms {
		if m.op == ref.OpText && !utf8.Valid(m.payload) {
			firstBad = i
			break
		}
	}
	ps := xport.Plans(c.Rng.Int63(), marks)
	if len(payloadMarks) > 0 {
		ps = []xport.Plan{{Kind: "marks", Marks: marks}, {Kind: "marks", Marks: marks, EOFWithData: true}}
	}
	for ei, entry := range readerEntries {
		o := drive.Opts{Entry: entry, Side: side, CheckUTF8: true}
		skipFirst := false
		if entry == "reader-discard0" {
			if len(ms) < 2 {
				continue
			}
			// discard the first message after one byte (possibly in the middle of a
			// code point): the next message must be judged on its own.
			o.Entry = "reader"
			o.Discard = map[int]int{0: 1}
			skipFirst = true
		}
		// expected events: all messages before the first invalid text
		var want []ref.Event
		wantErr := io.EOF
		bad := firstBad
		if skipFirst && bad == 0 {
			// the discarded message is never validated as a whole; find the next invalid one
			bad = -1
			for i := 1; i < len(ms); i++ {
				if ms[i].op == ref.OpText && !utf8.Valid(ms[i].payload) {
					bad = i
					break
				}
			}
		}
		for i, m := range ms {
			if bad >= 0 && i >= bad {
				break
			}
			if skipFirst && i == 0 {
				continue
			}
			want = append(want, ref.Event{Kind: "msg", Op: m.op, Payload: m.payload})
		}
		if bad >= 0 {
			wantErr = wsutil.ErrInvalidUTF8
		}
		for pi := 0; pi < nplans; pi++ {
			plan := ps[(c.I+ei*2+pi*3)%len(ps)]
			// (the last size stands for "the consumer drains the message with io.Copy": whatever fast path -
			// io.WriterTo, io.ReaderFrom of the destination - the copy ends up in, the verdict is the same)
			o.Buf = []int{1, 5, 4096, drive.CopyBuf}[(c.I+pi+ei)%4]
			if len(payloadMarks) > 0 {
				o.Buf = 4096 // the transport boundary, not the caller's buffer, cuts the chunk
			}
			c.Count(1)
			// every other run of the raw reader: the continuation handler reads the continuation bodies itself
			o.ContRead = o.Entry == "reader" && o.Discard == nil && (c.I+pi+len(stream))%2 == 1
			// every third run of the raw reader: its owner validates frame headers itself (all of them are valid here)
			// and has switched the reader's own header check off - which is no word about the UTF-8 check
			o.SkipCheck = o.Entry == "reader" && (c.I+pi*2+ei)%3 == 1
			// every fourth run of the raw reader takes unfragmented messages with ONE io.ReadFull of exactly the
			// announced length (no Read at all for an empty message): the reader never sees the end of that message
			// and the next one is judged by its own header all the same
			o.ExactRead = o.Entry == "reader" && o.Discard == nil && (c.I+pi+ei*3)%4 == 2
			// the last plan: the transport sits behind another kind of io.Reader
			o.Wrap = ""
			if pi == nplans-1 && nplans > 1 && len(payloadMarks) == 0 {
				o.Wrap = drive.Wraps[(c.I+ei+len(stream))%len(drive.Wraps)]
			}
			var src io.Reader = xport.NewChunker(stream, plan)
			o.Retry = false
			if entry == "reader" && pi == 0 && nplans > 1 && len(payloadMarks) == 0 {
				// a deadline-driven read loop: ONE read of the transport times out (nothing consumed) between two
				// frames or inside a payload, the consumer calls again - the verdict on the message is the same
				o.Retry, o.Wrap = true, ""
				src = &xport.Transient{R: src, At: faultAt[(c.I+ei+len(stream))%len(faultAt)], Err: xport.ErrTimeout}
			}
			o.Extended, o.Extensions = false, nil
			if entry == "reader" && !o.Retry && !o.SkipCheck && (c.I+pi+ei)%5 == 4 {
				// an endpoint with permessage-deflate negotiated (wsflate.MessageState among the reader's extensions):
				// the BINARY messages of the sequence arrive with RSV1 on their first frame (what their bytes mean is the
				// application's business), the text messages do not - and are judged as ever, before and after
				xf := append([]ref.Frame(nil), frames...)
				first := true
				for i := range xf {
					if ref.IsControl(xf[i].H.Op) {
						continue
					}
					if first && xf[i].H.Op == ref.OpBinary {
						xf[i].H.Rsv = 4
					}
					first = xf[i].H.Fin
				}
				xs, _, _ := gen.Encode(xf)
				src = xport.NewChunker(xs, plan)
				if o.Wrap != "" {
					src = drive.WrapSource(src, o.Wrap)
					o.Wrap = ""
				}
				o.Extended, o.Extensions = true, []wsutil.RecvExtension{&wsflate.MessageState{}}
			}
			obs := drive.Run(src, o)
			// compare data messages only (control events are C04's business)
			var got []ref.Event
			for _, e := range obs.Events {
				if e.Kind == "msg" {
					got = append(got, e)
				}
			}
			det := func() map[string]interface{} {
				var d []string
				for _, m := range ms {
					d = append(d, fmt.Sprintf("op=%x payload=% x cuts=%b empties=%b pings=%b emptyFinal=%v valid=%v", m.op, m.payload, m.cuts, m.empties, m.pings, m.emptyFinal, utf8.Valid(m.payload)))
				}
				return map[string]interface{}{"messages": d, "side": side, "entry": entry, "plan": plan.String(), "buf": o.Buf, "source": o.Wrap, "timeout_then_retry": o.Retry, "calls_repeated": obs.Retried, "got": drive.EventStrings(got), "want": drive.EventStrings(want), "err": fmt.Sprint(obs.Err), "want_err": fmt.Sprint(wantErr)}
			}
			if skipFirst && firstBad == 0 && len(got) == 0 && obs.Err == wsutil.ErrInvalidUTF8 && (len(ms[0].payload) == 1 || invalidLead(ms[0].payload[0])) {
				// the one byte read before Discard is already not UTF-8, or it is the whole
				// (invalid) message: reporting it is as good as skipping it
				continue
			}
			if d := drive.Diff(got, want, false); d != "" {
				sig := "reader/events/" + entry
				if len(got) > len(want) && bad >= 0 {
					sig = "reader/invalid-text-delivered/" + entry
				}
				c.Fail(sig, "messages delivered differ from the expected ones: "+d, det())
				return false
			}
			if obs.Err != wantErr {
				sig := "reader/verdict/" + entry
				switch {
				case bad >= 0 && (obs.Err == nil || obs.Err == io.EOF):
					sig = "reader/invalid-text-accepted/" + entry
				case bad < 0 && obs.Err == wsutil.ErrInvalidUTF8:
					sig = "reader/valid-text-rejected/" + entry
				}
				c.Fail(sig, fmt.Sprintf("run ended with %v, want %v", obs.Err, wantErr), det())
				return false
			}
		}
	}
	return true
}

var readerStrings = [][]byte{
	[]byte("é€"), []byte("\U0001F600a"), []byte("a€\U0001F600"), []byte("ab"), []byte("€"),
	{0xc3}, {0xe2, 0x82}, {0xed, 0xa0, 0x80}, {0xf4, 0x90, 0x80, 0x80}, {'a', 0xff, 'b'}, {0xc0, 0xaf}, {0xf0, 0x9f, 0x98, 'a'}, {0xe2, 0x82, 0xac, 0xe2},
}

func subReaderSplits() mon.Sub {
	return mon.Sub{
		Name: "reader-splits", Exhaustive: true, Required: true,
		N: func(string) int { return len(readerStrings) * 2 * 8 },
		Do: func(c *mon.C) {
			s := readerStrings[c.I%len(readerStrings)]
			side := []ref.Side{ref.SideServer, ref.SideClient}[c.I/len(readerStrings)%2]
			variant := c.I / len(readerStrings) / 2 // 0 plain, 1 pings at every gap, 2 empties at every gap, 3 both
			ncomp := uint64(1) << uint(len(s)-1)
			for cuts := uint64(0); cuts < ncomp; cuts++ {
				m := msg{op: ref.OpText, payload: s, cuts: cuts}
				if variant&1 == 1 {
					m.pings = ^uint64(0)
				}
				if variant&2 == 2 {
					m.empties = ^uint64(0)
				}
				m.emptyFinal = variant&4 == 4
				if !runMessages(c, []msg{m}, side, 3) {
					return
				}
				// the same bytes as a binary message are never rejected
				m.op = ref.OpBinary
				if !runMessages(c, []msg{m}, side, 1) {
					return
				}
			}
			c.Classf("s=%x side=%d variant=%d", s, side, variant)
			c.Sample(map[string]interface{}{"payload": fmt.Sprintf("% x", s), "valid": utf8.Valid(s), "fragmentations": ncomp, "variant": variant, "side": side})
		},
	}
}

func subReaderSeqs() mon.Sub {
	return mon.Sub{
		Name: "reader-sequences", Required: true,
		N: func(t string) int {
			if t == "thorough" {
				return 150000
			}
			return 6000
		},
		Do: func(c *mon.C) {
			side := []ref.Side{ref.SideServer, ref.SideClient}[c.Rng.Intn(2)]
			n := 1 + c.Rng.Intn(4)
			var ms []msg
			for i := 0; i < n; i++ {
				m := msg{op: ref.OpText, cuts: c.Rng.Uint64(), pings: c.Rng.Uint64() & c.Rng.Uint64(), empties: c.Rng.Uint64() & c.Rng.Uint64() & c.Rng.Uint64()}
				last := i == n-1
				m.emptyFinal = c.Rng.Intn(4) == 0
				switch c.Rng.Intn(4) {
				case 0:
					m.op = ref.OpBinary
					m.payload = randomString(c, 8, false)
				case 1:
					if last || c.Rng.Intn(4) == 0 {
						m.payload = randomString(c, 8, false) // possibly invalid text
					} else {
						m.payload = randomString(c, 8, true)
					}
				default:
					m.payload = randomString(c, 8, true)
				}
				if len(m.payload) > 40 {
					m.cuts &= c.Rng.Uint64() // fewer fragments for longer payloads
				}
				ms = append(ms, m)
			}
			if runMessages(c, ms, side, 2) {
				key := ""
				for _, m := range ms {
					key += fmt.Sprintf("%x%v", m.op, utf8.Valid(m.payload))
				}
				c.Classf("%s side=%d", key, side)
				c.Sample(map[string]interface{}{"messages": len(ms), "key": key})
			}
		},
	}
}

// torn lists multi-byte sequences (valid and boundary-invalid) that the
// torn-runs sub cuts in the middle.
var torn = [][]byte{
	[]byte("é"), []byte("߿"), []byte("€"), []byte("ࠀ"), []byte("\U0001F600"), []byte("\U00010000"), []byte("\U0010ffff"),
	{0xed, 0xa0, 0x80}, {0xed, 0x9f, 0xbf}, {0xe0, 0x80, 0x80}, {0xf4, 0x90, 0x80, 0x80}, {0xf0, 0x8f, 0xbf, 0xbf}, {0xc0, 0xaf}, {0xc2, 0x41},
}

var tornFillers = [][]byte{{'A'}, {0x00}, {0x7f}, {0x80}, {0xbf}, []byte("é"), {'A', 'B', 'C', 'D', 'E', 'F', 'G', 0xc3}}

func tornCombos() (out [][2]int) {
	for ti, t := range torn {
		for cut := 1; cut < len(t); cut++ {
			out = append(out, [2]int{ti, cut})
		}
	}
	return
}

// subTornRuns: a chunk boundary (read boundary of the standalone reader, a
// fragment boundary, a transport read boundary) strictly inside a multi-byte
// sequence, followed by a run of r filler bytes before the awaited
// continuation bytes arrive. Runs cover every length 0..40 and the word /
// cache-line sizes around 64, 128 and 256, where a block-wise fast path would
// take over.
func subTornRuns() mon.Sub {
	combos := tornCombos()
	runs := []int{}
	for r := 0; r <= 40; r++ {
		runs = append(runs, r)
	}
	runs = append(runs, 47, 48, 49, 56, 63, 64, 65, 72, 127, 128, 129, 255, 256, 257)
	prefixes := [][]byte{nil, []byte("caf"), []byte("12345678"), []byte("é")}
	return mon.Sub{
		Name: "torn-runs", Exhaustive: true, Required: true,
		N: func(string) int { return len(combos) * len(tornFillers) },
		Do: func(c *mon.C) {
			cb := combos[c.I%len(combos)]
			fill := tornFillers[c.I/len(combos)]
			seq, cut := torn[cb[0]], cb[1]
			accepted := 0
			for _, r := range runs {
				for pi, pre := range prefixes {
					for _, suf := range [][]byte{nil, []byte("z")} {
						data := append([]byte(nil), pre...)
						data = append(data, seq[:cut]...)
						at := len(data) // the chunk boundary
						for k := 0; k < r; k++ {
							data = append(data, fill...)
						}
						data = append(data, seq[cut:]...)
						data = append(data, suf...)
						want := utf8.Valid(data)
						if want {
							accepted++
						}
						// standalone reader: source hands the two pieces separately; caller buffers large and exact
						for _, plan := range []xport.Plan{{Kind: "marks", Marks: []int{at}}, {Kind: "marks", Marks: []int{at}, EOFWithData: true}, {Kind: "whole"}, {Kind: "fixed", K: 8}, {Kind: "fixed", K: 7, Hiccup: 3}} {
							for _, b := range []int{4096, len(data) - at, 8, 9} {
								if b <= 0 {
									continue
								}
								c.Count(1)
								u := wsutil.NewUTF8Reader(xport.NewChunker(data, plan))
								p := make([]byte, b)
								got, nread := false, 0
								for {
									n, e := u.Read(p)
									nread += n
									if e == io.EOF {
										got = u.Valid()
										break
									}
									if e != nil {
										break
									}
								}
								if got != want {
									c.Fail(fmt.Sprintf("torn/standalone/want-%v", want), fmt.Sprintf("UTF8Reader verdict %v but utf8.Valid=%v", got, want), map[string]interface{}{"bytes": fmt.Sprintf("% x", data), "boundary_at": at, "run": r, "plan": plan.String(), "read_buf": b})
									return
								}
								if got && nread != len(data) {
									c.Fail("torn/standalone/bytes", fmt.Sprintf("valid stream of %d bytes delivered as %d bytes", len(data), nread), map[string]interface{}{"bytes": fmt.Sprintf("% x", data), "plan": plan.String(), "read_buf": b})
									return
								}
							}
						}
						// reader level: the boundary is a fragment boundary, then a transport read boundary
						if r%8 == 0 || r < 10 || pi == 1 {
							side := []ref.Side{ref.SideServer, ref.SideClient}[(r+pi)%2]
							if at-1 < 64 {
								if !runMessages(c, []msg{{op: ref.OpText, payload: data, cuts: 1 << uint(at-1)}}, side, 2) {
									return
								}
							}
							if !runMessages(c, []msg{{op: ref.OpText, payload: data}}, side, 2, at) {
								return
							}
						}
					}
				}
			}
			c.Classf("seq=%x cut=%d fill=%x", seq, cut, fill)
			c.Sample(map[string]interface{}{"sequence": fmt.Sprintf("% x", seq), "cut_after": cut, "filler": fmt.Sprintf("% x", fill), "runs": len(runs), "contexts": len(prefixes) * 2, "valid_strings_seen": accepted})
		},
	}
}

// fillValid returns exactly n bytes of valid UTF-8 mixing 1- to 4-byte code points.
func fillValid(n int, phase int) []byte {
	units := [][]byte{[]byte("a"), []byte("é"), []byte("€"), []byte("\U0001F600"), []byte("z")}
	out := make([]byte, 0, n)
	for k := phase; len(out) < n; k++ {
		u := units[k%len(units)]
		if len(out)+len(u) > n {
			u = units[0]
		}
		out = append(out, u...)
	}
	return out
}

// sizeLens are the payload lengths on both sides of every header-length form
// (7-bit, 16-bit, 64-bit) and of the usual buffer sizes.
var sizeLens = []int{0, 1, 2, 124, 125, 126, 127, 128, 129, 255, 256, 4095, 4096, 4097, 65534, 65535, 65536, 65537, 65540, 70001, 131071, 131072}

// subReaderSizes: text messages whose length (whole, or of one fragment) sits
// exactly on a header-form or buffer threshold; valid ones must arrive intact,
// one bad byte anywhere (first, last, around the thresholds) must be refused.
func subReaderSizes() mon.Sub {
	return mon.Sub{
		Name: "reader-sizes", Exhaustive: true, Required: true,
		N: func(string) int { return len(sizeLens) * 2 },
		Do: func(c *mon.C) {
			n := sizeLens[c.I%len(sizeLens)]
			side := []ref.Side{ref.SideServer, ref.SideClient}[c.I/len(sizeLens)]
			valid := fillValid(n, c.I)
			variants := [][]byte{valid}
			if n > 0 {
				for _, at := range []int{0, n - 1, n / 2, 125, 126, 65535, 65536} {
					if at >= n {
						continue
					}
					bad := append([]byte(nil), valid...)
					bad[at] = 0xff
					variants = append(variants, bad)
				}
				cutTail := append([]byte(nil), valid...)
				cutTail[n-1] = 0xc3 // a lead byte whose continuation never comes
				variants = append(variants, cutTail)
			}
			for vi, pl := range variants {
				np := 1
				if vi == 0 {
					np = 3
				}
				// one frame
				if !runMessages(c, []msg{{op: ref.OpText, payload: pl, frags: [][]byte{pl}}}, side, np) {
					return
				}
				// two fragments, the threshold length first / last; then followed by a second message
				for _, k := range []int{1, 125, 126, 65535, 65536} {
					if k >= n || (vi > 1 && k != 126 && k != 65536) {
						continue
					}
					if !runMessages(c, []msg{{op: ref.OpText, payload: pl, frags: [][]byte{pl[:k], pl[k:]}}}, side, 1) {
						return
					}
					if !runMessages(c, []msg{{op: ref.OpText, payload: pl, frags: [][]byte{pl[:n-k], pl[n-k:]}}, {op: ref.OpText, payload: []byte("é")}}, side, 1) {
						return
					}
				}
				if vi == 0 {
					// the same bytes as binary, and behind another message
					if !runMessages(c, []msg{{op: ref.OpBinary, payload: pl, frags: [][]byte{pl}}}, side, 1) {
						return
					}
					if !runMessages(c, []msg{{op: ref.OpText, payload: []byte("€"), frags: [][]byte{[]byte("€")}}, {op: ref.OpText, payload: pl, frags: [][]byte{pl}}}, side, 1) {
						return
					}
				}
			}
			c.Classf("len=%d side=%d", n, side)
			c.Sample(map[string]interface{}{"length": n, "side": side, "variants": len(variants)})
		},
	}
}

func main() {
	mon.Main(&mon.Spec{
		Property: "C07",
		Level:    "exploration",
		Rule: "cases: standalone UTF8Reader on ALL byte strings of length <= 2 (quick) / <= 3 (thorough) plus an edge cover of 3- and 4-byte strings (every lead byte x continuation values {00,7f,80,8f,90,9f,a0,bf,c0,ff} in each position), each under every composition of its length and read buffers {1,2,3,4,64}; long strings built from 29 valid/invalid/truncated pieces under random chunk plans; torn runs: 14 multi-byte sequences cut at every inner position, then a run of r filler bytes (r = 0..40 and around 48/64/128/256; 7 fillers) before the awaited continuation bytes, in 8 contexts, with the chunk boundary exactly at the tear as source read boundary, fragment boundary and transport read boundary; " +
			"reader level: 13 boundary payloads x every fragmentation (all 2^(n-1) compositions) x {plain, ping at every gap, empty fragment at every gap, both} x {last fragment final, empty final continuation} x {Reader+CheckUTF8, ReadMessage, ReadData} x 3 chunk plans x caller buffers {1,5,4096}, the same bytes as binary, text messages (valid, and with one bad byte first / last / middle / at the thresholds / a truncated last code point) of every length in {0,1,2,124..129,255,256,4095..4097,65534..65537,65540,70001,131071,131072} as one frame and as two fragments with a threshold-length fragment first or last, and random sequences of 1-4 messages mixing valid text, binary garbage and invalid text (incl. a first message discarded mid code point). Oracle: unicode/utf8.Valid. distinct = lead-byte / (payload, side, variant) / (message-kind sequence) classes.",
		Assumptions: []string{"Go's unicode/utf8.Valid is the standard definition of UTF-8 (RFC 3629)", "an invalid message may be reported before its end"},
		Subs:        []mon.Sub{subShort(), subLong(), subTornRuns(), subReaderSplits(), subReaderSizes(), subReaderSeqs()},
	})
}
