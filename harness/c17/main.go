//go:build shim

// C17 — returned data and caller buffers are never aliased to pooled or internal memory.
package main

import (
	"bufio"
	"bytes"
	"errors"
	"fmt"
	"io"
	"net"
	"net/http"
	"net/url"
	"runtime/debug"
	"strings"

	"github.com/gobwas/httphead"
	"github.com/gobwas/pool"
	"github.com/gobwas/ws"
	"github.com/gobwas/ws/wsflate"
	"github.com/gobwas/ws/wsutil"

	"verifharness/fakeconn"
	"verifharness/gen"
	"verifharness/mon"
	"verifharness/ref"
	"verifharness/xport"
)

// held is a result kept across later operations together with what it must stay equal to.
type held struct {
	what string
	get  func() string // renders the live object
	want string
}

func renderHS(hs ws.Handshake) string {
	var b strings.Builder
	fmt.Fprintf(&b, "protocol=%q;", hs.Protocol)
	for _, o := range hs.Extensions {
		fmt.Fprintf(&b, "ext=%q", o.Name)
		o.Parameters.ForEach(func(k, v []byte) bool { fmt.Fprintf(&b, "[%q=%q]", k, v); return true })
		b.WriteString(";")
	}
	return b.String()
}

func renderOpts(protocol string, exts []string) string {
	var hs ws.Handshake
	hs.Protocol = protocol
	for _, e := range exts {
		hs.Extensions, _ = httphead.ParseOptions([]byte(e), hs.Extensions)
	}
	return renderHS(hs)
}

var tokens = []string{"chat.v2", "json.v1", "mqtt.v5", "soap.v1", "wamp.v2", "xmpp.v1"}

// protoFor: one subprotocol in seven is a long token (a bearer token carried as subprotocol name), longer than
// the read buffers in use, so that its header line does not fit the handshake reader's buffer.
func protoFor(k int) string {
	t := tokens[k%len(tokens)]
	if k%7 == 3 {
		return t + "-" + strings.Repeat(string(rune('A'+k%26)), []int{300, 700, 1500, 5000}[k/7%4]) + fmt.Sprint(k)
	}
	return t
}
func renderOptions(opts []httphead.Option) string {
	return renderHS(ws.Handshake{Extensions: opts})
}

func extFor(k int) string {
	return fmt.Sprintf("ext-%c%c; p%d=v%d; flag%d", 'a'+k%26, 'a'+(k/26)%26, k%10, (k/3)%10, k%7)
}

func checkAlarms(c *mon.C, where string) bool {
	if c.I%8 == 0 {
		pool.VerifyQuarantine()
	}
	if al := pool.TakeAlarms(); len(al) > 0 {
		kind := "write-after-put"
		if strings.HasPrefix(al[0], "double-put") {
			kind = "double-put"
		}
		c.Fail("shim/"+kind+"/"+where, "pool shim alarm: "+al[0], map[string]interface{}{"alarms": al})
		return false
	}
	return true
}

func recheck(c *mon.C, hs []held, after string) bool {
	for _, h := range hs {
		if got := h.get(); got != h.want {
			c.Fail("aliasing/"+h.what, fmt.Sprintf("%s changed after %s: now %.200q, was %.200q", h.what, after, got, h.want), map[string]interface{}{"object": h.what, "now": got, "want": h.want, "after": after})
			return false
		}
	}
	return true
}

// traffic recycles pooled buffers with look-alike but different contents.
func traffic(c *mon.C, k int) {
	var buf bytes.Buffer
	sz := []int{1, 127, 128, 129, 255, 256, 4095, 4096, 65535, 65536, 65537, 100000}[k%12]
	if sz > 60000 && k%5 != 0 {
		sz = 200 + k%700 // the 64K classes are exercised in one traffic round out of five
	}
	p := bytes.Repeat([]byte{byte('A' + k%26)}, sz)
	wsutil.WriteClientMessage(&buf, ws.OpBinary, p)
	wsutil.ReadClientData(xport.RW{Reader: &buf, Writer: io.Discard})
	w := wsutil.GetWriter(io.Discard, ws.StateClientSide, ws.OpText, 128<<(k%4))
	w.Write(p[:sz%300])
	w.Flush()
	wsutil.PutWriter(w)
	// a ping with payload and a close with reason through the pooled handler buffers
	var ctl bytes.Buffer
	wsutil.WriteClientMessage(&ctl, ws.OpPing, []byte(strings.Repeat("Q", 1+k%100)))
	wsutil.WriteClientMessage(&ctl, ws.OpClose, ws.NewCloseFrameBody(1000, strings.Repeat("Z", k%100)))
	wsutil.ReadClientData(xport.RW{Reader: &ctl, Writer: io.Discard})
}

func request(k int, withProto, withExt bool, deflateOffer ...string) []byte {
	var b strings.Builder
	b.WriteString("GET /x HTTP/1.1\r\nHost: alias.example\r\nUpgrade: websocket\r\nConnection: Upgrade\r\nSec-WebSocket-Version: 13\r\nSec-WebSocket-Key: dGhlIHNhbXBsZSBub25jZQ==\r\n")
	if withProto {
		switch k % 3 {
		case 0:
			fmt.Fprintf(&b, "Sec-WebSocket-Protocol: nope.v0, %s\r\n", protoFor(k))
		case 1: // a single token spanning the whole header value
			fmt.Fprintf(&b, "Sec-WebSocket-Protocol: %s\r\n", protoFor(k))
		case 2: // two headers
			fmt.Fprintf(&b, "Sec-WebSocket-Protocol: nope.v0\r\nSec-WebSocket-Protocol: %s\r\n", protoFor(k))
		}
	}
	if withExt {
		deflate := fmt.Sprintf("permessage-deflate; client_max_window_bits=%d", 8+k%8)
		if len(deflateOffer) > 0 {
			deflate = deflateOffer[0]
		}
		for _, line := range extLines(k, deflate) {
			fmt.Fprintf(&b, "Sec-WebSocket-Extensions: %s\r\n", strings.Join(line, ", "))
		}
	}
	b.WriteString("\r\n")
	return []byte(b.String())
}

// extLines lays the client's extension offers out over header lines: the
// foreign offer and permessage-deflate on a line each; both on one line and a
// second foreign offer on the next; three lines.
func extLines(k int, deflate string) [][]string {
	switch k / 3 % 3 {
	case 1:
		return [][]string{{extFor(k), deflate}, {extFor(k + 1)}}
	case 2:
		return [][]string{{extFor(k)}, {deflate}, {extFor(k + 1)}}
	}
	return [][]string{{extFor(k)}, {deflate}}
}

// foreignOffers are the ext-* offers of request k, in order.
func foreignOffers(k int) []string {
	if k/3%3 == 0 {
		return []string{extFor(k)}
	}
	return []string{extFor(k), extFor(k + 1)}
}

var upgraderPaths = []string{"Protocol", "Extension", "Negotiate-wsflate", "Negotiate-copy", "Protocol+Extension"}

func upgradeOnce(c *mon.C, path string, k int) (ws.Handshake, string, error) {
	u := ws.Upgrader{ReadBufferSize: []int{0, 256, 512, 1024}[k%4]}
	want := ""
	wantProto, wantExts := "", []string(nil)
	switch path {
	case "Protocol", "Protocol+Extension":
		u.Protocol = func(b []byte) bool { return strings.Contains(string(b), ".v") && string(b) != "nope.v0" }
		wantProto = protoFor(k)
	}
	switch path {
	case "Extension", "Protocol+Extension":
		u.Extension = func(o httphead.Option) bool { return strings.HasPrefix(string(o.Name), "ext-") }
		wantExts = foreignOffers(k)
	case "Negotiate-wsflate":
		if k%2 == 1 {
			// server configurations x offers that repeat the configuration EXACTLY (the answer then carries the
			// same parameters as the offer), ask for less, or ask for something else. What the right answer is
			// is C14's business: here the result is snapshotted when Upgrade returns and must not change later.
			cfgs := []wsflate.Parameters{{ServerNoContextTakeover: true, ClientMaxWindowBits: 8}, {}, wsflate.DefaultParameters, {ServerMaxWindowBits: 10, ClientMaxWindowBits: 12}, {ClientNoContextTakeover: true}}
			cfg := cfgs[k/2%len(cfgs)]
			var ob bytes.Buffer
			httphead.WriteOptions(&ob, []httphead.Option{cfg.Option()})
			offer := ob.String()
			switch k / 10 % 3 {
			case 1:
				offer = "permessage-deflate"
			case 2:
				offer = fmt.Sprintf("permessage-deflate; client_max_window_bits=%d; server_no_context_takeover", 8+k%8)
			}
			e := &wsflate.Extension{Parameters: cfg}
			u.Negotiate = e.Negotiate
			plans := xport.Plans(int64(k), nil)
			hs, err := u.Upgrade(xport.RW{Reader: xport.NewChunker(request(k, true, true, offer), plans[k%len(plans)]), Writer: io.Discard})
			// accepted: the answer is the configuration; declined: no extension. Anything else at return time
			// (poison, somebody else's bytes) already is the aliasing this check looks for.
			got := renderHS(hs)
			var cb bytes.Buffer
			httphead.WriteOptions(&cb, []httphead.Option{cfg.Option()})
			if accepted := renderOpts("", []string{cb.String()}); got != accepted {
				return hs, renderOpts("", nil), err
			}
			return hs, got, err
		}
		e := &wsflate.Extension{Parameters: wsflate.Parameters{ServerNoContextTakeover: true, ClientMaxWindowBits: 8}}
		u.Negotiate = e.Negotiate
		wantExts = []string{"permessage-deflate; server_no_context_takeover; client_max_window_bits=8"}
	case "Negotiate-copy":
		u.Negotiate = func(o httphead.Option) (httphead.Option, error) { return o.Clone(), nil }
		for _, line := range extLines(k, fmt.Sprintf("permessage-deflate; client_max_window_bits=%d", 8+k%8)) {
			wantExts = append(wantExts, line...)
		}
	}
	want = renderOpts(wantProto, wantExts)
	plans := xport.Plans(int64(k), nil)
	hs, err := u.Upgrade(xport.RW{Reader: xport.NewChunker(request(k, true, true), plans[k%len(plans)]), Writer: io.Discard})
	return hs, want, err
}

func subUpgrader() mon.Sub {
	return mon.Sub{
		Name: "upgrader-selection", Required: true,
		N: func(t string) int {
			if t == "thorough" {
				return 40000
			}
			return 700
		},
		Do: func(c *mon.C) {
			var hs []held
			n := 2 + c.Rng.Intn(20)
			for i := 0; i < n; i++ {
				c.Count(1)
				path := upgraderPaths[c.Rng.Intn(len(upgraderPaths))]
				k := c.Rng.Intn(10000)
				h, want, err := upgradeOnce(c, path, k)
				if err != nil {
					c.Fail("harness/upgrade-error", "valid request refused: "+err.Error(), nil)
					return
				}
				hh := h
				hs = append(hs, held{what: "Upgrader." + path + " handshake result", get: func() string { return renderHS(hh) }, want: want})
				if !recheck(c, hs, fmt.Sprintf("handshake #%d (%s)", i, path)) {
					return
				}
				if c.Rng.Intn(2) == 0 {
					traffic(c, k)
					if !recheck(c, hs, "message traffic") {
						return
					}
				}
			}
			if !checkAlarms(c, "upgrader") {
				return
			}
			c.Classf("n=%d", n)
			c.Sample(map[string]interface{}{"handshakes": n, "first": hs[0].want})
		},
	}
}

type hijackRW struct {
	conn net.Conn
	buf  *bufio.ReadWriter
	hdr  http.Header
}

func (h *hijackRW) Header() http.Header         { return h.hdr }
func (h *hijackRW) Write(p []byte) (int, error) { return len(p), nil }
func (h *hijackRW) WriteHeader(int)             {}
func (h *hijackRW) Hijack() (net.Conn, *bufio.ReadWriter, error) {
	return h.conn, h.buf, nil
}

func subHTTPUpgrader() mon.Sub {
	return mon.Sub{
		Name: "httpupgrader-selection", Required: true,
		N: func(t string) int {
			if t == "thorough" {
				return 20000
			}
			return 300
		},
		Do: func(c *mon.C) {
			var hs []held
			n := 2 + c.Rng.Intn(10)
			for i := 0; i < n; i++ {
				c.Count(1)
				k := c.Rng.Intn(10000)
				raw := request(k, true, true)
				req, err := http.ReadRequest(bufio.NewReader(bytes.NewReader(raw)))
				if err != nil {
					c.Inconclusive("net/http refuses the generated request")
					return
				}
				a, b := fakeconn.BufPipe()
				w := &hijackRW{conn: a, buf: bufio.NewReadWriter(bufio.NewReader(a), bufio.NewWriter(a)), hdr: http.Header{}}
				u := ws.HTTPUpgrader{Protocol: func(s string) bool { return strings.Contains(s, ".v") && s != "nope.v0" }}
				wantExts := foreignOffers(k)
				switch i % 3 {
				case 0:
					u.Extension = func(o httphead.Option) bool { return strings.HasPrefix(string(o.Name), "ext-") }
				case 1:
					u.Negotiate = func(o httphead.Option) (httphead.Option, error) {
						if strings.HasPrefix(string(o.Name), "ext-") {
							return o.Clone(), nil
						}
						return httphead.Option{}, nil
					}
				case 2:
					e := &wsflate.Extension{Parameters: wsflate.Parameters{ClientNoContextTakeover: true}}
					u.Negotiate = e.Negotiate
					wantExts = []string{"permessage-deflate; client_no_context_takeover"}
				}
				_, _, h, err := u.Upgrade(req, w)
				a.Close()
				b.Close()
				if err != nil {
					c.Fail("harness/http-upgrade-error", "valid request refused: "+err.Error(), nil)
					return
				}
				// the request (owned by net/http here) is dropped and its bytes scribbled
				for j := range raw {
					raw[j] = '#'
				}
				hh := h
				hs = append(hs, held{what: "HTTPUpgrader handshake result", get: func() string { return renderHS(hh) }, want: renderOpts(protoFor(k), wantExts)})
				traffic(c, k)
				if !recheck(c, hs, fmt.Sprintf("handshake #%d + traffic", i)) {
					return
				}
			}
			if !checkAlarms(c, "httpupgrader") {
				return
			}
			c.Classf("n=%d", n)
		},
	}
}

func subDialer() mon.Sub {
	return mon.Sub{
		Name: "dialer-selection", Required: true,
		N: func(t string) int {
			if t == "thorough" {
				return 40000
			}
			return 700
		},
		Do: func(c *mon.C) {
			var hs []held
			n := 2 + c.Rng.Intn(20)
			longLived := c.I%2 == 1
			var sharedOffer []httphead.Option
			var sharedWant string
			u, _ := url.ParseRequestURI("ws://alias.example/d")
			for i := 0; i < n; i++ {
				c.Count(1)
				k := c.Rng.Intn(10000)
				offerText := extFor(k)
				offer, _ := httphead.ParseOptions([]byte(offerText), nil)
				name := string(offer[0].Name)
				if longLived {
					// ONE pre-configured Dialer for every connection of the case (a reconnect loop, a client pool): its
					// offer list is the APPLICATION's slice; each server accepts another of the three offers, with its
					// own parameters
					if sharedOffer == nil {
						sharedOffer, _ = httphead.ParseOptions([]byte(extFor(k)+", "+extFor(k+1)+", "+extFor(k+2)), nil)
						sharedWant = renderOptions(sharedOffer)
					}
					offer = sharedOffer
					name = string(offer[k%len(offer)].Name)
				}
				d := ws.Dialer{Protocols: []string{"nope.v0", protoFor(k)}, Extensions: offer, ReadBufferSize: []int{0, 256, 512}[k%3]}
				respExt := fmt.Sprintf("%s; srv%d=%d; done", name, k%9, k%13)
				trail := bytes.Repeat([]byte{byte('a' + k%26)}, []int{0, 3, 200}[k%3])
				// one server in five echoes the subprotocol in another letter case (a normalising proxy): whether the
				// dialer takes that is C10's business - IF it does, what it reports is held like any other result
				echo := protoFor(k)
				if k%5 == 4 {
					echo = strings.ToUpper(echo[:1]) + echo[1:]
					if echo == protoFor(k) {
						echo = strings.ToUpper(echo)
					}
				}
				conn := &fakeconn.Script{Plan: xport.Plans(int64(k), nil)[k%11]}
				conn.Respond = func(written []byte) []byte {
					req, err := http.ReadRequest(bufio.NewReader(bytes.NewReader(written)))
					if err != nil {
						return nil
					}
					head := "HTTP/1.1 101 Switching Protocols\r\nUpgrade: websocket\r\nConnection: Upgrade\r\nSec-WebSocket-Accept: " + ref.Accept(req.Header.Get("Sec-Websocket-Key")) +
						"\r\nSec-WebSocket-Protocol: " + echo + "\r\nSec-WebSocket-Extensions: " + respExt + "\r\n\r\n"
					return append([]byte(head), trail...)
				}
				br, h, err := d.Upgrade(conn, u)
				if err != nil && echo != protoFor(k) {
					continue // the case-variant echo was refused: nothing to hold
				}
				if err != nil {
					c.Fail("harness/dial-error", "valid response refused: "+err.Error(), nil)
					return
				}
				if br != nil {
					ws.PutReader(br)
				}
				hh := h
				want := renderOpts(protoFor(k), []string{respExt})
				if echo != protoFor(k) && h.Protocol == echo {
					want = renderOpts(echo, []string{respExt}) // reported the way the server spelled it
				}
				hs = append(hs, held{what: "Dialer handshake result", get: func() string { return renderHS(hh) }, want: want})
				if !recheck(c, hs, fmt.Sprintf("dial #%d", i)) {
					return
				}
				if longLived {
					if now := renderOptions(sharedOffer); now != sharedWant {
						c.Fail("aliasing/Dialer.Extensions (the application's offer list)", fmt.Sprintf("after dial #%d the Extensions slice the application configured its Dialer with reads %q; it was %q", i, now, sharedWant), map[string]interface{}{"dials": i + 1})
						return
					}
				}
				if c.Rng.Intn(2) == 0 {
					traffic(c, k)
					if !recheck(c, hs, "message traffic") {
						return
					}
				}
			}
			if !checkAlarms(c, "dialer") {
				return
			}
			c.Classf("n=%d", n)
			if len(hs) > 0 {
				c.Sample(map[string]interface{}{"dials": n, "first": hs[0].want})
			}
		},
	}
}

var sizes = []int{1, 127, 128, 129, 255, 256, 4095, 4096, 65535, 65536, 65537, 100000}

func subReadResults() mon.Sub {
	return mon.Sub{
		Name: "read-results", Required: true,
		N: func(t string) int {
			if t == "thorough" {
				return 20000
			}
			return 400
		},
		Do: func(c *mon.C) {
			var hs []held
			var recycled []wsutil.Message
			n := 3 + c.Rng.Intn(12)
			for i := 0; i < n; i++ {
				c.Count(1)
				k := c.Rng.Intn(100000)
				side := []ref.Side{ref.SideServer, ref.SideClient}[k%2]
				sz := sizes[c.Rng.Intn(len(sizes))]
				if sz > 70000 && c.Rng.Intn(3) != 0 {
					sz = 300
				}
				payload := bytes.Repeat([]byte{byte('a' + k%26)}, sz)
				reason := strings.Repeat(string(rune('A'+k%26)), k%120)
				frames := []ref.Frame{
					{H: ref.Header{Fin: false, Op: ref.OpText}, Payload: payload[:sz/2]},
					{H: ref.Header{Fin: true, Op: ref.OpPing}, Payload: []byte(reason)},
					{H: ref.Header{Fin: true, Op: ref.OpCont}, Payload: payload[sz/2:]},
					{H: ref.Header{Fin: true, Op: ref.OpClose}, Payload: append([]byte{0x03, 0xe8}, reason...)},
				}
				var stream []byte
				for _, f := range frames {
					if side == ref.SideServer {
						f.H.Masked = true
						c.Rng.Read(f.H.Mask[:])
					}
					stream = append(stream, f.Encode()...)
				}
				plans := xport.Plans(int64(k), nil)
				switch i % 4 {
				case 0: // ReadData then the close reason
					rw := xport.RW{Reader: xport.NewChunker(stream, plans[k%len(plans)]), Writer: io.Discard}
					var data []byte
					var err error
					if side == ref.SideServer {
						data, _, err = wsutil.ReadClientData(rw)
					} else {
						data, _, err = wsutil.ReadServerData(rw)
					}
					if err != nil || !bytes.Equal(data, payload) {
						c.Fail("harness/readdata", fmt.Sprintf("ReadData failed: %v", err), nil)
						return
					}
					hs = append(hs, held{what: "ReadData payload", get: func() string { return string(data) }, want: string(payload)})
					if side == ref.SideServer {
						_, _, err = wsutil.ReadClientData(rw)
					} else {
						_, _, err = wsutil.ReadServerData(rw)
					}
					ce, ok := err.(wsutil.ClosedError)
					if !ok {
						c.Fail("harness/close", fmt.Sprintf("expected ClosedError, got %v", err), nil)
						return
					}
					hs = append(hs, held{what: "ClosedError.Reason", get: func() string { return ce.Reason }, want: reason})
				case 1: // ReadMessage: 1-5 intermediate pings / pongs (different payloads) over 2-4 fragments + the message
					nfrag := 1 + k/7%4 // (1: an unfragmented message, no control frames in between)
					var st1 []byte
					var ctlWant []string
					enc := func(f ref.Frame) {
						if side == ref.SideServer {
							f.H.Masked = true
							c.Rng.Read(f.H.Mask[:])
						}
						st1 = append(st1, f.Encode()...)
					}
					for fi := 0; fi < nfrag; fi++ {
						op, fin := byte(ref.OpCont), fi == nfrag-1
						if fi == 0 {
							op = ref.OpText
						}
						enc(ref.Frame{H: ref.Header{Fin: fin, Op: op}, Payload: payload[fi*sz/nfrag : (fi+1)*sz/nfrag]})
						if fin {
							break
						}
						nctl := 1 + (k/3+fi)%2
						if fi > 0 {
							nctl = (k/5 + fi) % 3
						}
						for ci := 0; ci < nctl; ci++ {
							p := reason
							cop := byte(ref.OpPing)
							if len(ctlWant) > 0 {
								// later control frames: other payloads of the same and of other lengths, pongs among them
								p = strings.Repeat(string(rune('a'+(k+len(ctlWant))%26)), (k/11+len(ctlWant)*37)%126)
								if (k+len(ctlWant))%3 == 0 {
									cop = ref.OpPong
								}
							}
							ctlWant = append(ctlWant, p)
							enc(ref.Frame{H: ref.Header{Fin: true, Op: cop}, Payload: []byte(p)})
						}
					}
					// the read loop of an application: the slice of the call before is handed back as ms[:0] (the Message
					// structs are the caller's to recycle - the payloads it still holds are not the library's to reuse)
					var into []wsutil.Message
					if k%3 != 0 {
						into = recycled[:0]
					}
					var src1 io.Reader = xport.NewChunker(st1, plans[k%len(plans)])
					var br *bufio.Reader
					if k/13%3 == 0 {
						// the source is a buffered reader that already holds the whole message and what follows it (the
						// reader Dialer.Dial hands back for frames the server sent right behind its 101; any
						// application-side bufio.Reader): the buffer is the READER's - it is refilled by the next read,
						// and given back to the pool with ws.PutReader
						follow := bytes.Repeat([]byte{'#'}, 64+k%5000)
						br = bufio.NewReaderSize(bytes.NewReader(append(append([]byte(nil), st1...), follow...)), len(st1)+len(follow)+16)
						br.Peek(1)
						src1 = br
					}
					ms, err := wsutil.ReadMessage(src1, stateOf(side), into)
					if br != nil {
						// ... the application reads on from the same reader, then re-uses it for another connection and
						// finally hands it to the library's pool
						io.Copy(io.Discard, br)
						br.Reset(bytes.NewReader(bytes.Repeat([]byte{'%'}, br.Size())))
						br.Peek(br.Size())
						ws.PutReader(br)
					}
					recycled = ms
					if err != nil || len(ms) != len(ctlWant)+1 {
						c.Fail("harness/readmessage", fmt.Sprintf("ReadMessage failed: %v (%d messages, %d control frames sent)", err, len(ms), len(ctlWant)), nil)
						return
					}
					for ci := range ctlWant {
						pl := ms[ci].Payload
						hs = append(hs, held{what: fmt.Sprintf("ReadMessage control payload #%d of %d", ci, len(ctlWant)), get: func() string { return string(pl) }, want: ctlWant[ci]})
					}
					mpl := ms[len(ctlWant)].Payload
					hs = append(hs, held{what: fmt.Sprintf("ReadMessage payload (%d fragments, slice recycled: %v)", nfrag, into != nil), get: func() string { return string(mpl) }, want: string(payload)})
					if !recheck(c, hs, "ReadMessage returned") {
						return
					}
					// the application answers the control message it was handed (and keeps it): the
					// reply is a pong echoing the payload, the message it holds stays what it was
					if len(ctlWant) == 0 {
						break // (an unfragmented message: no control frame was collected)
					}
					var reply bytes.Buffer
					switch k / 2 % 3 {
					case 0:
						err = wsutil.HandleControlMessage(&reply, stateOf(side), ms[0])
					case 1:
						if side == ref.SideServer {
							err = wsutil.HandleClientControlMessage(&reply, ms[0])
						} else {
							err = wsutil.HandleServerControlMessage(&reply, ms[0])
						}
					case 2:
						err = wsutil.ControlHandler{DisableSrcCiphering: true, Src: bytes.NewReader(ms[0].Payload), Dst: &reply, State: stateOf(side)}.Handle(ws.Header{Fin: true, OpCode: ms[0].OpCode, Length: int64(len(ms[0].Payload))})
					}
					if len(reason) > 0 {
						pf, _, bad := ref.ParseFrames(reply.Bytes())
						if err != nil || bad != "" || len(pf) != 1 || pf[0].H.Op != ref.OpPong || string(pf[0].Payload) != reason {
							c.Fail("aliasing/control-reply", fmt.Sprintf("answering a held ping of %d bytes: err=%v, reply % x", len(reason), err, reply.Bytes()), map[string]interface{}{"side": side, "handler": k / 2 % 3})
							return
						}
					}
					if !recheck(c, hs, "answering the held control message") {
						return
					}
				case 3: // the type-filtered helpers: a message of the other type is skipped first, the wanted one returned
					small := payload
					if len(small) > 600 {
						small = small[:[]int{1, 100, 511, 512, 513}[k%5]]
					}
					var st2 []byte
					for _, f := range []ref.Frame{
						{H: ref.Header{Fin: false, Op: ref.OpBinary}, Payload: []byte("unwanted-")},
						{H: ref.Header{Fin: true, Op: ref.OpCont}, Payload: bytes.Repeat([]byte("u"), k%700)},
						{H: ref.Header{Fin: true, Op: ref.OpText}, Payload: small},
					} {
						if side == ref.SideServer {
							f.H.Masked = true
							c.Rng.Read(f.H.Mask[:])
						}
						st2 = append(st2, f.Encode()...)
					}
					rw := xport.RW{Reader: xport.NewChunker(st2, plans[k%len(plans)]), Writer: io.Discard}
					var data []byte
					var err error
					if side == ref.SideServer {
						data, err = wsutil.ReadClientText(rw)
					} else {
						data, err = wsutil.ReadServerText(rw)
					}
					if err != nil || !bytes.Equal(data, small) {
						c.Fail("aliasing/ReadText payload at return", fmt.Sprintf("ReadClientText/ReadServerText after a skipped binary message: err=%v, payload as sent: %v (a payload that differs right at return lies in memory the library has already given back)", err, bytes.Equal(data, small)), map[string]interface{}{"len": len(small), "side": side})
						return
					}
					want := string(small)
					hs = append(hs, held{what: "ReadText payload (after a skipped binary message)", get: func() string { return string(data) }, want: want})
				case 2: // ParseCloseFrameData / ReadFrame
					ch := xport.NewChunker(frames[3].Encode(), plans[k%len(plans)])
					f, err := ws.ReadFrame(ch)
					if err != nil {
						c.Fail("harness/readframe", err.Error(), nil)
						return
					}
					_, r := ws.ParseCloseFrameData(f.Payload)
					for j := range f.Payload {
						f.Payload[j] = '!'
					}
					hs = append(hs, held{what: "ParseCloseFrameData reason", get: func() string { return r }, want: reason})
				}
				traffic(c, k)
				if !recheck(c, hs, fmt.Sprintf("round #%d + traffic", i)) {
					return
				}
			}
			if !checkAlarms(c, "read-results") {
				return
			}
			c.Classf("n=%d", n)
		},
	}
}

func stateOf(side ref.Side) ws.State {
	if side == ref.SideServer {
		return ws.StateServerSide
	}
	return ws.StateClientSide
}

// destination that remembers what it was given (copy at call time).
// watch is the caller's slice as the destination can see it while it is being
// written to: it must hold what the caller left there at every such moment.
type watch struct {
	p, want []byte
	bad     int
	badAt   int
}

type keepDst struct {
	data   []byte
	w      *watch
	failAt int // total bytes accepted before the destination fails (-1: never)
	failed bool
}

var errDstFail = errors.New("destination write failed")

func (k *keepDst) Write(p []byte) (int, error) {
	if k.w != nil && !bytes.Equal(k.w.p, k.w.want) {
		if k.w.bad == 0 {
			for i := range k.w.p {
				if k.w.p[i] != k.w.want[i] {
					k.w.badAt = i
					break
				}
			}
		}
		k.w.bad++
	}
	if k.failAt >= 0 && len(k.data)+len(p) > k.failAt {
		n := k.failAt - len(k.data)
		if n < 0 {
			n = 0
		}
		k.data = append(k.data, p[:n]...)
		k.failed = true
		return n, errDstFail
	}
	k.data = append(k.data, p...)
	return len(p), nil
}

func scribble(p []byte) {
	for i := range p {
		p[i] = 0xEE
	}
}

func subWriteSide() mon.Sub {
	apis := []string{"WriteMessage-client", "WriteClientText", "WriteClientBinary", "Writer.Write-client", "Writer.WriteThrough-client", "Writer.WriteThrough-server", "WriteMessage-server", "Writer.ReadFrom-client", "Writer.Write-server", "CipherWriter.Write", "MaskFrame", "MaskFrameWith", "UnmaskFrame", "GetWriter-client"}
	return mon.Sub{
		Name: "write-side", Exhaustive: true, Required: true,
		N: func(t string) int { return len(apis) * len(sizes) * 5 },
		Do: func(c *mon.C) {
			api := apis[c.I%len(apis)]
			sz := sizes[c.I/len(apis)%len(sizes)]
			readOnly := c.I/len(apis)/len(sizes) == 4
			orig := make([]byte, sz)
			c.Rng.Read(orig)
			// (the caller's slice is a view into a larger buffer of its own: what lies in front of it and behind it -
			// its spare capacity - is the caller's memory as well)
			p, _, neighbours := xport.Arena3(orig)
			if readOnly {
				// fifth round: the caller's bytes lie in READ-ONLY memory (a mapped file, a constant): an API that does
				// not modify them never stores there, not even to undo it before it returns - a store is a fault,
				// reported as a panic with the library function that made it
				ro, free, err := xport.ReadOnly(orig)
				if err != nil {
					c.Inconclusive("no read-only mapping: " + err.Error())
					return
				}
				defer free()
				defer debug.SetPanicOnFault(debug.SetPanicOnFault(true))
				p, neighbours = ro, func() string { return "" }
			}
			wt := &watch{p: p, want: append([]byte(nil), orig...)}
			dst := &keepDst{w: wt, failAt: -1}
			failing := c.I/len(apis)/len(sizes) == 2 && !strings.HasPrefix(api, "MaskFrame") && api != "UnmaskFrame"
			if failing {
				// the destination fails half way through (short count + error)
				dst.failAt = sz / 2
			}
			scrib := func(lo, hi int) {
				if !readOnly {
					scribble(wt.p[lo:hi])
					scribble(wt.want[lo:hi])
				}
			}
			det := map[string]interface{}{"api": api, "size": sz, "destination_fails_after": dst.failAt}
			var err error
			var out ws.Frame
			reuse := true // the caller scribbles its slice after the call; the wire must still carry the original
			c.Count(1)
			switch api {
			case "WriteMessage-client":
				err = wsutil.WriteMessage(dst, ws.StateClientSide, ws.OpBinary, p)
			case "WriteClientText":
				err = wsutil.WriteClientText(dst, p)
			case "WriteClientBinary":
				err = wsutil.WriteClientBinary(dst, p)
			case "Writer.Write-client", "Writer.Write-server", "GetWriter-client":
				st := ws.StateClientSide
				if api == "Writer.Write-server" {
					st = ws.StateServerSide
				}
				var w *wsutil.Writer
				if api == "GetWriter-client" {
					w = wsutil.GetWriter(dst, st, ws.OpBinary, 256)
					defer wsutil.PutWriter(w)
				} else {
					w = wsutil.NewWriterSize(dst, st, ws.OpBinary, []int{16, 200, 4096}[c.I%3])
				}
				if (c.I/len(apis)/len(sizes))%2 == 1 {
					// an endpoint with an extension negotiated (permessage-deflate's per-message state, this message
					// not compressed): the caller's bytes are no more the library's to change than without it
					w.SetExtensions(&wsflate.MessageState{})
					det["send_extension_attached"] = true
				}
				if c.I%4 == 1 {
					// the single-frame mode (what a compressing sender uses): nothing is sent before Flush, everything
					// written until then is the WRITER's copy - the caller's pieces are free the moment Write returns
					w.DisableFlush()
					det["flush_disabled"] = true
				}
				// write in pieces; scribble each piece right after Write returned
				for off := 0; off < len(p); {
					k := 1 + c.Rng.Intn(len(p)-off)
					piece := p[off : off+k]
					keep := append([]byte(nil), piece...)
					if _, err = w.Write(piece); err != nil {
						break
					}
					if !bytes.Equal(piece, keep) {
						c.Fail("mutates-caller/"+api, api+" modified the caller's slice", det)
						return
					}
					scrib(off, off+k)
					off += k
				}
				if err == nil {
					err = w.Flush()
				}
				p = append([]byte(nil), orig...) // already scribbled piecewise
				reuse = false
			case "WriteMessage-server":
				err = wsutil.WriteServerMessage(dst, ws.OpBinary, p)
			case "Writer.WriteThrough-client", "Writer.WriteThrough-server":
				wst := ws.StateClientSide
				if api == "Writer.WriteThrough-server" {
					wst = ws.StateServerSide
				}
				w := wsutil.NewWriterSize(dst, wst, ws.OpBinary, 64)
				if (c.I/len(apis)/len(sizes))%2 == 1 {
					w.SetExtensions(&wsflate.MessageState{})
					det["send_extension_attached"] = true
				}
				_, err = w.WriteThrough(p)
				if err == nil {
					if !bytes.Equal(p, orig) {
						c.Fail("mutates-caller/"+api, api+" modified the caller's slice", det)
						return
					}
					scrib(0, len(p))
					err = w.Flush()
					p = append([]byte(nil), orig...)
					reuse = false
				}
			case "Writer.ReadFrom-client":
				w := wsutil.NewWriterSize(dst, ws.StateClientSide, ws.OpBinary, 100)
				_, err = w.ReadFrom(bytes.NewReader(p))
				if err == nil {
					err = w.Flush()
				}
			case "CipherWriter.Write":
				var key [4]byte
				c.Rng.Read(key[:])
				cw := wsutil.NewCipherWriter(dst, key)
				_, err = cw.Write(p)
				if err == nil && !bytes.Equal(ref.Mask(dst.data, key, 0), orig) {
					c.Fail("wire/"+api, "masked output does not unmask to the original", det)
					return
				}
			case "MaskFrame", "MaskFrameWith":
				f := ws.NewBinaryFrame(p)
				if c.I/len(apis)/len(sizes) == 1 {
					// the frame to be (re-)masked already carries a mask in its header (read from a client
					// and forwarded): the copying helpers still must not touch the caller's payload
					f.Header.Masked, f.Header.Mask = true, [4]byte{9, 8, 7, 6}
					det["input_header_already_masked"] = true
				}
				if api == "MaskFrame" {
					out = ws.MaskFrame(f)
				} else {
					mk := helperKey(c, c.I/len(apis)/len(sizes)+1)
					det["key"] = fmt.Sprintf("%x", mk)
					out = ws.MaskFrameWith(f, mk)
				}
			case "UnmaskFrame":
				f := ws.NewBinaryFrame(p)
				// the key is the peer's choice, the all-zero key (XOR = identity) included; and a frame that is not
				// masked at all may be handed to the helper too: "copies" does not depend on there being work
				uk := helperKey(c, c.I/len(apis)/len(sizes))
				f.Header.Masked, f.Header.Mask = true, uk
				if c.I/len(apis)/len(sizes) == 3 {
					f.Header.Masked = false
				}
				det["frame_key"] = fmt.Sprintf("%x", uk)
				out = ws.UnmaskFrame(f)
			}
			if w := neighbours(); w != "" {
				c.Fail("mutates-caller-buffer/"+api, api+": "+w, det)
				return
			}
			if wt.bad > 0 {
				det["first_changed_byte"] = wt.badAt
				c.Fail("mutates-caller-during-write/"+api, fmt.Sprintf("%s: the caller's slice did not hold the caller's bytes while the destination was being written to (%d destination writes saw it changed)", api, wt.bad), det)
				return
			}
			if failing {
				if !dst.failed {
					c.Fail("harness/no-failure", api+": the destination never reached its failure point", det)
					return
				}
				if !bytes.Equal(wt.p, wt.want) {
					c.Fail("mutates-caller-on-error/"+api, api+" left the caller's slice modified after the destination returned an error", det)
					return
				}
				traffic(c, c.I)
				if !checkAlarms(c, "write-side") {
					return
				}
				c.Classf("%s size=%d dst-fails", api, sz)
				return
			}
			if err != nil {
				c.Fail("harness/write-error", api+": "+err.Error(), det)
				return
			}
			if !bytes.Equal(p, orig) {
				c.Fail("mutates-caller/"+api, api+" modified the caller's slice", det)
				return
			}
			var outCopy []byte
			if out.Payload != nil {
				outCopy = append([]byte(nil), out.Payload...)
			}
			if reuse && !readOnly {
				scribble(p)
			}
			traffic(c, c.I)
			// what reached the destination must still decode to the original message
			switch {
			case strings.HasPrefix(api, "MaskFrame"), api == "UnmaskFrame":
				if !bytes.Equal(out.Payload, outCopy) {
					c.Fail("aliases-caller/"+api, api+": the returned payload changed when the caller reused its slice", det)
					return
				}
			case api == "CipherWriter.Write":
			default:
				frames, consumed, bad := ref.ParseFrames(dst.data)
				var got []byte
				for _, f := range frames {
					got = append(got, f.Payload...)
				}
				if bad != "" || consumed != len(dst.data) || !bytes.Equal(got, orig) {
					c.Fail("wire/"+api, api+": the bytes handed to the destination do not carry the original message after the caller reused its slice", det)
					return
				}
			}
			if !checkAlarms(c, "write-side") {
				return
			}
			c.Classf("%s size=%d", api, sz)
			c.Sample(det)
		},
	}
}

// helperKey: the keys a frame helper meets - fixed, all-zero, all-ones, random.
func helperKey(c *mon.C, k int) [4]byte {
	switch k % 4 {
	case 0:
		return [4]byte{5, 6, 7, 8}
	case 1:
		return [4]byte{}
	case 2:
		return [4]byte{0xff, 0xff, 0xff, 0xff}
	}
	var key [4]byte
	c.Rng.Read(key[:])
	return key
}

func main() {
	_ = gen.NewKey
	mon.Main(&mon.Spec{
		Property: "C17",
		Level:    "exploration",
		Rule: "built with the pool shim (github.com/gobwas/pool replaced by /verif/shim/pool) in poison-on-put + deterministic LIFO reuse mode and with -race/checkptr: every pooled byte slice, bufio buffer and pooled Writer buffer is overwritten with a pattern the moment the library returns it, and handed out again at the next request of its size class. " +
			"Cases: histories of 2-22 handshakes through each library-owned selection path (Upgrader Protocol / Extension / Negotiate=wsflate / Negotiate returning a copy; HTTPUpgrader Protocol / Extension / Negotiate; Dialer protocols + extension parameters from the response) with different same-shaped subprotocol/extension texts, interleaved with message traffic across all pool size classes; ReadData / ReadMessage payloads, collected control payloads and close reasons held across later traffic; 12 write-side APIs x 12 payload sizes with the caller scribbling its slice right after the call (the wire must still carry the original, the caller's slice must be intact). Every held result is compared with what the INPUT said it must be after every later step; the shim's write-after-put / double-put alarms are checked per case. distinct = history length / (api, size) classes.",
		Assumptions: []string{"user-owned paths (ProtocolCustom, ExtensionCustom, ParseCloseFrameDataUnsafe) are documented as aliasing and excluded", "the shim's poisoning is legitimate: a buffer put back into the pool is dead by contract"},
		Setup:       func(r *mon.Run) { pool.Configure(true, pool.ReuseLIFO, false, false) },
		Finish: func(r *mon.Run) {
			st := pool.ReadStats()
			r.Extra("shim_puts", st.Puts)
			r.Extra("shim_gets", st.Gets)
			r.Extra("shim_reused_objects", st.Reused)
			r.Extra("shim_pattern_checks", st.PatternChecks)
		},
		Subs: []mon.Sub{subUpgrader(), subHTTPUpgrader(), subDialer(), subReadResults(), subWriteSide()},
	})
}
