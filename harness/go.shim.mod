module verifharness

go 1.23

require (
	github.com/gobwas/httphead v0.1.0
	github.com/gobwas/pool v0.2.1
	github.com/gobwas/ws v0.0.0
)

replace github.com/gobwas/ws => /repo

replace github.com/gobwas/pool => /verif/shim/pool
