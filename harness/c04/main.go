// C04 — the message reader reassembles every valid frame stream exactly under any chunking.
package main

import (
	"bytes"
	"fmt"
	"github.com/gobwas/ws"
	"github.com/gobwas/ws/wsutil"
	"io"
	"sync"

	"verifharness/drive"
	"verifharness/gen"
	"verifharness/mon"
	"verifharness/ref"
	"verifharness/xport"
)

var (
	enumOnce sync.Once
	enumQ    [][]gen.Shape
	enumT    [][]gen.Shape
)

func enum(tier string) [][]gen.Shape {
	enumOnce.Do(func() {
		enumQ = gen.EnumShapes(3, []int{0, 1, 3}, []int{0, 2}, true)
		enumT = gen.EnumShapes(5, []int{0, 2}, []int{0, 2}, true)
	})
	if tier == "thorough" {
		return enumT
	}
	return enumQ
}

var entries = []string{"reader", "reader-discard", "reader-discard-utf8", "reader-nohandler", "reader-lazyhandler", "reader-ctlhandler", "reader-maxframe", "reader-options", "nextreader", "readmessage", "readdata", "readtext", "readbinary"}
var bufs = []int{1, 2, 7, 64, 4096, 65536, drive.CopyBuf}

// checkStream runs one frame sequence through every entry point under several
// chunk plans and buffer sizes and compares with the reference reassembly.
func checkStream(c *mon.C, shapes []gen.Shape, side ref.Side, nplans int) bool {
	ascii := c.Rng.Intn(2) == 0
	framesA := gen.Build(shapes, side, c.Rng, true)
	framesB := framesA
	if !ascii {
		framesB = gen.Build(shapes, side, c.Rng, false)
	}
	framesU := gen.BuildUTF8(shapes, side, c.Rng)
	if side == ref.SideNone {
		// zero state: no mask rule; mask some frames anyway.
		for i := range framesA {
			if c.Rng.Intn(2) == 0 {
				framesA[i].H.Masked = true
				c.Rng.Read(framesA[i].H.Mask[:])
			}
		}
	}
	if c.Rng.Intn(6) == 0 {
		// a peer that masks every frame with ONE key (legal: the key only has to be unpredictable to the
		// application that supplies the payload): a reader keeps nothing of one frame's masking for the next
		var k [4]byte
		c.Rng.Read(k[:])
		for _, fs := range [][]ref.Frame{framesA, framesB, framesU} {
			for i := range fs {
				if fs[i].H.Masked {
					fs[i].H.Mask = k
				}
			}
		}
	}
	nCont := 0
	for _, s := range shapes {
		if s.Op == ref.OpCont {
			nCont++
		}
	}
	nMsg := 0
	for _, s := range shapes {
		if !ref.IsControl(s.Op) && s.Op != ref.OpCont {
			nMsg++
		}
	}
	for ei, entry := range entries {
		frames := framesA
		if side == ref.SideNone && (entry == "readtext" || entry == "readbinary") {
			continue // these helpers exist only as Client/Server variants
		}
		o := drive.Opts{Entry: entry, Side: side}
		switch entry {
		case "reader":
			frames = framesB
		case "reader-discard":
			o.Entry = "reader"
			frames = framesB
			o.Discard = map[int]int{}
			for m := 0; m < nMsg; m++ {
				if c.Rng.Intn(2) == 0 {
					o.Discard[m] = c.Rng.Intn(5)
				}
			}
		case "reader-discard-utf8":
			// UTF-8 checking on, messages made of multi-byte characters, a few bytes read (so that reading
			// stops inside a character), then Discard: the next message must be delivered as by a new reader
			o.Entry, o.CheckUTF8 = "reader", true
			frames = framesU
			o.Discard = map[int]int{}
			for m := 0; m < nMsg; m++ {
				if c.Rng.Intn(2) == 0 {
					o.Discard[m] = c.Rng.Intn(6)
				}
			}
		case "reader-nohandler":
			o.Entry, o.Intermediate = "reader", 2
		case "reader-lazyhandler":
			o.Entry, o.Intermediate = "reader", 1
		case "readmessage", "readdata", "readtext":
			if c.Rng.Intn(2) == 0 {
				frames = framesU // these helpers validate text: characters split across fragments, reads and control frames
			}
		case "reader-ctlhandler":
			o.Entry, o.Intermediate, o.CheckUTF8 = "reader", 3, true
			if c.Rng.Intn(2) == 0 {
				frames = framesU
			}
		case "reader-options":
			// options that cannot matter on a valid stream, in every combination: header checks off, UTF-8 checking
			// on, a size limit far above every frame, an extension that leaves headers alone
			o.Entry = "reader"
			k := c.I + int(side)
			o.SkipCheck = k&1 == 1
			o.CheckUTF8 = k&2 == 2
			if k&4 == 4 {
				o.MaxFrameSize = 1 << 40
			}
			if k&8 == 8 {
				o.Extensions = []wsutil.RecvExtension{wsutil.RecvExtensionFunc(func(h ws.Header) (ws.Header, error) { return h, nil })}
			}
			if o.CheckUTF8 && c.Rng.Intn(2) == 0 {
				frames = framesU
			}
			o.ContRead = k&16 == 16 // the continuation handler reads the continuation bodies itself
		case "reader-maxframe":
			// MaxFrameSize equal to the largest frame of the stream (or one more): nothing may be refused
			o.Entry = "reader"
			for _, sh := range shapes {
				if int64(sh.Len) > o.MaxFrameSize {
					o.MaxFrameSize = int64(sh.Len)
				}
			}
			o.MaxFrameSize += int64(c.I % 2)
		}
		stream, starts, marks := gen.Encode(frames)
		want := drive.Expect(frames, o)
		ps := xport.Plans(c.Rng.Int63(), marks)
		for pi := 0; pi < nplans; pi++ {
			plan := ps[(c.I+ei+pi*4)%len(ps)]
			if len(stream) > 200000 && plan.Kind == "one" {
				plan = xport.Plan{Kind: "fixed", K: 1021}
			}
			for bi := 0; bi < 2; bi++ {
				o.Buf = bufs[(c.I+ei+pi+bi*3)%len(bufs)]
				if len(stream) > 200000 && o.Buf < 7 {
					o.Buf = 509
				}
				c.Count(1)
				ch := xport.NewChunker(stream, plan)
				// the kind of io.Reader the library is handed varies too (second buffer choice only)
				o.Wrap = ""
				if bi == 1 {
					o.Wrap = drive.Wraps[(c.I+ei+pi)%len(drive.Wraps)]
				}
				prelude := -1
				if bi == 1 && o.Entry != "reader" {
					// the process has read other connections before this one: one of them ended inside a text message
					prelude = (c.I*7 + ei*3 + pi) % 24
					drive.Prelude(prelude)
				}
				var src io.Reader = ch
				o.Retry = false
				if o.Entry == "reader" && bi == 0 && pi == 0 && o.Intermediate == 0 && len(starts) > 0 {
					// a deadline-driven read loop: one read of the transport times out (nothing consumed) in front of a
					// frame header, the consumer calls again - the events are the same
					o.Retry = true
					src = &xport.Transient{R: ch, At: starts[(c.I+ei)%len(starts)], Err: xport.ErrTimeout}
				}
				obs := drive.Run(src, o)
				det := func() map[string]interface{} {
					return map[string]interface{}{"frames": gen.ShapesKey(shapes), "side": side, "entry": entry, "plan": plan.String(), "buf": o.Buf, "source": o.Wrap, "prelude_connection_kind": prelude, "timeout_then_retry": o.Retry,
						"discard": fmt.Sprint(o.Discard), "got": tail(drive.EventStrings(obs.Events)), "want": tail(drive.EventStrings(want)), "err": fmt.Sprint(obs.Err), "stream_len": len(stream)}
				}
				if obs.Spin {
					c.Fail("spin/"+entry, "reader returns (0,nil) forever", det())
					return false
				}
				if d := drive.Diff(obs.Events, want, entry != "nextreader"); d != "" {
					c.Fail("events/"+entry, "observed events differ from the reference reassembly: "+d, det())
					return false
				}
				if obs.Err != io.EOF {
					c.Fail("end/"+entry, fmt.Sprintf("a complete valid stream did not end with a clean io.EOF: %v", obs.Err), det())
					return false
				}
				if len(ch.Remaining()) != 0 {
					c.Fail("unread/"+entry, "the stream was not consumed to its end", det())
					return false
				}
				if o.Entry == "reader" && obs.ContCalls != nCont {
					c.Fail("oncontinuation/"+entry, fmt.Sprintf("OnContinuation called %d times for %d continuation frames", obs.ContCalls, nCont), det())
					return false
				}
				if len(obs.CtlShort) > 0 {
					c.Fail("ctl-short/"+entry, "control handler saw fewer bytes than announced: "+obs.CtlShort[0], det())
					return false
				}
				switch entry {
				case "readdata", "readtext", "readbinary", "reader-ctlhandler":
					// every ping is answered, in order, with its own payload
					replies, consumed, bad := ref.ParseFrames(obs.Written)
					if bad != "" || consumed != len(obs.Written) {
						c.Fail("replies/parse/"+entry, "bytes written by the control handler are not whole frames", det())
						return false
					}
					wantP := drive.ExpectPongs(frames)
					if len(replies) != len(wantP) {
						c.Fail("replies/count/"+entry, fmt.Sprintf("%d control replies written for %d pings", len(replies), len(wantP)), det())
						return false
					}
					for k := range replies {
						if replies[k].H.Op != ref.OpPong || !bytes.Equal(replies[k].Payload, wantP[k]) {
							c.Fail("replies/content/"+entry, fmt.Sprintf("reply %d is not a pong with ping %d's payload", k, k), det())
							return false
						}
					}
				}
				c.Classf("%s|%s|%s|side%d", gen.ShapeClass(shapes), entry, plan.Kind, side)
			}
		}
	}
	return true
}

func tail(s []string) []string {
	if len(s) > 12 {
		return append([]string{fmt.Sprintf("...(%d earlier)", len(s)-12)}, s[len(s)-12:]...)
	}
	return s
}

func subEnum() mon.Sub {
	return mon.Sub{
		Name: "enum", Exhaustive: true, Required: true,
		N: func(t string) int { return len(enum(t)) * 3 },
		Do: func(c *mon.C) {
			e := enum(c.Tier)
			shapes := e[c.I%len(e)]
			side := []ref.Side{ref.SideServer, ref.SideClient, ref.SideNone}[c.I/len(e)]
			np := 3
			if c.Tier == "thorough" {
				np = 3
			}
			if checkStream(c, shapes, side, np) {
				c.Sample(map[string]interface{}{"frames": gen.ShapesKey(shapes), "side": side, "entries": entries, "plans_per_entry": np, "bufs_per_plan": 2})
			}
		},
	}
}

var randLens = []int{0, 0, 1, 1, 2, 5, 17, 125, 126, 127, 300, 4095, 4096, 4097}
var bigLens = []int{65535, 65536, 65537, 100000}

func subRandom() mon.Sub {
	return mon.Sub{
		Name: "random", Required: true,
		N: func(t string) int {
			if t == "thorough" {
				return 40000
			}
			return 1500
		},
		Do: func(c *mon.C) {
			lens := randLens
			maxFrames := 40
			if c.I%10 == 0 {
				lens = append(append([]int(nil), randLens...), bigLens...)
				maxFrames = 8
			}
			shapes := gen.RandomShapes(c.Rng, maxFrames, lens)
			side := []ref.Side{ref.SideServer, ref.SideClient, ref.SideNone}[c.Rng.Intn(3)]
			if checkStream(c, shapes, side, 3) {
				c.Sample(map[string]interface{}{"frames": gen.ShapesKey(shapes), "side": side})
			}
		},
	}
}

// subLarge: messages around 1 MiB, the size above which ReadMessage stops
// pre-allocating by the announced length and ws.ReadFrame reads incrementally.
func subLarge() mon.Sub {
	const M = 1 << 20
	cases := [][]gen.Shape{
		{{Op: ref.OpBinary, Fin: true, Len: M}},
		{{Op: ref.OpText, Fin: true, Len: M + 1}, {Op: ref.OpText, Fin: true, Len: 2}},
		{{Op: ref.OpBinary, Fin: false, Len: M - 1}, {Op: ref.OpCont, Fin: true, Len: 5}, {Op: ref.OpPing, Fin: true, Len: 3}},
		{{Op: ref.OpText, Fin: false, Len: 9}, {Op: ref.OpPing, Fin: true, Len: 4}, {Op: ref.OpCont, Fin: true, Len: M + 1}, {Op: ref.OpBinary, Fin: true, Len: 1}},
		{{Op: ref.OpBinary, Fin: false, Len: 0}, {Op: ref.OpCont, Fin: false, Len: M + 700}, {Op: ref.OpCont, Fin: true, Len: 0}},
		{{Op: ref.OpText, Fin: true, Len: 1}, {Op: ref.OpBinary, Fin: true, Len: 2*M + 17}, {Op: ref.OpText, Fin: true, Len: 1}},
	}
	return mon.Sub{
		Name: "large", Required: true,
		N: func(t string) int {
			if t == "thorough" {
				return len(cases) * 3 * 2
			}
			return len(cases)
		},
		Do: func(c *mon.C) {
			shapes := cases[c.I%len(cases)]
			side := []ref.Side{ref.SideServer, ref.SideClient, ref.SideNone}[(c.I/len(cases)+c.I)%3]
			if checkStream(c, shapes, side, 2) {
				c.Sample(map[string]interface{}{"frames": gen.ShapesKey(shapes), "side": side})
			}
		},
	}
}

// subLongRuns: "every valid stream": nothing bounds how MANY frames of a kind may follow each other. Runs of
// 99 / 100 / 101 / 128 / 255 / 256 / 1000 / 5000 consecutive control frames (pings and pongs, a keep-alive running while a
// slow message is produced), of empty continuation fragments, and of one-byte fragments sit between the fragments
// of a message (and between messages); the same consumers must reassemble the message.
func subLongRuns() mon.Sub {
	runs := []int{99, 100, 101, 128, 255, 256, 257, 1000, 5000}
	kinds := []string{"controls-inside", "empty-fragments", "tiny-fragments", "controls-between-messages", "mixed"}
	return mon.Sub{
		Name: "long-runs", Required: true,
		N: func(t string) int {
			if t == "thorough" {
				return len(runs) * len(kinds) * 3
			}
			return len(runs) * len(kinds)
		},
		Do: func(c *mon.C) {
			n := runs[c.I%len(runs)]
			kind := kinds[c.I/len(runs)%len(kinds)]
			side := []ref.Side{ref.SideServer, ref.SideClient, ref.SideNone}[(c.I/len(runs)/len(kinds)+c.I)%3]
			ctl := func(i int) gen.Shape {
				return gen.Shape{Op: []byte{ref.OpPing, ref.OpPong, ref.OpPing}[i%3], Fin: true, Len: []int{0, 2, 5, 125}[i%4]}
			}
			var shapes []gen.Shape
			switch kind {
			case "controls-inside":
				shapes = append(shapes, gen.Shape{Op: ref.OpText, Fin: false, Len: 7})
				for i := 0; i < n; i++ {
					shapes = append(shapes, ctl(i))
				}
				shapes = append(shapes, gen.Shape{Op: ref.OpCont, Fin: false, Len: 3}, gen.Shape{Op: ref.OpCont, Fin: true, Len: 6})
			case "empty-fragments":
				shapes = append(shapes, gen.Shape{Op: ref.OpBinary, Fin: false, Len: 4})
				for i := 0; i < n; i++ {
					shapes = append(shapes, gen.Shape{Op: ref.OpCont, Fin: false, Len: 0})
				}
				shapes = append(shapes, gen.Shape{Op: ref.OpCont, Fin: true, Len: 5})
			case "tiny-fragments":
				shapes = append(shapes, gen.Shape{Op: ref.OpText, Fin: false, Len: 1})
				for i := 0; i < n; i++ {
					shapes = append(shapes, gen.Shape{Op: ref.OpCont, Fin: false, Len: 1})
				}
				shapes = append(shapes, gen.Shape{Op: ref.OpCont, Fin: true, Len: 0})
			case "controls-between-messages":
				shapes = append(shapes, gen.Shape{Op: ref.OpText, Fin: true, Len: 3})
				for i := 0; i < n; i++ {
					shapes = append(shapes, ctl(i))
				}
			case "mixed":
				shapes = append(shapes, gen.Shape{Op: ref.OpBinary, Fin: false, Len: 2})
				for i := 0; i < n; i++ {
					if i%3 == 1 {
						shapes = append(shapes, gen.Shape{Op: ref.OpCont, Fin: false, Len: i % 2})
					} else {
						shapes = append(shapes, ctl(i))
					}
				}
				shapes = append(shapes, gen.Shape{Op: ref.OpCont, Fin: true, Len: 1})
			}
			shapes = append(shapes, gen.Shape{Op: ref.OpBinary, Fin: true, Len: 2})
			if checkStream(c, shapes, side, 1) {
				c.Classf("long-run|%s|%d|side%d", kind, n, side)
				c.Sample(map[string]interface{}{"kind": kind, "run_length": n, "side": side})
			}
		},
	}
}

func main() {
	mon.Main(&mon.Spec{
		Property: "C04",
		Level:    "exploration",
		Rule: "cases: every state-machine-valid complete frame sequence up to depth 3 (quick; alphabet {text,binary,cont} x fin x len{0,1,3} + {ping,pong} x len{0,2}) or depth 5 (thorough; len{0,2}), on server/client/zero side, then seeded random sequences of up to 40 frames with payloads across 125/126, 4096 and 65535/65536, and six stream shapes with messages around 1 MiB and 2 MiB (unfragmented, fragmented with the big part first / last / in the middle, control frames in between), and runs of 99 ... 5000 consecutive control frames / empty fragments / one-byte fragments inside and between messages; " +
			"each stream is run through 12 consumer configurations (manual Reader with full/lazy/no/ControlFrameHandler intermediate handler, with Discard, with Discard after a few bytes of a text message made of multi-byte characters under UTF-8 checking, and with MaxFrameSize equal to the largest frame, NextReader, ReadMessage, ReadData, Read*Text, Read*Binary) x 3 chunk plans x 2 caller buffer sizes and compared with the reference reassembly, clean EOF, full consumption, OnContinuation count and pong replies. " +
			"distinct = (frame-shape signature with bucketed lengths, entry, plan kind, side).",
		Assumptions: []string{"reference reassembly ref.Reassemble and frame encoder ref.Frame.Encode are correct", "NextReader drops intermediate control frames and ReadMessage returns them before the glued message, as documented"},
		Subs:        []mon.Sub{subEnum(), subRandom(), subLarge(), subLongRuns()},
	})
}
