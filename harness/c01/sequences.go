package main

import (
	"bufio"
	"bytes"
	"fmt"
	"io"

	"github.com/gobwas/ws"
	"github.com/gobwas/ws/wsutil"

	"verifharness/mon"
	"verifharness/ref"
	"verifharness/wsx"
	"verifharness/xport"
)

// subStreamSequences: the streaming decoder is not used once per Reader but
// for header after header on one connection. With validity checks off (only
// the parser is observed) every complete minimal header of a sequence must be
// decoded exactly as ws.ReadHeader decodes the same bytes, whatever frames
// went before it - in particular after a non-final frame, when the Reader
// considers a fragmented message open.
func subStreamSequences() mon.Sub {
	return mon.Sub{
		Name: "stream-sequences", Required: true,
		N: func(t string) int {
			if t == "thorough" {
				return 200000
			}
			return 6000
		},
		Do: func(c *mon.C) {
			n := 2 + c.Rng.Intn(4)
			var hs []ref.Header
			var payloads [][]byte
			var stream []byte
			var frameStart []int
			for i := 0; i < n; i++ {
				frameStart = append(frameStart, len(stream))
				h := ref.Header{Fin: c.Rng.Intn(2) == 0, Rsv: byte(c.Rng.Intn(8)), Op: byte(c.Rng.Intn(16)), Masked: c.Rng.Intn(2) == 0}
				if i == 0 && c.Rng.Intn(2) == 0 {
					h.Fin, h.Op = false, byte(c.Rng.Intn(3)) // open a fragmented message first
				}
				if ref.IsControl(h.Op) {
					h.Fin = true // (what the reader's fragmentation state makes of a NON-final control frame is not modelled here)
				}
				if h.Masked {
					c.Rng.Read(h.Mask[:])
				}
				p := make([]byte, []int{0, 1, 5, 125, 126, 200, 70000}[c.Rng.Intn(7)])
				if len(p) == 70000 && c.Rng.Intn(4) != 0 {
					p = p[:9]
				}
				c.Rng.Read(p)
				h.Length = int64(len(p))
				hs, payloads = append(hs, h), append(payloads, p)
				stream = append(stream, ref.Frame{H: h, Payload: p}.Encode()...)
			}
			plans := xport.Plans(c.Rng.Int63(), nil)
			plan := plans[c.Rng.Intn(len(plans))]
			det := func() map[string]interface{} {
				var d []string
				for _, h := range hs {
					d = append(d, h.String())
				}
				return map[string]interface{}{"headers": d, "plan": plan.String(), "payloads_taken_from_the_source_directly": c.I%3 == 2, "idle_timeout_before_header": c.I%4 == 1}
			}
			// reference run: ws.ReadHeader + exact payload reads over the same bytes
			c1 := xport.NewChunker(stream, plan)
			for i := range hs {
				g, err := ws.ReadHeader(c1)
				if err != nil || wsx.FromWS(g) != hs[i] {
					c.Fail("sequence/readheader", fmt.Sprintf("ws.ReadHeader on header %d of a sequence: %v / %s", i, err, wsx.FromWS(g)), det())
					return
				}
				if _, err := io.ReadFull(c1, make([]byte, len(payloads[i]))); err != nil && len(payloads[i]) > 0 {
					c.Inconclusive("harness: payload read failed")
					return
				}
			}
			// streaming decoder, one Reader for the whole sequence
			c.Count(n)
			c2 := xport.NewChunker(stream, plan)
			var src2 io.Reader = c2
			// one case in four: the connection is idle when one of the headers is asked for - the read times out with
			// nothing consumed (an expired read deadline) and the application asks again: the header is there then
			idleAt := -1
			if c.I%4 == 1 {
				idleAt = c.I / 4 % n
				src2 = &xport.Transient{R: c2, At: frameStart[idleAt], Err: xport.ErrTimeout}
			}
			rd := &wsutil.Reader{Source: src2, SkipHeaderCheck: true, State: parserStates[c.I%len(parserStates)]}
			open := false // a non-final data frame went before: the Reader drains control frames by itself then
			direct := c.I%3 == 2
			for i := range hs {
				g, err := rd.NextFrame()
				if err == xport.ErrTimeout && i == idleAt {
					g, err = rd.NextFrame()
				}
				if err != nil {
					c.Fail("sequence/stream/error", fmt.Sprintf("Reader.NextFrame failed on header %d of a sequence (%s, after %d frames, fragmented=%v): %v", i, hs[i], i, open, err), det())
					return
				}
				if wsx.FromWS(g) != hs[i] {
					c.Fail("sequence/stream/fields", fmt.Sprintf("Reader.NextFrame decoded header %d of a sequence as %s, ws.ReadHeader as %s", i, wsx.FromWS(g), hs[i]), det())
					return
				}
				ctl := ref.IsControl(hs[i].Op)
				if !(ctl && open) && len(payloads[i]) > 0 {
					// (a control frame inside an open message is consumed by NextFrame itself)
					p := make([]byte, len(payloads[i]))
					if direct {
						// the application takes the payload from the source itself (a header-only use of the
						// decoder: "consumes not one byte beyond the header" is what makes that possible)
						if _, err := io.ReadFull(src2, p); err != nil {
							c.Inconclusive("harness: direct payload read failed")
							return
						}
						continueOpen(&open, ctl, hs[i].Fin)
						continue
					}
					if _, err := io.ReadFull(readerOnly{rd}, p); err != nil {
						c.Fail("sequence/stream/payload-error", fmt.Sprintf("reading the %d payload bytes of frame %d: %v", len(p), i, err), det())
						return
					}
					if !bytes.Equal(p, payloads[i]) {
						c.Fail("sequence/stream/payload", fmt.Sprintf("payload of frame %d not delivered intact", i), det())
						return
					}
				}
				if !ctl {
					open = !hs[i].Fin
				}
			}
			if c2.Pos != len(stream) {
				c.Fail("sequence/stream/consumed", fmt.Sprintf("the streaming reader consumed %d of %d bytes", c2.Pos, len(stream)), det())
				return
			}
			c.Classf("n=%d first-open=%v plan=%s direct=%v", n, !hs[0].Fin && !ref.IsControl(hs[0].Op), plan.Kind, direct)
			c.Sample(det())
		},
	}
}

func continueOpen(open *bool, ctl, fin bool) {
	if !ctl {
		*open = !fin
	}
}

// srcKinds are the concrete io.Reader types an application hands to the
// decoders: the decoding must not depend on which one it is.
var srcKinds = []string{"chunker", "bufio16", "bufio19", "bufio64", "bufio4096", "bufio-over-bufio", "bytes.Reader", "bytes.Buffer", "readerOnly", "bufio16-used", "queue-Len-buffered", "Len-zero"}

// mkSource returns the source and a function that re-uses every piece of
// memory the source owned for something else (what an application does with a
// buffer once it has read its frames).
func mkSource(kind string, stream []byte, plan xport.Plan) (io.Reader, func()) {
	stream = append([]byte(nil), stream...)
	junk := bytes.Repeat([]byte{0xEE}, len(stream)+64)
	scribble := func() { copy(stream, junk) }
	switch kind {
	case "bufio16", "bufio19", "bufio64", "bufio4096":
		var sz int
		fmt.Sscanf(kind, "bufio%d", &sz)
		br := bufio.NewReaderSize(xport.NewChunker(stream, plan), sz)
		return br, func() { scribble(); br.Reset(bytes.NewReader(junk)); br.Peek(sz) }
	case "bufio-over-bufio":
		br := bufio.NewReaderSize(bufio.NewReaderSize(xport.NewChunker(stream, plan), 64), 16)
		return br, func() { scribble(); br.Reset(bytes.NewReader(junk)); br.Peek(16) }
	case "bytes.Reader":
		return bytes.NewReader(stream), scribble
	case "bytes.Buffer":
		b := bytes.NewBuffer(stream)
		return b, func() { b.Reset(); b.Write(junk[:len(stream)]); scribble() }
	case "readerOnly":
		return readerOnly{xport.NewChunker(stream, plan)}, scribble
	case "queue-Len-buffered":
		// a receive queue: Len() says how many bytes are buffered RIGHT NOW (the rest of the segment that arrived
		// last), not how many are still to come
		return &lenQueue{src: xport.NewChunker(stream, plan)}, scribble
	case "Len-zero":
		// a reader that happens to have a Len method about something else
		return lenZero{xport.NewChunker(stream, plan)}, scribble
	case "bufio16-used":
		// a buffered reader that already served some bytes of the connection (a
		// handshake, say): its buffer is part-consumed when the first header comes
		pre := []byte("HTTP/1.1 101\r\n\r\n")[:11]
		br := bufio.NewReaderSize(xport.NewChunker(append(append([]byte(nil), pre...), stream...), plan), 16)
		io.ReadFull(br, make([]byte, len(pre)))
		return br, func() { scribble(); br.Reset(bytes.NewReader(junk)); br.Peek(16) }
	}
	return xport.NewChunker(stream, plan), scribble
}

type lenQueue struct {
	src io.Reader
	buf []byte
	err error
}

func (q *lenQueue) Len() int { return len(q.buf) }
func (q *lenQueue) Read(p []byte) (int, error) {
	if len(q.buf) == 0 && q.err == nil {
		seg := make([]byte, 4096)
		n, err := q.src.Read(seg)
		q.buf, q.err = seg[:n], err
	}
	if len(q.buf) == 0 {
		return 0, q.err
	}
	n := copy(p, q.buf)
	q.buf = q.buf[n:]
	return n, nil
}

type lenZero struct{ io.Reader }

func (lenZero) Len() int { return 0 }

// subSourceKinds: one byte stream (a sequence of frames, possibly cut short),
// decoded by ws.ReadHeader(+payload reads), ws.ReadFrame and the streaming
// Reader from every kind of source under one chunk plan: the decoded headers,
// payloads and the final error class are those of the reference codec.
func subSourceKinds() mon.Sub {
	return mon.Sub{
		Name: "source-kinds", Required: true,
		N: func(t string) int {
			if t == "thorough" {
				return 60000
			}
			return 2500
		},
		Do: func(c *mon.C) {
			n := 1 + c.Rng.Intn(4)
			var hs []ref.Header
			var payloads, wire [][]byte // as sent by the application / as on the wire (masked)
			var stream []byte
			var ends []int
			for i := 0; i < n; i++ {
				h := ref.Header{Fin: true, Rsv: byte(c.Rng.Intn(8)), Op: byte(c.Rng.Intn(16)), Masked: c.Rng.Intn(2) == 0}
				if !ref.IsControl(h.Op) {
					h.Fin = c.Rng.Intn(2) == 0
				}
				if h.Masked {
					c.Rng.Read(h.Mask[:])
				}
				p := make([]byte, []int{0, 1, 2, 5, 9, 14, 125, 126, 127, 200, 65535, 65536}[c.Rng.Intn(12)])
				if len(p) > 60000 && c.Rng.Intn(3) != 0 {
					p = p[:3]
				}
				c.Rng.Read(p)
				h.Length = int64(len(p))
				hs, payloads = append(hs, h), append(payloads, p)
				enc := ref.Frame{H: h, Payload: p}.Encode()
				wire = append(wire, enc[len(enc)-len(p):])
				stream = append(stream, enc...)
				ends = append(ends, len(stream))
			}
			whole := len(stream)
			if c.Rng.Intn(3) == 0 {
				stream = stream[:c.Rng.Intn(len(stream)+1)] // the peer went away mid-stream
			}
			complete := 0
			for complete < n && ends[complete] <= len(stream) {
				complete++
			}
			// after the complete frames: clean end exactly on a frame boundary, else a short one
			wantEnd := io.ErrUnexpectedEOF
			if len(stream) == whole || (complete > 0 && ends[complete-1] == len(stream)) || len(stream) == 0 {
				wantEnd = io.EOF
			}
			plans := xport.Plans(c.Rng.Int63(), nil)
			plan := plans[c.Rng.Intn(len(plans))]
			det := func(kind string) map[string]interface{} {
				var d []string
				for _, h := range hs {
					d = append(d, h.String())
				}
				return map[string]interface{}{"headers": d, "plan": plan.String(), "source": kind, "stream_len": len(stream), "whole_len": whole, "complete_frames": complete}
			}
			for _, kind := range srcKinds {
				// (1) ReadHeader + payload reads
				src, _ := mkSource(kind, stream, plan)
				c.Count(1)
				i := 0
				var end error
				for {
					g, err := ws.ReadHeader(src)
					if err != nil {
						end = err
						break
					}
					if i >= n || wsx.FromWS(g) != hs[i] {
						c.Fail("source-kinds/readheader/fields", fmt.Sprintf("ws.ReadHeader on a %s source decoded header %d as %s", kind, i, wsx.FromWS(g)), det(kind))
						return
					}
					p := make([]byte, len(payloads[i]))
					if _, err := io.ReadFull(src, p); err != nil {
						if i < complete {
							c.Fail("source-kinds/readheader/payload-error", fmt.Sprintf("payload of frame %d after ws.ReadHeader on a %s source: %v", i, kind, err), det(kind))
							return
						}
						end = io.ErrUnexpectedEOF
						break
					}
					if !bytes.Equal(p, wire[i]) {
						c.Fail("source-kinds/readheader/payload", fmt.Sprintf("payload of frame %d differs after ws.ReadHeader on a %s source (header over- or under-read)", i, kind), det(kind))
						return
					}
					i++
				}
				if i != complete {
					c.Fail("source-kinds/readheader/count", fmt.Sprintf("ws.ReadHeader on a %s source decoded %d frames, the stream holds %d complete ones (ended with %v)", kind, i, complete, end), det(kind))
					return
				}
				if end != wantEnd {
					c.Fail("source-kinds/readheader/end", fmt.Sprintf("ws.ReadHeader on a %s source ended with %v, want %v", kind, end, wantEnd), det(kind))
					return
				}
				// (2) ReadFrame
				src, reuse := mkSource(kind, stream, plan)
				c.Count(1)
				i = 0
				var heldFrames []ws.Frame
				for {
					f, err := ws.ReadFrame(src)
					if err != nil {
						end = err
						break
					}
					heldFrames = append(heldFrames, f)
					if i >= complete || wsx.FromWS(f.Header) != hs[i] || !bytes.Equal(f.Payload, wire[i]) {
						c.Fail("source-kinds/readframe/frame", fmt.Sprintf("ws.ReadFrame on a %s source decoded frame %d as %s with %d payload bytes", kind, i, wsx.FromWS(f.Header), len(f.Payload)), det(kind))
						return
					}
					i++
				}
				if i != complete || end != wantEnd {
					c.Fail("source-kinds/readframe/end", fmt.Sprintf("ws.ReadFrame on a %s source decoded %d frames and ended with %v; want %d and %v", kind, i, end, complete, wantEnd), det(kind))
					return
				}
				// the frames read belong to the caller: they still hold their bytes when the source's memory is used for something else
				reuse()
				for k, f := range heldFrames {
					if !bytes.Equal(f.Payload, wire[k]) {
						c.Fail("source-kinds/readframe/held-payload", fmt.Sprintf("the payload of frame %d returned by ws.ReadFrame changed when the %s source it was read from was reused", k, kind), det(kind))
						return
					}
				}
				// (3) the streaming Reader (parser only)
				src, _ = mkSource(kind, stream, plan)
				c.Count(1)
				rd := &wsutil.Reader{Source: src, SkipHeaderCheck: true, State: parserStates[(c.I+len(kind))%len(parserStates)]}
				open, skipped := false, false
				i = 0
				for {
					g, err := rd.NextFrame()
					if err != nil {
						end = err
						break
					}
					if i >= n || wsx.FromWS(g) != hs[i] {
						c.Fail("source-kinds/stream/fields", fmt.Sprintf("Reader.NextFrame on a %s source decoded header %d as %s", kind, i, wsx.FromWS(g)), det(kind))
						return
					}
					ctl := ref.IsControl(hs[i].Op)
					// (the payload of a control frame inside an open message is left to the
					// Reader, which drains it on the next call: a cut one shows up one call later)
					skipped = ctl && open && len(payloads[i]) > 0
					if !(ctl && open) {
						p := make([]byte, len(payloads[i]))
						if _, err := io.ReadFull(readerOnly{rd}, p); err != nil && len(p) > 0 {
							end = err
							break
						}
						if !bytes.Equal(p, payloads[i]) {
							c.Fail("source-kinds/stream/payload", fmt.Sprintf("payload of frame %d differs through the Reader on a %s source", i, kind), det(kind))
							return
						}
					}
					if !ctl {
						open = !hs[i].Fin
					}
					i++
				}
				if i != complete && !(skipped && i == complete+1) {
					c.Fail("source-kinds/stream/count", fmt.Sprintf("Reader on a %s source decoded %d frames, the stream holds %d complete ones (ended with %v)", kind, i, complete, end), det(kind))
					return
				}
				if end != io.EOF && end != io.ErrUnexpectedEOF {
					c.Fail("source-kinds/stream/end", fmt.Sprintf("Reader on a %s source ended with %v", kind, end), det(kind))
					return
				}
			}
			c.Classf("n=%d cut=%v plan=%s", n, len(stream) != whole, plan.Kind)
			c.Sample(det("all"))
		},
	}
}

// ---- destination kinds (the encoder must not depend on what kind of writer it is given)

// plainW only has Write; it records the calls.
type plainW struct {
	data  []byte
	calls int
}

func (w *plainW) Write(p []byte) (int, error) {
	w.calls++
	w.data = append(w.data, p...)
	return len(p), nil
}

// richW offers the optional writer interfaces a fast path may look for.
type richW struct {
	plainW
	strings, bytesW, readFroms int
}

func (w *richW) WriteString(s string) (int, error) {
	w.strings++
	w.data = append(w.data, s...)
	return len(s), nil
}

func (w *richW) WriteByte(b byte) error {
	w.bytesW++
	w.data = append(w.data, b)
	return nil
}

func (w *richW) ReadFrom(r io.Reader) (int64, error) {
	w.readFroms++
	b, err := io.ReadAll(r)
	w.data = append(w.data, b...)
	return int64(len(b)), err
}

var dstKinds = []string{"bytes.Buffer", "plain", "rich", "bufio16", "bufio64", "bufio4096", "bufio16-used", "pipe"}

// mkDest returns a destination of the given kind and a function that finishes
// it and returns every byte it received.
func mkDest(kind string) (io.Writer, func() []byte) {
	switch kind {
	case "plain":
		w := &plainW{}
		return w, func() []byte { return w.data }
	case "rich":
		w := &richW{}
		return w, func() []byte { return w.data }
	case "bufio16", "bufio64", "bufio4096":
		var sz int
		fmt.Sscanf(kind, "bufio%d", &sz)
		under := &plainW{}
		bw := bufio.NewWriterSize(under, sz)
		return bw, func() []byte { bw.Flush(); return under.data }
	case "bufio16-used":
		// a buffered writer that already holds part of something else (the handshake
		// response, say) when the first frame is written
		under := &plainW{}
		bw := bufio.NewWriterSize(under, 16)
		bw.WriteString("HTTP/1.1 101")
		return bw, func() []byte { bw.Flush(); return under.data[len("HTTP/1.1 101"):] }
	case "pipe":
		pr, pw := io.Pipe()
		done := make(chan []byte, 1)
		go func() {
			var all []byte
			p := make([]byte, 7)
			for {
				n, err := pr.Read(p)
				all = append(all, p[:n]...)
				if err != nil {
					done <- all
					return
				}
			}
		}()
		return pw, func() []byte { pw.Close(); return <-done }
	}
	var b bytes.Buffer
	return &b, func() []byte { return b.Bytes() }
}

// subDestKinds: 1-4 frames written with ws.WriteHeader + payload, ws.WriteFrame
// and ws.MustWriteFrame to every kind of destination: the bytes received are
// the reference encoding, whatever optional interfaces the destination has and
// whatever it already holds.
func subDestKinds() mon.Sub {
	return mon.Sub{
		Name: "dest-kinds", Required: true,
		N: func(t string) int {
			if t == "thorough" {
				return 40000
			}
			return 1500
		},
		Do: func(c *mon.C) {
			n := 1 + c.Rng.Intn(4)
			var frames []ws.Frame
			var want []byte
			var desc []string
			for i := 0; i < n; i++ {
				h := ref.Header{Fin: c.Rng.Intn(2) == 0, Rsv: byte(c.Rng.Intn(8)), Op: byte(c.Rng.Intn(16)), Masked: c.Rng.Intn(2) == 0}
				if h.Masked {
					c.Rng.Read(h.Mask[:])
				}
				p := make([]byte, []int{0, 1, 2, 9, 13, 14, 15, 124, 125, 126, 127, 300, 4090, 65535, 65536}[c.Rng.Intn(15)])
				if len(p) > 60000 && c.Rng.Intn(3) != 0 {
					p = p[:6]
				}
				c.Rng.Read(p)
				h.Length = int64(len(p))
				frames = append(frames, ws.Frame{Header: wsx.ToWS(h), Payload: p})
				want = append(append(want, ref.EncodeHeader(h)...), p...) // (the frame API sends the payload as given: masking is the caller's business)
				desc = append(desc, h.String())
			}
			for _, kind := range dstKinds {
				for mode := 0; mode < 3; mode++ {
					c.Count(1)
					dst, finish := mkDest(kind)
					var err error
					for _, f := range frames {
						keep := append([]byte(nil), f.Payload...)
						switch mode {
						case 0:
							if err = ws.WriteHeader(dst, f.Header); err == nil {
								_, err = dst.Write(f.Payload)
							}
						case 1:
							err = ws.WriteFrame(dst, f)
						case 2:
							ws.MustWriteFrame(dst, f)
						}
						if err != nil {
							break
						}
						if !bytes.Equal(keep, f.Payload) {
							c.Fail("dest-kinds/payload-touched", fmt.Sprintf("the frame API changed the caller's payload while writing to a %s destination", kind), map[string]interface{}{"headers": desc, "dest": kind, "mode": mode})
							return
						}
					}
					got := finish()
					if err != nil || !bytes.Equal(got, want) {
						c.Fail("dest-kinds/bytes/"+[]string{"WriteHeader", "WriteFrame", "MustWriteFrame"}[mode], fmt.Sprintf("a %s destination received %d bytes (err=%v), the reference encoding has %d; first difference at %d", kind, len(got), err, len(want), firstDiff(got, want)),
							map[string]interface{}{"headers": desc, "dest": kind, "mode": mode})
						return
					}
				}
			}
			c.Classf("n=%d first=%s", n, lenForm(frames[0].Header.Length))
			c.Sample(map[string]interface{}{"headers": desc, "destinations": dstKinds, "modes": 3})
		},
	}
}

func firstDiff(a, b []byte) int {
	for i := 0; i < len(a) && i < len(b); i++ {
		if a[i] != b[i] {
			return i
		}
	}
	if len(a) < len(b) {
		return len(a)
	}
	return len(b)
}
