package main

import (
	"bytes"
	"fmt"
	"io"

	"github.com/gobwas/ws"
	"github.com/gobwas/ws/wsutil"

	"verifharness/mon"
	"verifharness/ref"
	"verifharness/wsx"
	"verifharness/xport"
)

// subStreamSequences: the streaming decoder is not used once per Reader but
// for header after header on one connection. With validity checks off (only
// the parser is observed) every complete minimal header of a sequence must be
// decoded exactly as ws.ReadHeader decodes the same bytes, whatever frames
// went before it - in particular after a non-final frame, when the Reader
// considers a fragmented message open.
func subStreamSequences() mon.Sub {
	return mon.Sub{
		Name: "stream-sequences", Required: true,
		N: func(t string) int {
			if t == "thorough" {
				return 200000
			}
			return 6000
		},
		Do: func(c *mon.C) {
			n := 2 + c.Rng.Intn(4)
			var hs []ref.Header
			var payloads [][]byte
			var stream []byte
			for i := 0; i < n; i++ {
				h := ref.Header{Fin: c.Rng.Intn(2) == 0, Rsv: byte(c.Rng.Intn(8)), Op: byte(c.Rng.Intn(16)), Masked: c.Rng.Intn(2) == 0}
				if i == 0 && c.Rng.Intn(2) == 0 {
					h.Fin, h.Op = false, byte(c.Rng.Intn(3)) // open a fragmented message first
				}
				if ref.IsControl(h.Op) {
					h.Fin = true // (what the reader's fragmentation state makes of a NON-final control frame is not modelled here)
				}
				if h.Masked {
					c.Rng.Read(h.Mask[:])
				}
				p := make([]byte, []int{0, 1, 5, 125, 126, 200, 70000}[c.Rng.Intn(7)])
				if len(p) == 70000 && c.Rng.Intn(4) != 0 {
					p = p[:9]
				}
				c.Rng.Read(p)
				h.Length = int64(len(p))
				hs, payloads = append(hs, h), append(payloads, p)
				stream = append(stream, ref.Frame{H: h, Payload: p}.Encode()...)
			}
			plans := xport.Plans(c.Rng.Int63(), nil)
			plan := plans[c.Rng.Intn(len(plans))]
			det := func() map[string]interface{} {
				var d []string
				for _, h := range hs {
					d = append(d, h.String())
				}
				return map[string]interface{}{"headers": d, "plan": plan.String()}
			}
			// reference run: ws.ReadHeader + exact payload reads over the same bytes
			c1 := xport.NewChunker(stream, plan)
			for i := range hs {
				g, err := ws.ReadHeader(c1)
				if err != nil || wsx.FromWS(g) != hs[i] {
					c.Fail("sequence/readheader", fmt.Sprintf("ws.ReadHeader on header %d of a sequence: %v / %s", i, err, wsx.FromWS(g)), det())
					return
				}
				if _, err := io.ReadFull(c1, make([]byte, len(payloads[i]))); err != nil && len(payloads[i]) > 0 {
					c.Inconclusive("harness: payload read failed")
					return
				}
			}
			// streaming decoder, one Reader for the whole sequence
			c.Count(n)
			c2 := xport.NewChunker(stream, plan)
			rd := &wsutil.Reader{Source: c2, SkipHeaderCheck: true}
			open := false // a non-final data frame went before: the Reader drains control frames by itself then
			for i := range hs {
				g, err := rd.NextFrame()
				if err != nil {
					c.Fail("sequence/stream/error", fmt.Sprintf("Reader.NextFrame failed on header %d of a sequence (%s, after %d frames, fragmented=%v): %v", i, hs[i], i, open, err), det())
					return
				}
				if wsx.FromWS(g) != hs[i] {
					c.Fail("sequence/stream/fields", fmt.Sprintf("Reader.NextFrame decoded header %d of a sequence as %s, ws.ReadHeader as %s", i, wsx.FromWS(g), hs[i]), det())
					return
				}
				ctl := ref.IsControl(hs[i].Op)
				if !(ctl && open) && len(payloads[i]) > 0 {
					// (a control frame inside an open message is consumed by NextFrame itself)
					p := make([]byte, len(payloads[i]))
					if _, err := io.ReadFull(readerOnly{rd}, p); err != nil {
						c.Fail("sequence/stream/payload-error", fmt.Sprintf("reading the %d payload bytes of frame %d: %v", len(p), i, err), det())
						return
					}
					if !bytes.Equal(p, payloads[i]) {
						c.Fail("sequence/stream/payload", fmt.Sprintf("payload of frame %d not delivered intact", i), det())
						return
					}
				}
				if !ctl {
					open = !hs[i].Fin
				}
			}
			if c2.Pos != len(stream) {
				c.Fail("sequence/stream/consumed", fmt.Sprintf("the streaming reader consumed %d of %d bytes", c2.Pos, len(stream)), det())
				return
			}
			c.Classf("n=%d first-open=%v plan=%s", n, !hs[0].Fin && !ref.IsControl(hs[0].Op), plan.Kind)
			c.Sample(det())
		},
	}
}
