package main

import (
	"bytes"
	"fmt"

	"github.com/gobwas/ws"

	"verifharness/mon"
	"verifharness/ref"
	"verifharness/wsx"
)

// subPrecompiled: the package offers ready-made encodings (ws.CompiledPing, ...Pong, ...Close, ...Close<status>), built
// by the encoder while the package initialises. They are encodings like any other: each equals what the reference
// encoder gives for its frame, decodes (ReadHeader / ReadFrame) to that frame and nothing else, and equals what
// CompileFrame gives for the same frame NOW.
func subPrecompiled() mon.Sub {
	type pc struct {
		name string
		b    []byte
		op   byte
		code int // close status, -1: no payload
	}
	list := []pc{
		{"CompiledPing", ws.CompiledPing, ref.OpPing, -1},
		{"CompiledPong", ws.CompiledPong, ref.OpPong, -1},
		{"CompiledClose", ws.CompiledClose, ref.OpClose, -1},
		{"CompiledCloseNormalClosure", ws.CompiledCloseNormalClosure, ref.OpClose, 1000},
		{"CompiledCloseGoingAway", ws.CompiledCloseGoingAway, ref.OpClose, 1001},
		{"CompiledCloseProtocolError", ws.CompiledCloseProtocolError, ref.OpClose, 1002},
		{"CompiledCloseUnsupportedData", ws.CompiledCloseUnsupportedData, ref.OpClose, 1003},
		{"CompiledCloseNoMeaningYet", ws.CompiledCloseNoMeaningYet, ref.OpClose, 1004},
		{"CompiledCloseInvalidFramePayloadData", ws.CompiledCloseInvalidFramePayloadData, ref.OpClose, 1007},
		{"CompiledClosePolicyViolation", ws.CompiledClosePolicyViolation, ref.OpClose, 1008},
		{"CompiledCloseMessageTooBig", ws.CompiledCloseMessageTooBig, ref.OpClose, 1009},
		{"CompiledCloseMandatoryExt", ws.CompiledCloseMandatoryExt, ref.OpClose, 1010},
		{"CompiledCloseInternalServerError", ws.CompiledCloseInternalServerError, ref.OpClose, 1011},
		{"CompiledCloseTLSHandshake", ws.CompiledCloseTLSHandshake, ref.OpClose, 1015},
	}
	return mon.Sub{
		Name: "precompiled", Exhaustive: true, Required: true,
		N: func(string) int { return len(list) },
		Do: func(c *mon.C) {
			p := list[c.I]
			var payload []byte
			if p.code >= 0 {
				payload = []byte{byte(p.code >> 8), byte(p.code)}
			}
			want := ref.Frame{H: ref.Header{Fin: true, Op: p.op}, Payload: payload}.Encode()
			det := map[string]interface{}{"frame": p.name, "bytes": fmt.Sprintf("% x", p.b), "reference_encoding": fmt.Sprintf("% x", want)}
			c.Count(3)
			if !bytes.Equal(p.b, want) {
				c.Fail("precompiled/bytes", fmt.Sprintf("ws.%s is % x; the frame it stands for encodes as % x", p.name, p.b, want), det)
				return
			}
			f, err := ws.ReadFrame(bytes.NewReader(append(append([]byte(nil), p.b...), 0xA5)))
			if err != nil || !f.Header.Fin || byte(f.Header.OpCode) != p.op || f.Header.Rsv != 0 || f.Header.Masked || f.Header.Length != int64(len(payload)) || !bytes.Equal(f.Payload, payload) {
				c.Fail("precompiled/decode", fmt.Sprintf("ws.%s decodes to %+v payload % x (err=%v)", p.name, f.Header, f.Payload, err), det)
				return
			}
			now, err := ws.CompileFrame(ws.Frame{Header: wsx.ToWS(ref.Header{Fin: true, Op: p.op, Length: int64(len(payload))}), Payload: payload})
			if err != nil || !bytes.Equal(now, p.b) {
				c.Fail("precompiled/differs-from-compile-now", fmt.Sprintf("CompileFrame gives % x for the frame of ws.%s, which holds % x (err=%v)", now, p.name, p.b, err), det)
				return
			}
			c.Classf("precompiled|%s", p.name)
		},
	}
}
