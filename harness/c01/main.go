// C01 — frame header codec is byte-exact per RFC 6455 §5.2 and its own inverse.
package main

import (
	"bytes"
	"fmt"
	"io"
	"math/rand"

	"github.com/gobwas/ws"
	"github.com/gobwas/ws/wsutil"

	"verifharness/mon"
	"verifharness/ref"
	"verifharness/wsx"
	"verifharness/xport"
)

var boundaryLengths = []int64{0, 1, 2, 124, 125, 126, 127, 128, 254, 255, 256, 257, 65534, 65535, 65536, 65537,
	1<<31 - 1, 1 << 31, 1<<32 - 1, 1 << 32, 1 << 40, 1 << 47, 1 << 53, 1<<62 + 12345, 1<<63 - 2, 1<<63 - 1}

var sentinel = []byte{0xde, 0xad, 0xbe, 0xef, 0x81, 0x7f, 0xff, 0x00}

var plans = []xport.Plan{{Kind: "whole"}, {Kind: "one"}, {Kind: "random"}, {Kind: "fixed", K: 3, Hiccup: 2}}

func hdrKey(h ref.Header) string {
	return fmt.Sprintf("fin=%v rsv=%d op=%x m=%v len=%s", h.Fin, h.Rsv, h.Op, h.Masked, lenForm(h.Length))
}

func lenForm(l int64) string {
	switch {
	case l <= 125:
		return "7"
	case l <= 0xffff:
		return "16"
	default:
		return "64"
	}
}

// checkHeader runs every clause of the encode/size/decode round trip for h.
func checkHeader(c *mon.C, h ref.Header, planIdx int) {
	c.Count(1)
	want := ref.EncodeHeader(h)
	wh := wsx.ToWS(h)
	det := func(extra map[string]interface{}) map[string]interface{} {
		m := map[string]interface{}{"header": h.String(), "want_bytes": fmt.Sprintf("%x", want)}
		for k, v := range extra {
			m[k] = v
		}
		return m
	}
	var buf bytes.Buffer
	if err := ws.WriteHeader(&buf, wh); err != nil {
		c.Fail("encode/error/len"+lenForm(h.Length), "WriteHeader failed on a valid header: "+err.Error(), det(nil))
		return
	}
	if !bytes.Equal(buf.Bytes(), want) {
		c.Fail("encode/bytes/len"+lenForm(h.Length), "WriteHeader bytes differ from RFC 6455 §5.2 layout", det(map[string]interface{}{"got_bytes": fmt.Sprintf("%x", buf.Bytes())}))
		return
	}
	if n := ws.HeaderSize(wh); n != len(want) {
		c.Fail("size/len"+lenForm(h.Length), fmt.Sprintf("HeaderSize=%d, encoding has %d bytes", n, len(want)), det(nil))
		return
	}
	stream := append(append([]byte(nil), want...), sentinel...)
	plan := plans[planIdx%len(plans)]
	plan.Seed = int64(planIdx) + h.Length
	exp := h
	if !exp.Masked {
		exp.Mask = [4]byte{}
	}

	// low-level decoder
	ch := xport.NewChunker(stream, plan)
	got, err := ws.ReadHeader(ch)
	if err != nil {
		c.Fail("decode/readheader/error/len"+lenForm(h.Length), "ReadHeader failed on a complete minimal header: "+err.Error(), det(map[string]interface{}{"plan": plan.String()}))
		return
	}
	if wsx.FromWS(got) != exp {
		c.Fail("decode/readheader/fields/len"+lenForm(h.Length), "ReadHeader returned a different header", det(map[string]interface{}{"got": wsx.FromWS(got).String(), "plan": plan.String()}))
		return
	}
	// the three reserved bits as the accessors and the helper functions present them: RSV1 is bit 6 of the first
	// octet on the wire, RSV2 bit 5, RSV3 bit 4 (RFC 6455 §5.2)
	w1, w2, w3 := want[0]&0x40 != 0, want[0]&0x20 != 0, want[0]&0x10 != 0
	b1, b2, b3 := ws.RsvBits(got.Rsv)
	if got.Rsv1() != w1 || got.Rsv2() != w2 || got.Rsv3() != w3 || b1 != w1 || b2 != w2 || b3 != w3 || ws.Rsv(w1, w2, w3) != got.Rsv {
		c.Fail("decode/readheader/rsv-accessors", fmt.Sprintf("wire bits rsv1..3 = %v %v %v; Header.Rsv1/2/3() = %v %v %v; RsvBits = %v %v %v; Rsv(...) = %d, Header.Rsv = %d", w1, w2, w3, got.Rsv1(), got.Rsv2(), got.Rsv3(), b1, b2, b3, ws.Rsv(w1, w2, w3), got.Rsv), det(nil))
		return
	}
	if ch.Pos != len(want) {
		c.Fail("decode/readheader/consumed/len"+lenForm(h.Length), fmt.Sprintf("ReadHeader consumed %d bytes, header has %d", ch.Pos, len(want)), det(map[string]interface{}{"plan": plan.String()}))
		return
	}
	if rest, _ := io.ReadAll(ch); !bytes.Equal(rest, sentinel) {
		c.Fail("decode/readheader/rest", "bytes after the header were disturbed", det(nil))
		return
	}

	// streaming decoder (validity checks off: only the parser is observed)
	ch = xport.NewChunker(stream, plan)
	// (with the validity checks off the parser does not depend on the endpoint's side either: every header is
	// decoded under the zero state, as a server, as a client and as a server with an extension negotiated)
	rd := &wsutil.Reader{Source: ch, SkipHeaderCheck: true, State: parserStates[(planIdx+int(h.Length%7)+int(h.Rsv))%len(parserStates)]}
	got, err = rd.NextFrame()
	if err != nil {
		c.Fail("decode/stream/error/len"+lenForm(h.Length), "Reader.NextFrame failed on a complete minimal header: "+err.Error(), det(map[string]interface{}{"plan": plan.String()}))
		return
	}
	if wsx.FromWS(got) != exp {
		c.Fail("decode/stream/fields/len"+lenForm(h.Length), "Reader.NextFrame returned a different header", det(map[string]interface{}{"got": wsx.FromWS(got).String(), "plan": plan.String()}))
		return
	}
	if ch.Pos != len(want) {
		c.Fail("decode/stream/consumed/len"+lenForm(h.Length), fmt.Sprintf("Reader.NextFrame consumed %d bytes, header has %d", ch.Pos, len(want)), det(map[string]interface{}{"plan": plan.String()}))
		return
	}
	// the payload that follows is untouched: read min(Length, 8) bytes of it
	// through the reader and compare with the (unmasked) sentinel.
	if h.Length > 0 {
		k := int(min64(h.Length, int64(len(sentinel))))
		p := make([]byte, k)
		if _, err := io.ReadFull(readerOnly{rd}, p); err != nil && !(err == io.EOF || err == io.ErrUnexpectedEOF) {
			// Length > 8: the stream ends inside the payload; any error is fine here.
		}
		wantP := sentinel[:k]
		if h.Masked {
			wantP = ref.Mask(wantP, h.Mask, 0)
		}
		if !bytes.Equal(p, wantP) {
			c.Fail("decode/stream/payload", "payload following the header was not delivered intact by the streaming reader", det(map[string]interface{}{"got": fmt.Sprintf("%x", p), "want": fmt.Sprintf("%x", wantP), "plan": plan.String()}))
			return
		}
	}
	c.Class(hdrKey(h) + " plan=" + plan.String())
}

var parserStates = []ws.State{0, ws.StateServerSide, ws.StateClientSide, ws.StateServerSide | ws.StateExtended, ws.StateClientSide | ws.StateExtended}

type readerOnly struct{ r io.Reader }

func (r readerOnly) Read(p []byte) (int, error) {
	for {
		n, err := r.r.Read(p)
		if n > 0 || err != nil {
			return n, err
		}
	}
}

func min64(a, b int64) int64 {
	if a < b {
		return a
	}
	return b
}

var keys = [][4]byte{{0, 0, 0, 0}, {0xff, 0xff, 0xff, 0xff}, {1, 2, 3, 4}}

func subEncodeGrid() mon.Sub {
	return mon.Sub{
		Name: "encode-grid", Exhaustive: true, Required: true,
		N: func(string) int { return 2 * 8 * 16 * 2 },
		Do: func(c *mon.C) {
			i := c.I
			h := ref.Header{Fin: i&1 != 0, Rsv: byte(i >> 1 & 7), Op: byte(i >> 4 & 15), Masked: i>>8&1 != 0}
			// (an UNMASKED header may still carry key bytes - a received header whose flag was cleared
			// and that is written again -: they are not part of its encoding)
			ks := [][4]byte{{}, {1, 2, 3, 4}}
			if h.Masked {
				var rk [4]byte
				c.Rng.Read(rk[:])
				ks = append(append([][4]byte(nil), keys...), rk)
			}
			n := 0
			for _, k := range ks {
				for _, l := range boundaryLengths {
					h.Mask, h.Length = k, l
					for p := range plans {
						checkHeader(c, h, p)
						n++
					}
				}
			}
			if c.WantSample() {
				h.Length = 65536
				c.Sample(map[string]interface{}{"header": h.String(), "bytes": fmt.Sprintf("%x", ref.EncodeHeader(h)), "checked_variants": n})
			}
		},
	}
}

func randLen(r *rand.Rand) int64 {
	bits := r.Intn(64)
	if bits == 0 {
		return 0
	}
	v := r.Int63() >> uint(63-bits)
	switch r.Intn(6) {
	case 0:
		return []int64{125, 126, 127, 65535, 65536}[r.Intn(5)] + int64(r.Intn(3)) - 1
	}
	return v
}

func subEncodeRandom() mon.Sub {
	return mon.Sub{
		Name: "encode-random", Required: true,
		N: func(t string) int {
			if t == "thorough" {
				return 60000
			}
			return 2000
		},
		Do: func(c *mon.C) {
			for k := 0; k < 50; k++ {
				h := ref.Header{Fin: c.Rng.Intn(2) == 0, Rsv: byte(c.Rng.Intn(8)), Op: byte(c.Rng.Intn(16)), Masked: c.Rng.Intn(2) == 0, Length: randLen(c.Rng)}
				if h.Masked {
					c.Rng.Read(h.Mask[:])
				}
				checkHeader(c, h, c.Rng.Intn(len(plans)))
			}
		},
	}
}

// decodeBoth presents a byte string to the two decoders and compares them with
// the reference classification and with each other.
func decodeBoth(c *mon.C, b []byte, plan xport.Plan, origin string) {
	c.Count(1)
	rh, rn, st := ref.DecodeHeader(b)
	stream := append(append([]byte(nil), b...), sentinel...)
	if st == ref.DecIncomplete {
		stream = b // nothing may follow: the header really is cut
	}
	det := func(extra map[string]interface{}) map[string]interface{} {
		m := map[string]interface{}{"bytes": fmt.Sprintf("%x", b), "reference": st.String(), "ref_header": rh.String(), "plan": plan.String(), "origin": origin}
		for k, v := range extra {
			m[k] = v
		}
		return m
	}
	c1 := xport.NewChunker(stream, plan)
	h1, e1 := ws.ReadHeader(c1)
	c2 := xport.NewChunker(stream, plan)
	rd := &wsutil.Reader{Source: c2, SkipHeaderCheck: true, State: parserStates[len(b)%len(parserStates)]}
	h2, e2 := rd.NextFrame()
	cls := fmt.Sprintf("%s b1=%02x", st, 0)
	if len(b) >= 2 {
		cls = fmt.Sprintf("%s l7=%d m=%v", st, b[1]&0x7f, b[1]&0x80 != 0)
	}
	sig := "bytes/" + st.String()
	switch st {
	case ref.DecIncomplete, ref.DecMSB:
		if e1 == nil {
			c.Fail(sig+"/readheader-accepts", "ReadHeader succeeds on a header that is "+st.String(), det(map[string]interface{}{"got": wsx.FromWS(h1).String()}))
			return
		}
		if e2 == nil {
			c.Fail(sig+"/stream-accepts", "Reader.NextFrame succeeds on a header that is "+st.String(), det(map[string]interface{}{"got": wsx.FromWS(h2).String()}))
			return
		}
	case ref.DecOK:
		if e1 != nil || e2 != nil {
			c.Fail(sig+"/rejects", fmt.Sprintf("complete minimal header rejected (ReadHeader err=%v, NextFrame err=%v)", e1, e2), det(nil))
			return
		}
		if wsx.FromWS(h1) != rh || wsx.FromWS(h2) != rh {
			c.Fail(sig+"/fields", "decoded fields differ from the RFC layout", det(map[string]interface{}{"readheader": wsx.FromWS(h1).String(), "stream": wsx.FromWS(h2).String()}))
			return
		}
		if c1.Pos != rn || c2.Pos != rn {
			c.Fail(sig+"/consumed", fmt.Sprintf("consumed %d / %d bytes, header spans %d", c1.Pos, c2.Pos, rn), det(nil))
			return
		}
	case ref.DecNonMinimal:
		// OPEN whether refused or decoded, but both decoders must decide alike.
		if (e1 == nil) != (e2 == nil) {
			c.Fail(sig+"/disagree", fmt.Sprintf("decoders disagree on a non-minimal length form (ReadHeader err=%v, NextFrame err=%v)", e1, e2), det(nil))
			return
		}
		if e1 == nil && (h1 != h2 || c1.Pos != c2.Pos) {
			c.Fail(sig+"/fields-disagree", "decoders return different fields for a non-minimal length form", det(map[string]interface{}{"readheader": wsx.FromWS(h1).String(), "stream": wsx.FromWS(h2).String()}))
			return
		}
		if e1 == nil && (wsx.FromWS(h1) != rh || c1.Pos != rn) {
			c.Fail(sig+"/fields", "non-minimal header decoded to fields that differ from the RFC layout", det(map[string]interface{}{"readheader": wsx.FromWS(h1).String()}))
			return
		}
	}
	c.Class(cls + " " + plan.Kind)
}

func headerNeed(b1 byte) int {
	n := 2
	switch b1 & 0x7f {
	case 126:
		n += 2
	case 127:
		n += 8
	}
	if b1&0x80 != 0 {
		n += 4
	}
	return n
}

func subBytesPrefix() mon.Sub {
	return mon.Sub{
		Name: "bytes-prefix2", Exhaustive: true, Required: true,
		N: func(string) int { return 256 },
		Do: func(c *mon.C) {
			b0 := byte(c.I)
			variants := 0
			for b1i := 0; b1i < 256; b1i++ {
				b1 := byte(b1i)
				need := headerNeed(b1)
				full := make([]byte, need)
				full[0], full[1] = b0, b1
				c.Rng.Read(full[2:])
				l7 := b1 & 0x7f
				var forms [][]byte
				// every truncation (including the empty string and b0 alone)
				for k := 0; k < need; k++ {
					forms = append(forms, full[:k])
				}
				mk := func(f func(p []byte)) {
					p := append([]byte(nil), full...)
					f(p)
					forms = append(forms, p)
				}
				switch l7 {
				case 126:
					mk(func(p []byte) { p[2], p[3] = 0x01, 0x00 }) // 256 minimal
					mk(func(p []byte) { p[2], p[3] = 0xff, 0xff }) // 65535
					mk(func(p []byte) { p[2], p[3] = 0x00, 126 })  // minimal edge
					mk(func(p []byte) { p[2], p[3] = 0x00, 125 })  // non-minimal
					mk(func(p []byte) { p[2], p[3] = 0x00, 0x00 }) // non-minimal zero
				case 127:
					mk(func(p []byte) { copy(p[2:10], []byte{0, 0, 0, 0, 0, 1, 0, 0}) })                         // 65536 minimal
					mk(func(p []byte) { copy(p[2:10], []byte{0x7f, 0xff, 0xff, 0xff, 0xff, 0xff, 0xff, 0xff}) }) // max
					mk(func(p []byte) { copy(p[2:10], []byte{0x80, 0, 0, 0, 0, 0, 0, 0}) })                      // MSB
					mk(func(p []byte) { copy(p[2:10], []byte{0xff, 0xff, 0xff, 0xff, 0xff, 0xff, 0xff, 0xff}) }) // MSB
					mk(func(p []byte) { copy(p[2:10], []byte{0x80, 0, 0, 0, 0, 0, 0, 5}) })                      // MSB small
					mk(func(p []byte) { copy(p[2:10], []byte{0, 0, 0, 0, 0, 0, 0xff, 0xff}) })                   // non-minimal 65535
					mk(func(p []byte) { copy(p[2:10], []byte{0, 0, 0, 0, 0, 0, 0, 0}) })                         // non-minimal 0
					mk(func(p []byte) { p[2] &= 0x7f })                                                          // random, top bit clear
				default:
					mk(func(p []byte) {})
				}
				for fi, f := range forms {
					decodeBoth(c, f, plans[(fi+b1i)%len(plans)], "prefix2")
					variants++
				}
			}
			if c.WantSample() {
				c.Sample(map[string]interface{}{"first_byte": fmt.Sprintf("%02x", b0), "second_bytes": "00..ff", "byte_strings_checked": variants})
			}
		},
	}
}

func subBytesRandom() mon.Sub {
	return mon.Sub{
		Name: "bytes-random", Required: true,
		N: func(t string) int {
			if t == "thorough" {
				return 40000
			}
			return 2000
		},
		Do: func(c *mon.C) {
			for k := 0; k < 100; k++ {
				b := make([]byte, c.Rng.Intn(17))
				c.Rng.Read(b)
				if len(b) >= 2 && c.Rng.Intn(2) == 0 {
					b[1] = b[1]&0x80 | byte(125+c.Rng.Intn(3))
				}
				if len(b) >= 4 && c.Rng.Intn(3) == 0 {
					b[2], b[3] = 0, 0
				}
				decodeBoth(c, b, plans[c.Rng.Intn(len(plans))], "random")
			}
		},
	}
}

// the last five straddle 1 MiB, above which ws.ReadFrame reads the payload incrementally
var frameSizes = []int{0, 1, 2, 124, 125, 126, 127, 128, 65535, 65536, 65537, 70001, 1<<20 - 1, 1 << 20, 1<<20 + 1, 1<<20 + 4097, 3<<20 + 17}

func subFrames() mon.Sub {
	return mon.Sub{
		Name: "whole-frames", Required: true,
		N: func(t string) int {
			if t == "thorough" {
				return len(frameSizes) * len(frameSizes) * 2 * 8
			}
			return len(frameSizes) * len(frameSizes) * 2
		},
		Do: func(c *mon.C) {
			i := c.I
			s1 := frameSizes[i%len(frameSizes)]
			s2 := frameSizes[i/len(frameSizes)%len(frameSizes)]
			masked := i/(len(frameSizes)*len(frameSizes))%2 == 1
			mk := func(n int) (ws.Frame, []byte) {
				p := make([]byte, n)
				c.Rng.Read(p)
				h := ref.Header{Fin: c.Rng.Intn(2) == 0, Rsv: byte(c.Rng.Intn(8)), Op: byte(c.Rng.Intn(16)), Masked: masked, Length: int64(n)}
				if masked {
					c.Rng.Read(h.Mask[:])
				}
				return ws.Frame{Header: wsx.ToWS(h), Payload: p}, append(ref.EncodeHeader(h), p...)
			}
			f1, w1 := mk(s1)
			f2, w2 := mk(s2)
			det := map[string]interface{}{"sizes": []int{s1, s2}, "masked": masked}
			var buf bytes.Buffer
			if err := ws.WriteFrame(&buf, f1); err != nil {
				c.Fail("frames/write/error", err.Error(), det)
				return
			}
			if err := ws.WriteFrame(&buf, f2); err != nil {
				c.Fail("frames/write/error", err.Error(), det)
				return
			}
			want := append(append([]byte(nil), w1...), w2...)
			if !bytes.Equal(buf.Bytes(), want) {
				c.Fail("frames/write/bytes", "WriteFrame output is not header ++ payload", det)
				return
			}
			cb, err := ws.CompileFrame(f1)
			if err != nil || !bytes.Equal(cb, w1) {
				c.Fail("frames/compile/bytes", fmt.Sprintf("CompileFrame output is not header ++ payload (err=%v)", err), det)
				return
			}
			plan := plans[c.Rng.Intn(len(plans))]
			plan.Seed = int64(i)
			ch := xport.NewChunker(append(append([]byte(nil), want...), sentinel...), plan)
			for k, wf := range []ws.Frame{f1, f2} {
				got, err := ws.ReadFrame(ch)
				if err != nil {
					c.Fail("frames/read/error", fmt.Sprintf("ReadFrame #%d failed: %v", k, err), det)
					return
				}
				if got.Header != wf.Header || !bytes.Equal(got.Payload, wf.Payload) {
					c.Fail("frames/read/content", fmt.Sprintf("ReadFrame #%d returned a different frame", k), det)
					return
				}
			}
			if rest, _ := io.ReadAll(ch); !bytes.Equal(rest, sentinel) {
				c.Fail("frames/read/consumed", "ReadFrame consumed more or fewer bytes than header+length", det)
				return
			}
			// "exactly length payload bytes": a stream that ends before the announced payload is complete is not a frame
			if hl := len(w1) - s1; s1 > 0 {
				for _, k := range []int{hl, hl + 1, hl + s1/2, len(w1) - 1} {
					if k >= len(w1) {
						continue
					}
					c.Count(1)
					if got, err := ws.ReadFrame(xport.NewChunker(w1[:k], plan)); err == nil {
						c.Fail("frames/read/truncated-accepted", fmt.Sprintf("ReadFrame returned no error (payload of %d bytes) for a stream holding only %d of the %d announced payload bytes", len(got.Payload), k-hl, s1), det)
						return
					}
				}
			}
			// the Must* wrappers are the same codec
			var mb bytes.Buffer
			ws.MustWriteFrame(&mb, f1)
			if !bytes.Equal(mb.Bytes(), w1) || !bytes.Equal(ws.MustCompileFrame(f2), w2) {
				c.Fail("frames/must/write", "MustWriteFrame / MustCompileFrame differ from WriteFrame / CompileFrame", det)
				return
			}
			if got := ws.MustReadFrame(bytes.NewReader(w2)); got.Header != f2.Header || !bytes.Equal(got.Payload, f2.Payload) {
				c.Fail("frames/must/read", "MustReadFrame differs from ReadFrame", det)
				return
			}
			// ... also where they fail: a truncated stream / a failing destination is reported by the wrapper's panic
			// (that is its documented way), never by a frame or by silence
			if s2 > 0 {
				func() {
					defer func() { recover() }()
					got := ws.MustReadFrame(bytes.NewReader(w2[:len(w2)-1]))
					c.Fail("frames/must/read-truncated", fmt.Sprintf("MustReadFrame returned a frame of %d payload bytes for a stream one byte short of the announced %d", len(got.Payload), s2), det)
				}()
				func() {
					defer func() { recover() }()
					fd := xport.NewRec()
					fd.FailAt = 0
					ws.MustWriteFrame(fd, f2)
					c.Fail("frames/must/write-failed", "MustWriteFrame returned normally although the destination's first write failed", det)
				}()
				fd := xport.NewRec()
				fd.FailAt = 0
				if err := ws.WriteFrame(fd, f2); err == nil {
					c.Fail("frames/write/failure-swallowed", "WriteFrame returned nil although the destination's first write failed", det)
					return
				}
			}
			c.Classf("s1=%d s2=%d m=%v plan=%s", s1, s2, masked, plan.Kind)
			c.Sample(det)
		},
	}
}

// subHugeAnnounced: "whole-frame read is the header codec followed by exactly length payload bytes" - also when the
// header announces far more than any stream will ever hold: ws.ReadFrame / MustReadFrame on a complete minimal header
// followed by a few dozen bytes never report a frame (lengths around every power of two up to 2^63-1, and within
// 1 MiB of the top, where size arithmetic in chunked reads wraps).
func subHugeAnnounced() mon.Sub {
	var lens []int64
	for _, sh := range []uint{31, 32, 40, 47, 53, 62, 63} {
		base := int64(1)<<(sh-1) - 1 + int64(1)<<(sh-1) // 2^sh - 1 without overflowing
		for _, d := range []int64{0, 1, 2, 1 << 10, 1<<19 - 1, 1 << 19, 1<<20 - 2, 1<<20 - 1, 1 << 20, 1<<20 + 1, 1 << 21} {
			if base-d > 1<<30 {
				lens = append(lens, base-d)
			}
		}
	}
	return mon.Sub{
		Name: "huge-announced", Exhaustive: true, Required: true,
		N: func(string) int { return len(lens) * 2 },
		Do: func(c *mon.C) {
			L := lens[c.I%len(lens)]
			h := ref.Header{Fin: true, Op: ref.OpBinary, Masked: c.I/len(lens) == 1, Length: L}
			if h.Masked {
				c.Rng.Read(h.Mask[:])
			}
			for _, avail := range []int{0, 1, 46, 70000} {
				c.Count(1)
				stream := append(ref.EncodeHeader(h), bytes.Repeat([]byte{0x5a}, avail)...)
				ch := xport.NewChunker(stream, plans[c.I%len(plans)])
				f, err := ws.ReadFrame(ch)
				det := map[string]interface{}{"announced_length": L, "masked": h.Masked, "bytes_behind_the_header": avail, "err": fmt.Sprint(err), "payload_returned": len(f.Payload), "consumed": ch.Pos}
				if err == nil {
					c.Fail("frames/read/huge-accepted", fmt.Sprintf("ReadFrame returned no error (a payload of %d bytes) for a frame announcing %d bytes on a stream holding %d", len(f.Payload), L, avail), det)
					return
				}
				panicked := func() (p bool) {
					defer func() { p = recover() != nil }()
					ws.MustReadFrame(bytes.NewReader(stream))
					return false
				}()
				if !panicked {
					c.Fail("frames/must/huge-accepted", fmt.Sprintf("MustReadFrame returned a frame for a header announcing %d bytes on a stream holding %d", L, avail), det)
					return
				}
			}
			c.Classf("len~2^%d masked=%v", 63-leadingZeros(L), h.Masked)
		},
	}
}

func leadingZeros(x int64) int {
	n := 0
	for i := 62; i >= 0 && x>>uint(i)&1 == 0; i-- {
		n++
	}
	return n
}

func main() {
	mon.Main(&mon.Spec{
		Property: "C01",
		Level:    "exploration",
		Rule: "cases: (a) exhaustive grid Fin x Rsv x OpCode x Masked x 4 mask keys x 26 boundary lengths x 4 chunk plans, (b) random headers with log-uniform lengths, " +
			"(c) all 65536 two-byte prefixes x every truncation / minimal / non-minimal / MSB form, (d) random byte strings, (e) pairs of whole frames (back to back, so an over- or under-read corrupts the second) across the 125/126, 65535/65536 and 1 MiB boundaries. " +
			"(f) sequences of 2-5 random headers with payloads decoded by ONE streaming reader (validity checks off), each header compared with ws.ReadHeader over the same bytes - also after a non-final frame, when the reader considers a fragmented message open; (g) source kinds: sequences of 1-4 frames (payload lengths on the header-form thresholds, possibly cut short anywhere) decoded by ws.ReadHeader+payload reads, ws.ReadFrame and the streaming Reader from 10 kinds of io.Reader (plain, *bufio.Reader of 16/19/64/4096 bytes, nested, one that already served handshake bytes, bytes.Reader, bytes.Buffer, Read-only wrapper) under one chunk plan: same headers, payloads, frame count and end error (io.EOF on a frame boundary, io.ErrUnexpectedEOF inside a frame) from each; (h) destination kinds: 1-4 frames written by ws.WriteHeader + payload, ws.WriteFrame and ws.MustWriteFrame to 8 kinds of io.Writer (bytes.Buffer, Write-only, one offering WriteString/WriteByte/ReadFrom, *bufio.Writer of 16/64/4096 bytes, a part-filled one, io.Pipe drained 7 bytes at a time): bytes received == reference encoding, caller's payload untouched. A case is non-trivial when both decoders and the encoder were compared with the independent reference codec; distinct = distinct (flag bits, length form, chunk plan) or (reference classification, length code, mask bit, plan) classes.",
		Assumptions: []string{
			"reference codec harness/ref written from RFC 6455 §5.2 is correct",
			"the streaming decoder is observed through wsutil.Reader{SkipHeaderCheck:true}.NextFrame",
		},
		Subs: []mon.Sub{subEncodeGrid(), subEncodeRandom(), subBytesPrefix(), subBytesRandom(), subFrames(), subStreamSequences(), subSourceKinds(), subDestKinds(), subHugeAnnounced(), subPrecompiled()},
	})
}
