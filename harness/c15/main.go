// C15 — no input from the peer can make the library panic, hang or overrun a size limit.
package main

import (
	"bytes"
	"compress/flate"
	"fmt"
	"math/rand"
	"os"
	"os/exec"
	"runtime"
	"strings"
	"time"

	"github.com/gobwas/ws"
	"github.com/gobwas/ws/wsutil"

	"verifharness/gen"
	"verifharness/mon"
	"verifharness/ref"
	"verifharness/xport"
)

// ------------------------------------------------------------------- seeds

func frameSeeds(rng *rand.Rand) [][]byte {
	var out [][]byte
	for i := 0; i < 12; i++ {
		side := []ref.Side{ref.SideServer, ref.SideClient}[i%2]
		sh := gen.RandomShapes(rng, 8, []int{0, 1, 5, 125, 126, 300})
		st, _, _ := gen.Encode(gen.Build(sh, side, rng, i%3 != 0))
		out = append(out, st)
	}
	mk := func(h ref.Header, p []byte) []byte { return ref.Frame{H: h, Payload: p}.Encode() }
	m := [4]byte{1, 2, 3, 4}
	// text made of multi-byte characters, fragmented so that boundaries fall inside characters, with empty
	// fragments and control frames in between; valid, and invalid because the message ends inside a character
	for i := 0; i < 8; i++ {
		side := []ref.Side{ref.SideServer, ref.SideClient}[i%2]
		n := []int{3, 40, 300, 3300}[i/2]
		sh := []gen.Shape{{Op: ref.OpText, Fin: false, Len: n}, {Op: ref.OpCont, Fin: false, Len: 0}, {Op: ref.OpPing, Fin: true, Len: 5}, {Op: ref.OpCont, Fin: true, Len: 7}, {Op: ref.OpText, Fin: true, Len: 2}}
		frames := gen.BuildUTF8(sh, side, rng)
		st, _, _ := gen.Encode(frames)
		out = append(out, st)
		// the same first fragment cut inside its last character, closed by an EMPTY final fragment
		cut := frames[0]
		for len(cut.Payload) > 1 && cut.Payload[len(cut.Payload)-1]&0xc0 == 0x80 {
			cut.Payload = cut.Payload[:len(cut.Payload)-1] // drop continuation bytes ...
		}
		if len(cut.Payload) > 1 && cut.Payload[len(cut.Payload)-1] >= 0xe0 {
			cut.Payload = append(cut.Payload, 0x80|byte(i)) // ... and leave a lead byte with one continuation byte
		}
		fin := ref.Frame{H: ref.Header{Fin: true, Op: ref.OpCont, Masked: cut.H.Masked, Mask: cut.H.Mask}}
		out = append(out, append(cut.Encode(), append(fin.Encode(), frames[4].Encode()...)...))
	}
	out = append(out,
		mk(ref.Header{Fin: true, Op: ref.OpClose, Masked: true, Mask: m}, []byte{0x03, 0xe8, 'b', 'y', 'e'}),
		mk(ref.Header{Fin: true, Op: ref.OpClose}, []byte{0x03, 0xea}),
		mk(ref.Header{Fin: true, Op: ref.OpPing, Masked: true, Mask: m}, bytes.Repeat([]byte("p"), 125)),
		append(mk(ref.Header{Fin: false, Op: ref.OpText, Rsv: 4, Masked: true, Mask: m}, []byte{0xf2, 0x48, 0xcd}), mk(ref.Header{Fin: true, Op: ref.OpCont, Masked: true, Mask: m}, []byte{0xc9, 0xc9, 0x07, 0x00})...),
		mk(ref.Header{Fin: true, Op: ref.OpText, Rsv: 4}, []byte{0xf2, 0x48, 0xcd, 0xc9, 0xc9, 0x07, 0x00}),
		mk(ref.Header{Fin: true, Op: ref.OpBinary, Masked: true, Mask: m}, bytes.Repeat([]byte{0xab}, 70000)),
	)
	return out
}

func requestSeeds(rng *rand.Rand) [][]byte {
	var out [][]byte
	out = append(out, gen.BuildReq(rng, nil, nil, nil).Bytes())
	out = append(out, gen.BuildReq(rng, map[string]string{"extra": "some"}, []string{"chat, json"}, []string{"permessage-deflate; client_max_window_bits; server_max_window_bits=10", "foo; a=1; b=\"q q\""}).Bytes())
	out = append(out, gen.BuildReq(rng, map[string]string{"eol": "lf", "connection": "list-middle"}, []string{"a", "b,c"}, []string{"permessage-deflate"}).Bytes())
	out = append(out, gen.BuildReq(rng, map[string]string{"extra": "long-value", "upgrade": "case-value"}, nil, nil).Bytes())
	// LONG lists: more elements than any fixed-size bookkeeping a parser might keep (9..300 subprotocols,
	// extension offers, Connection tokens; on one line and spread over lines)
	for _, n := range []int{9, 10, 11, 17, 33, 65, 129, 300} {
		var ps, es, cs []string
		for i := 0; i < n; i++ {
			ps = append(ps, fmt.Sprintf("proto%d.x", i*2+1)) // (odd length: refused by the length-parity selector)
			es = append(es, fmt.Sprintf("ext%d; k%d=%d", i, i, i))
			cs = append(cs, fmt.Sprintf("tok%d", i))
		}
		r := gen.BuildReq(rng, nil, []string{strings.Join(ps, ", ")}, []string{strings.Join(es, ", ")})
		out = append(out, r.Bytes())
		out = append(out, bytes.Replace(r.Bytes(), []byte("Connection: Upgrade"), []byte("Connection: "+strings.Join(cs, ",")+", Upgrade"), 1))
		out = append(out, gen.BuildReq(rng, nil, ps, es).Bytes()) // one header line per element
	}
	// every single-factor derivation the handshake generator knows (valid and invalid forms of each header)
	for _, f := range gen.ReqFactors {
		for _, v := range gen.ReqVariants[f][1:] {
			out = append(out, gen.BuildReq(rng, map[string]string{f: v}, []string{"chat"}, []string{"permessage-deflate; client_max_window_bits"}).Bytes())
		}
	}
	return out
}

func responseSeeds() [][]byte {
	out := responseSeedsFixed()
	for _, n := range []int{9, 10, 17, 65, 300} {
		var es []string
		for i := 0; i < n; i++ {
			es = append(es, fmt.Sprintf("ext%d; k%d=%d", i, i, i))
		}
		out = append(out, []byte("HTTP/1.1 101 Switching Protocols\r\nUpgrade: websocket\r\nConnection: Upgrade\r\nSec-WebSocket-Extensions: "+strings.Join(es, ", ")+"\r\nSec-WebSocket-Accept: s3pPLMBiTxaQ9kYGzzhZRbK+xOo=\r\n\r\n"))
	}
	rng := rand.New(rand.NewSource(777))
	for _, f := range gen.RespFactors {
		for _, v := range gen.RespVariants[f][1:] {
			r := gen.BuildResp(rng, map[string]string{f: v}, gen.ReqInfo{Key: "dGhlIHNhbXBsZSBub25jZQ==", Protocols: []string{"chat", "json"}})
			out = append(out, append(r.Head(), 0x81, 0x02, 'h', 'i'))
		}
	}
	return out
}

func responseSeedsFixed() [][]byte {
	return [][]byte{
		[]byte("HTTP/1.1 101 Switching Protocols\r\nUpgrade: websocket\r\nConnection: Upgrade\r\nSec-WebSocket-Extensions: permessage-deflate; client_max_window_bits=10, foo; a=1\r\nSec-WebSocket-Protocol: chat\r\nX-Other: 1\r\nSec-WebSocket-Accept: s3pPLMBiTxaQ9kYGzzhZRbK+xOo=\r\n\r\n\x81\x02hi"),
		[]byte("HTTP/1.1 101 OK\nUpgrade: WebSocket\nConnection: upgrade\nSec-WebSocket-Protocol: json\nSec-WebSocket-Accept: s3pPLMBiTxaQ9kYGzzhZRbK+xOo=\n\n"),
		[]byte("HTTP/1.1 400 Bad Request\r\nContent-Type: text/plain\r\nContent-Length: 5\r\n\r\nnope!"),
		[]byte("HTTP/1.1 301 Moved\r\nLocation: http://elsewhere/\r\nTransfer-Encoding: chunked\r\n\r\n5\r\nhello\r\n0\r\n\r\n"),
		// announced body lengths on the edges of int32/int64 with a short real body (the HTTP counterpart of the extreme frame lengths)
		[]byte("HTTP/1.1 400 Bad Request\r\nContent-Length: 9223372036854775807\r\n\r\noops"),
		[]byte("HTTP/1.1 403 Forbidden\r\nContent-Length: 2147483648\r\n\r\noops"),
		[]byte("HTTP/1.1 200 OK\r\nContent-Length: 4294967296\r\nConnection: close\r\n\r\n"),
		[]byte("HTTP/1.1 500 Oops\r\nContent-Length: 9223372036854775806\r\n\r\n" + strings.Repeat("x", 200)),
	}
}

func optionSeeds() [][]byte {
	return [][]byte{
		[]byte("permessage-deflate; client_max_window_bits=10; server_no_context_takeover, foo; a=\"b c\""),
		[]byte("permessage-deflate; server_max_window_bits=15; client_no_context_takeover; client_max_window_bits"),
		[]byte("permessage-deflate, permessage-deflate; client_max_window_bits=8"),
	}
}

func deflateSeeds() [][]byte {
	var out [][]byte
	for _, s := range []string{"", "hello", strings.Repeat("hello world ", 400)} {
		for _, lvl := range []int{0, 6, -2} {
			var b bytes.Buffer
			w, _ := flate.NewWriter(&b, lvl)
			w.Write([]byte(s))
			w.Flush()
			p := b.Bytes()
			if len(p) >= 4 {
				p = p[:len(p)-4]
			}
			out = append(out, append([]byte(nil), p...))
		}
	}
	return out
}

var seeds map[string][][]byte

func init() {
	rng := rand.New(rand.NewSource(12345))
	seeds = map[string][][]byte{
		"frames":   frameSeeds(rng),
		"request":  requestSeeds(rng),
		"response": responseSeeds(),
		"options":  optionSeeds(),
		"deflate":  deflateSeeds(),
		"close":    {{0x03, 0xe8}, {0x03, 0xe8, 'o', 'k'}, {}, {0x03}, {0x0b, 0xb8, 0xff, 0xfe}},
	}
}

// ----------------------------------------------------------------- mutator

var tokens = [][]byte{[]byte("\r\n"), []byte("\n"), []byte("\r"), []byte("=="), []byte("Sec-WebSocket-Key: "), []byte("dGhlIHNhbXBsZSBub25jZQ=="), []byte(":"), []byte(","), []byte(";"), []byte("="), []byte("\""), {0}, {0xff}, []byte("permessage-deflate"), []byte("client_max_window_bits"), []byte(" "), []byte("\t"),
	[]byte("HTTP/1.1"), []byte("101"), []byte("Content-Length: 9223372036854775807\r\n"), []byte("Content-Length: 18446744073709551621\r\n"), []byte("Transfer-Encoding: chunked\r\n"), []byte("400"), []byte("Sec-WebSocket-Extensions: "), []byte("Sec-WebSocket-Protocol: "), []byte("\r\n\r\n"), {0x81, 0x7e}, {0x88, 0x7f}, {0x80, 0x00}}

// decimal numbers that sit on the edges of the integer types a parser may convert them into
var extremeNumbers = []string{"0", "1", "7", "16", "100", "101", "255", "256", "65535", "65536", "2147483647", "2147483648", "4294967295", "4294967296",
	"9223372036854775807", "9223372036854775806", "9223372036854775707", "9223372036854775808", "18446744073709551615", "18446744073709551616", "18446744073709551624", "18446744073709551717",
	"99999999999999999999", "-1", "+1", "00000000000000000000001", "0x10", "1e3"}

var extremeLens = []uint64{1<<31 - 1, 1 << 31, 1 << 32, 1 << 40, 1 << 47, 1 << 48, 1 << 62, 1<<63 - 1, 1 << 63, 1<<64 - 1, 65536, 126}

func mutate(rng *rand.Rand, kind string, data []byte) []byte {
	d := append([]byte(nil), data...)
	n := 1 + rng.Intn(4)
	for i := 0; i < n; i++ {
		if len(d) == 0 {
			d = append(d, byte(rng.Intn(256)))
			continue
		}
		switch rng.Intn(10) {
		case 9: // rewrite a run of ASCII digits (status, version, Content-Length, window bits, ...) into an extreme number
			var runs [][2]int
			for a := 0; a < len(d); a++ {
				if d[a] >= '0' && d[a] <= '9' {
					b := a
					for b < len(d) && d[b] >= '0' && d[b] <= '9' {
						b++
					}
					runs = append(runs, [2]int{a, b})
					a = b
				}
			}
			if len(runs) > 0 && kind != "frames" && kind != "deflate" {
				r := runs[rng.Intn(len(runs))]
				num := extremeNumbers[rng.Intn(len(extremeNumbers))]
				d = append(d[:r[0]:r[0]], append([]byte(num), d[r[1]:]...)...)
			}
		case 0: // bit flip
			k := rng.Intn(len(d))
			d[k] ^= 1 << uint(rng.Intn(8))
		case 1: // byte replace
			d[rng.Intn(len(d))] = byte(rng.Intn(256))
		case 2: // truncate
			d = d[:rng.Intn(len(d)+1)]
		case 3: // duplicate a slice
			a := rng.Intn(len(d))
			b := a + rng.Intn(len(d)-a+1)
			at := rng.Intn(len(d) + 1)
			d = append(d[:at:at], append(append([]byte(nil), d[a:b]...), d[at:]...)...)
		case 4: // insert a token
			t := tokens[rng.Intn(len(tokens))]
			at := rng.Intn(len(d) + 1)
			d = append(d[:at:at], append(append([]byte(nil), t...), d[at:]...)...)
		case 5: // delete a slice
			a := rng.Intn(len(d))
			b := a + rng.Intn(minInt(len(d)-a, 16)+1)
			d = append(d[:a:a], d[b:]...)
		case 6: // frame length-field rewrite
			if kind == "frames" && len(d) >= 2 {
				k := 0
				if rng.Intn(2) == 0 { // try to hit a later frame start
					frames, consumed, _ := ref.ParseFrames(d)
					if len(frames) > 0 && consumed < len(d)-2 {
						k = consumed
					}
				}
				l := extremeLens[rng.Intn(len(extremeLens))]
				ext := make([]byte, 8)
				for j := 0; j < 8; j++ {
					ext[j] = byte(l >> uint(56-8*j))
				}
				if l <= 65536 && rng.Intn(2) == 0 {
					d[k+1] = d[k+1]&0x80 | 126
					d = append(d[:k+2:k+2], append([]byte{byte(l >> 8), byte(l)}, d[k+2:]...)...)
				} else {
					d[k+1] = d[k+1]&0x80 | 127
					d = append(d[:k+2:k+2], append(ext, d[k+2:]...)...)
				}
			}
		case 7: // swap two bytes
			a, b := rng.Intn(len(d)), rng.Intn(len(d))
			d[a], d[b] = d[b], d[a]
		case 8: // overwrite a run
			a := rng.Intn(len(d))
			for j := a; j < len(d) && j < a+rng.Intn(8); j++ {
				d[j] = byte(rng.Intn(256))
			}
		}
	}
	return d
}

// runTarget executes one input on one target and applies the spin monitor.
func runTarget(c *mon.C, t target, data []byte, plan xport.Plan) bool {
	if t.allocByDesign && hugeAnnounced(data, 64<<20) {
		c.Run.AddExtra("skipped_huge_for_alloc_by_design_targets", 1)
		return true
	}
	c.Count(1)
	ch := t.run(data, plan)
	if ch != nil && (ch.ReadsAfterEnd > 1000 || ch.Reads > 20*len(data)+20000) {
		c.Fail("spin/"+t.name, fmt.Sprintf("%s keeps reading without progress: %d reads (%d after the source reported its end) for %d input bytes", t.name, ch.Reads, ch.ReadsAfterEnd, len(data)),
			map[string]interface{}{"target": t.name, "input_hex": fmt.Sprintf("%x", head(data, 4096)), "plan": plan.String()})
		return false
	}
	return true
}

func head(b []byte, n int) []byte {
	if len(b) > n {
		return b[:n]
	}
	return b
}

func subMutate() mon.Sub {
	return mon.Sub{
		Name: "mutate", Required: true,
		N: func(t string) int {
			if t == "thorough" {
				return 400000
			}
			return 20000
		},
		Do: func(c *mon.C) {
			t := targets[c.I%len(targets)]
			ss := seeds[t.kind]
			data := ss[c.Rng.Intn(len(ss))]
			plans := xport.Plans(c.Rng.Int63(), nil)
			for k := 0; k < 16; k++ {
				d := data
				if k > 0 {
					d = mutate(c.Rng, t.kind, data)
					if c.Rng.Intn(4) == 0 {
						d = mutate(c.Rng, t.kind, d)
					}
				}
				plan := plans[c.Rng.Intn(len(plans))]
				if len(d) > 20000 && plan.Kind == "one" {
					plan = xport.Plan{Kind: "fixed", K: 977}
				}
				// write the input where a post-mortem can find it (fatal errors bypass recover)
				if !runTarget(c, t, d, plan) {
					return
				}
			}
			c.Classf("%s", t.name)
			c.Classf("%s/%d", t.name, c.I/len(targets)%50)
			if c.WantSample() {
				c.Sample(map[string]interface{}{"target": t.name, "seed_kind": t.kind, "seed_len": len(data), "mutants": 15})
			}
		},
	}
}

func subRandomBytes() mon.Sub {
	return mon.Sub{
		Name: "random-bytes", Required: true,
		N: func(t string) int {
			if t == "thorough" {
				return 100000
			}
			return 6000
		},
		Do: func(c *mon.C) {
			t := targets[c.I%len(targets)]
			plans := xport.Plans(c.Rng.Int63(), nil)
			for k := 0; k < 16; k++ {
				d := make([]byte, c.Rng.Intn(64))
				c.Rng.Read(d)
				if t.kind == "frames" && len(d) >= 2 && c.Rng.Intn(2) == 0 {
					d[0] = []byte{0x81, 0x82, 0x01, 0x00, 0x80, 0x88, 0x89, 0x8a, 0xc1}[c.Rng.Intn(9)]
					d[1] = d[1]&0x80 | byte(c.Rng.Intn(128))
				}
				if !runTarget(c, t, d, plans[c.Rng.Intn(len(plans))]) {
					return
				}
			}
			c.Classf("%s", t.name)
		},
	}
}

// ------------------------------------------------- extreme announced lengths

var extremes = []uint64{1<<31 - 1, 1 << 31, 1 << 32, 1 << 40, 1 << 47, 1 << 48, 1 << 62, 1<<63 - 1}

func frameTargets() []target {
	var out []target
	for _, t := range targets {
		if t.kind == "frames" {
			out = append(out, t)
		}
	}
	return out
}

func extremeInput(i int) (t target, data []byte, desc string) {
	ft := frameTargets()
	t = ft[i%len(ft)]
	l := extremes[i/len(ft)%len(extremes)]
	variant := i / len(ft) / len(extremes) // 0 server-bound masked text, 1 client-bound unmasked binary, 2 fragmented then huge continuation, 3 huge ping
	h := ref.Header{Fin: true, Op: ref.OpText, Masked: true, Mask: [4]byte{9, 9, 9, 9}, Length: int64(l)}
	var prefix []byte
	switch variant {
	case 1:
		h = ref.Header{Fin: true, Op: ref.OpBinary, Length: int64(l)}
	case 2:
		prefix = ref.Frame{H: ref.Header{Fin: false, Op: ref.OpText, Masked: true, Mask: [4]byte{1, 1, 1, 1}}, Payload: []byte("ab")}.Encode()
		h = ref.Header{Fin: true, Op: ref.OpCont, Masked: true, Mask: [4]byte{9, 9, 9, 9}, Length: int64(l)}
	case 3:
		h = ref.Header{Fin: true, Op: ref.OpPing, Masked: true, Mask: [4]byte{9, 9, 9, 9}, Length: int64(l)}
	}
	data = append(append(prefix, ref.EncodeHeader(h)...), []byte("0123456789abcdef")...)
	return t, data, fmt.Sprintf("%s announced=%d variant=%d", t.name, l, variant)
}

func nExtreme() int { return len(frameTargets()) * len(extremes) * 4 }

// extreme-inner runs in a grandchild process: a fatal runtime error there must
// not take the monitor down.
func subExtremeInner() mon.Sub {
	return mon.Sub{
		Name: "extreme-inner",
		N:    func(string) int { return 0 }, // only ever run through -only
		Do: func(c *mon.C) {
			t, data, _ := extremeInput(c.I)
			ch := t.run(data, xport.Plan{Kind: "whole"})
			if ch != nil && ch.ReadsAfterEnd > 1000 {
				c.Fail("spin", "spins", nil)
			}
		},
	}
}

func subExtreme() mon.Sub {
	return mon.Sub{
		Name: "extreme-lengths", Exhaustive: true, Required: true,
		N: func(string) int { return nExtreme() },
		Do: func(c *mon.C) {
			t, data, desc := extremeInput(c.I)
			exe, _ := os.Executable()
			cmd := exec.Command(exe, "-child", "-tier", c.Tier, "-seed", "1", "-only", fmt.Sprintf("extreme-inner:%d", c.I))
			var out bytes.Buffer
			cmd.Stdout, cmd.Stderr = &out, &out
			cmd.Env = append(os.Environ(), "VERIF_MEM_LIMIT_MB=3000")
			cmd.Start()
			done := make(chan error, 1)
			go func() { done <- cmd.Wait() }()
			var err error
			hung := false
			select {
			case err = <-done:
			case <-time.After(90 * time.Second):
				hung = true
				cmd.Process.Kill()
				<-done
			}
			code := 0
			if ee, ok := err.(*exec.ExitError); ok {
				code = ee.ExitCode()
			}
			det := map[string]interface{}{"case": desc, "input_hex": fmt.Sprintf("%x", data), "exit_code": code, "hung": hung}
			lines := strings.Split(out.String(), "\n")
			first := ""
			for _, l := range lines {
				if strings.HasPrefix(l, "fatal error:") || strings.HasPrefix(l, "panic:") || strings.Contains(l, "panic in") || strings.Contains(l, "out of memory") || strings.Contains(l, "memory watchdog") {
					first = l
					break
				}
			}
			det["first_line"] = first
			if len(lines) > 40 {
				lines = lines[:40]
			}
			det["output"] = lines
			l := extremes[c.I/len(frameTargets())%len(extremes)]
			cls := "lt2^47"
			if l >= 1<<47 {
				cls = "ge2^47"
			}
			switch {
			case hung:
				c.Fail("extreme/"+t.name+"/hang/"+cls, "no return within 90 s for "+desc, det)
			case code == 1:
				c.Fail("extreme/"+t.name+"/panic/"+cls, "panic for "+desc+": "+first, det)
			case code != 0:
				c.Fail("extreme/"+t.name+"/fatal/"+cls, "process-fatal error for "+desc+": "+first, det)
			default:
				c.Classf("%s", desc)
				c.Sample(det)
			}
		},
	}
}

// header decoding must not allocate in proportion to the announced length, and
// MaxFrameSize must refuse before any payload byte is read.
func subAllocAndLimit() mon.Sub {
	return mon.Sub{
		Name: "header-alloc-and-limit", Exhaustive: true, Required: true, Serial: true,
		N: func(string) int { return len(extremes) * 2 },
		Do: func(c *mon.C) {
			l := extremes[c.I%len(extremes)]
			masked := c.I/len(extremes) == 1
			h := ref.Header{Fin: true, Op: ref.OpBinary, Masked: masked, Mask: [4]byte{7, 7, 7, 7}, Length: int64(l)}
			hb := ref.EncodeHeader(h)
			data := append(append([]byte(nil), hb...), bytes.Repeat([]byte{0x55}, 64)...)
			det := map[string]interface{}{"announced": l, "masked": masked}
			meter := func(name string, f func()) bool {
				f() // warm up (pools, lazy init)
				var m0, m1 runtime.MemStats
				runtime.GC()
				runtime.ReadMemStats(&m0)
				for i := 0; i < 10; i++ {
					f()
				}
				runtime.ReadMemStats(&m1)
				per := (m1.TotalAlloc - m0.TotalAlloc) / 10
				det[name+"_bytes_per_call"] = per
				if per > 4096 {
					c.Fail("alloc/"+name, fmt.Sprintf("%s allocates %d bytes per call for an announced length of %d", name, per, l), det)
					return false
				}
				return true
			}
			c.Count(2)
			if !meter("ReadHeader", func() { ws.ReadHeader(bytes.NewReader(data)) }) {
				return
			}
			if !meter("Reader.NextFrame", func() { (&wsutil.Reader{Source: bytes.NewReader(data), SkipHeaderCheck: true}).NextFrame() }) {
				return
			}
			for _, lim := range []int64{1, 1 << 20, int64(l) - 1} {
				// shapes: the oversized frame alone; as a continuation after a fragment; and as a control frame
				// between fragments (header checks off, as an application that validates headers itself would run)
				for shape := 0; shape < 3; shape++ {
					c.Count(1)
					st := ws.StateClientSide
					if masked {
						st = ws.StateServerSide
					}
					var prefix []byte
					hh := h
					skip := false
					if shape > 0 {
						prefix = ref.Frame{H: ref.Header{Fin: false, Op: ref.OpText, Masked: masked, Mask: [4]byte{3, 3, 3, 3}}, Payload: nil}.Encode()
						hh.Op = ref.OpCont
						if shape == 2 {
							hh.Op, skip = ref.OpPing, true
						}
					}
					hb2 := ref.EncodeHeader(hh)
					stream := append(append(append([]byte(nil), prefix...), hb2...), bytes.Repeat([]byte{0x55}, 64)...)
					ch := xport.NewChunker(stream, xport.Plan{Kind: "whole"})
					rd := &wsutil.Reader{Source: ch, State: st, MaxFrameSize: lim, SkipHeaderCheck: skip}
					var err error
					if shape > 0 {
						if _, err = rd.NextFrame(); err != nil {
							c.Fail("limit/harness", "empty first fragment refused: "+err.Error(), det)
							return
						}
					}
					_, err = rd.NextFrame()
					det["limit"], det["shape"] = lim, []string{"single frame", "continuation", "control frame between fragments"}[shape]
					if err != wsutil.ErrFrameTooLarge {
						c.Fail(fmt.Sprintf("limit/not-refused/shape%d", shape), fmt.Sprintf("frame announcing %d bytes with MaxFrameSize=%d returned %v", l, lim, err), det)
						return
					}
					if ch.Pos != len(prefix)+len(hb2) {
						c.Fail(fmt.Sprintf("limit/payload-read/shape%d", shape), fmt.Sprintf("%d bytes consumed, headers end at %d: payload read before the limit refused the frame", ch.Pos, len(prefix)+len(hb2)), det)
						return
					}
				}
			}
			c.Classf("l=%d m=%v", l, masked)
			c.Sample(det)
		},
	}
}

func main() {
	mon.Main(&mon.Spec{
		Property: "C15",
		Level:    "exploration",
		Rule: fmt.Sprintf("crash/hang/over-read oracle (recover() per case, supervisor surviving fatal errors, read counters on the transport) over %d decoding entry points (ReadHeader, ReadFrame, wsutil.Reader in 4 configurations, NextReader, ReadMessage, ReadData/ReadText, ControlHandler, DecompressFrame, ParseCloseFrameData+HandleControlMessage, Upgrader with Protocol/Negotiate=wsflate and with Extension, HTTPUpgrader via http.ReadRequest + hijacker stub, DebugUpgrader, Dialer with protocols/extensions offered, DebugDialer, wsflate.Parameters/Extension.Negotiate, wsflate.Reader): ", len(targets)) +
			"(a) a deterministic structure-aware mutator (bit flips, byte/run overwrite, truncation, slice duplication/deletion, token injection, rewriting of decimal digit runs into numbers on the edges of the integer types, frame length-field rewrites to 126/65536/2^31..2^64-1) over valid seeds of each kind (frame streams, requests, responses, option lists, deflate streams, close payloads) under random chunk plans, 16 inputs per case; (b) short random byte strings; (c) headers announcing 2^31-1..2^63-1 bytes at every frame entry point in 4 stream shapes, each in its own process; (d) allocation metering of ReadHeader / Reader.NextFrame (<= 4 KiB per call for any announced length) and MaxFrameSize refusal without reading payload. thorough additionally runs Go's coverage-guided fuzzer on every target (see coverage.fuzz). distinct = (target, seed bucket) classes.",
		Assumptions: []string{"entry points documented to allocate the announced length (ReadFrame, ReadMessage, DecompressFrame on ReadFrame output) receive lengths above 64 MiB only in the isolated extreme-length processes", "ControlHandler is given checked headers only, as its documentation requires", "a hang is decided by read counters on the transport; the supervisor's wall-clock watchdog only triggers isolation"},
		HangSeconds: 40,
		Subs:        []mon.Sub{subMutate(), subRandomBytes(), subExtreme(), subAllocAndLimit(), subExtremeInner(), subDepth()},
	})
}
