package main

import (
	"bufio"
	"bytes"
	"compress/flate"
	"context"
	"errors"
	"io"
	"net"
	"net/http"
	"net/url"
	"time"

	"github.com/gobwas/httphead"
	"github.com/gobwas/ws"
	"github.com/gobwas/ws/wsflate"
	"github.com/gobwas/ws/wsutil"

	"verifharness/drive"
	"verifharness/fakeconn"
	"verifharness/ref"
	"verifharness/wsx"
	"verifharness/xport"
)

// A target feeds arbitrary bytes to one decoding entry point. It returns the
// transport so that the caller can look at read counters. Targets must not
// treat errors as failures: only panics, hangs and over-reads matter here.
type target struct {
	name string
	kind string // frames | request | response | options | deflate | close
	// allocByDesign: the entry point is documented to allocate the announced
	// length; inputs announcing more than 64 MiB are run only in isolation.
	allocByDesign bool
	run           func(data []byte, plan xport.Plan) *xport.Chunker
}

var errSink = errors.New("sink closed")

type discard struct{ n int }

func (d *discard) Write(p []byte) (int, error) { d.n += len(p); return len(p), nil }

func readerTarget(name string, o drive.Opts) target {
	return target{name: name, kind: "frames", run: func(data []byte, plan xport.Plan) *xport.Chunker {
		ch := xport.NewChunker(data, plan)
		o := o
		o.MaxEvents = 10000
		drive.Run(ch, o)
		return ch
	}}
}

type hijackRW struct {
	hdr  http.Header
	conn net.Conn
	buf  *bufio.ReadWriter
}

func (h *hijackRW) Header() http.Header         { return h.hdr }
func (h *hijackRW) Write(p []byte) (int, error) { return len(p), nil }
func (h *hijackRW) WriteHeader(int)             {}
func (h *hijackRW) Hijack() (net.Conn, *bufio.ReadWriter, error) {
	return h.conn, h.buf, nil
}

func wsflateNegotiator() func(httphead.Option) (httphead.Option, error) {
	e := &wsflate.Extension{Parameters: wsflate.DefaultParameters}
	return e.Negotiate
}

var targets = []target{
	{name: "ReadHeader", kind: "frames", run: func(data []byte, plan xport.Plan) *xport.Chunker {
		ch := xport.NewChunker(data, plan)
		for i := 0; i < 1000; i++ {
			if _, err := ws.ReadHeader(ch); err != nil {
				break
			}
		}
		return ch
	}},
	{name: "ReadFrame", kind: "frames", run: func(data []byte, plan xport.Plan) *xport.Chunker {
		ch := xport.NewChunker(data, plan)
		for i := 0; i < 1000; i++ {
			if _, err := ws.ReadFrame(ch); err != nil {
				break
			}
		}
		return ch
	}},
	readerTarget("Reader/server", drive.Opts{Entry: "reader", Side: ref.SideServer, CheckUTF8: true}),
	readerTarget("Reader/client-extended", drive.Opts{Entry: "reader", Side: ref.SideClient, Extended: true, CheckUTF8: true, Extensions: []wsutil.RecvExtension{&wsflate.MessageState{}}}),
	readerTarget("Reader/skipcheck-discard", drive.Opts{Entry: "reader", SkipCheck: true, Discard: map[int]int{0: 1, 2: 0, 3: 5}}),
	readerTarget("Reader/maxframe", drive.Opts{Entry: "reader", Side: ref.SideServer, MaxFrameSize: 1024}),
	readerTarget("NextReader", drive.Opts{Entry: "nextreader", Side: ref.SideClient}),
	readerTarget("ReadMessage", drive.Opts{Entry: "readmessage", Side: ref.SideServer}),
	readerTarget("ReadData/server", drive.Opts{Entry: "readdata", Side: ref.SideServer}),
	readerTarget("ReadData/client", drive.Opts{Entry: "readdata", Side: ref.SideClient}),
	readerTarget("ReadText/server", drive.Opts{Entry: "readtext", Side: ref.SideServer}),
	{name: "ControlHandler", kind: "frames", run: func(data []byte, plan xport.Plan) *xport.Chunker {
		ch := xport.NewChunker(data, plan)
		for _, st := range []ws.State{ws.StateServerSide, ws.StateClientSide} {
			for i := 0; i < 200; i++ {
				h, err := ws.ReadHeader(ch)
				if err != nil {
					break
				}
				// documented contract: the header was checked by the caller
				if ws.CheckHeader(h, st) != nil || !h.OpCode.IsControl() {
					io.CopyN(io.Discard, ch, min64(h.Length, 1<<20))
					continue
				}
				lim := io.LimitReader(ch, h.Length)
				wsutil.ControlHandler{Src: lim, Dst: &discard{}, State: st}.Handle(h)
				io.Copy(io.Discard, lim)
			}
		}
		return ch
	}},
	{name: "DecompressFrame", kind: "frames", run: func(data []byte, plan xport.Plan) *xport.Chunker {
		ch := xport.NewChunker(data, plan)
		for i := 0; i < 200; i++ {
			f, err := ws.ReadFrame(ch)
			if err != nil {
				break
			}
			if f.Header.Masked {
				f = ws.UnmaskFrameInPlace(f)
			}
			wsflate.DecompressFrame(f)
		}
		return ch
	}},
	{name: "ParseCloseFrameData", kind: "close", run: func(data []byte, plan xport.Plan) *xport.Chunker {
		code, reason := ws.ParseCloseFrameData(data)
		ws.CheckCloseFrameData(code, reason)
		code, reason = ws.ParseCloseFrameDataUnsafe(data)
		ws.CheckCloseFrameData(code, reason)
		if len(data) <= 125 {
			wsutil.HandleControlMessage(&discard{}, ws.StateServerSide, wsutil.Message{OpCode: ws.OpClose, Payload: data})
			wsutil.HandleControlMessage(&discard{}, ws.StateClientSide, wsutil.Message{OpCode: ws.OpClose, Payload: append([]byte(nil), data...)})
		}
		return nil
	}},
	{name: "Upgrader", kind: "request", run: func(data []byte, plan xport.Plan) *xport.Chunker {
		ch := xport.NewChunker(data, plan)
		sel := ws.SelectFromSlice([]string{"chat", "json"})
		u := ws.Upgrader{Protocol: func(b []byte) bool { return sel(string(b)) }, Negotiate: wsflateNegotiator(), ReadBufferSize: 64, OnHeader: func(k, v []byte) error { return nil }}
		u.Upgrade(xport.RW{Reader: ch, Writer: &discard{}})
		return ch
	}},
	{name: "Upgrader/extension", kind: "request", run: func(data []byte, plan xport.Plan) *xport.Chunker {
		ch := xport.NewChunker(data, plan)
		u := ws.Upgrader{Protocol: func(b []byte) bool { return len(b)%2 == 0 }, Extension: func(o httphead.Option) bool { return o.Size()%2 == 0 }}
		u.Upgrade(xport.RW{Reader: ch, Writer: &discard{}})
		return ch
	}},
	{name: "HTTPUpgrader", kind: "request", run: func(data []byte, plan xport.Plan) *xport.Chunker {
		ch := xport.NewChunker(data, plan)
		req, err := http.ReadRequest(bufio.NewReader(ch))
		if err != nil {
			return ch
		}
		a, b := fakeconn.BufPipe()
		defer a.Close()
		defer b.Close()
		w := &hijackRW{hdr: http.Header{}, conn: a, buf: bufio.NewReadWriter(bufio.NewReader(a), bufio.NewWriter(a))}
		u := ws.HTTPUpgrader{Protocol: ws.SelectFromSlice([]string{"chat", "json"}), Negotiate: wsflateNegotiator()}
		u.Upgrade(req, w)
		u2 := ws.HTTPUpgrader{Protocol: func(string) bool { return false }, Extension: func(httphead.Option) bool { return true }}
		u2.Upgrade(req, w)
		return ch
	}},
	{name: "DebugUpgrader", kind: "request", run: func(data []byte, plan xport.Plan) *xport.Chunker {
		ch := xport.NewChunker(data, plan)
		d := wsutil.DebugUpgrader{Upgrader: ws.Upgrader{Negotiate: wsflateNegotiator()}, OnRequest: func([]byte) {}, OnResponse: func([]byte) {}}
		d.Upgrade(xport.RW{Reader: ch, Writer: &discard{}})
		return ch
	}},
	{name: "Dialer", kind: "response", run: func(data []byte, plan xport.Plan) *xport.Chunker {
		ch := xport.NewChunker(data, plan)
		opts, _ := httphead.ParseOptions([]byte("permessage-deflate; client_max_window_bits, foo; a=1"), nil)
		d := ws.Dialer{Protocols: []string{"chat", "json"}, Extensions: opts, ReadBufferSize: 64, OnHeader: func(k, v []byte) error { return nil },
			OnStatusError: func(status int, reason []byte, resp io.Reader) { io.Copy(io.Discard, io.LimitReader(resp, 1<<20)) }}
		u, _ := url.ParseRequestURI("ws://fuzz.example/x")
		br, _, _ := d.Upgrade(xport.RW{Reader: ch, Writer: &discard{}}, u)
		if br != nil {
			ws.PutReader(br)
		}
		return ch
	}},
	{name: "DebugDialer", kind: "response", run: func(data []byte, plan xport.Plan) *xport.Chunker {
		conn := &fakeconn.Script{Plan: plan, Respond: func([]byte) []byte { return data }}
		dd := wsutil.DebugDialer{Dialer: ws.Dialer{Protocols: []string{"chat"}, ReadBufferSize: 32, NetDial: func(ctx context.Context, n, a string) (net.Conn, error) { return conn, nil }},
			OnRequest: func([]byte) {}, OnResponse: func([]byte) {}}
		ctx, cancel := context.WithTimeout(context.Background(), 30*time.Second)
		defer cancel()
		_, br, _, _ := dd.Dial(ctx, "ws://fuzz.example/y")
		if br != nil {
			io.Copy(io.Discard, io.LimitReader(br, 1<<20))
		}
		return nil
	}},
	{name: "wsflate.Parameters", kind: "options", run: func(data []byte, plan xport.Plan) *xport.Chunker {
		opts, _ := httphead.ParseOptions(data, nil)
		for _, o := range opts {
			var p wsflate.Parameters
			if p.Parse(o) == nil {
				func() {
					defer func() { recover() }() // Option() documents a panic for out-of-range bits; Parse never yields those
					p.Option()
				}()
			}
			e := wsflate.Extension{Parameters: wsflate.Parameters{ServerMaxWindowBits: 12, ClientMaxWindowBits: 10, ServerNoContextTakeover: true}}
			e.Negotiate(o)
			e.Negotiate(o)
			e.Reset()
		}
		return nil
	}},
	{name: "wsflate.Reader", kind: "deflate", run: func(data []byte, plan xport.Plan) *xport.Chunker {
		ch := xport.NewChunker(data, plan)
		r := wsflate.NewReader(ch, func(r io.Reader) wsflate.Decompressor { return flate.NewReader(r) })
		io.Copy(io.Discard, io.LimitReader(r, 8<<20))
		r.Close()
		r.Reset(xport.ByteChunker{Chunker: xport.NewChunker(data, plan)})
		io.Copy(io.Discard, io.LimitReader(r, 8<<20))
		wsflate.DefaultHelper.DecompressTo(&discard{}, data[:minInt(len(data), 4096)])
		return ch
	}},
}

func min64(a, b int64) int64 {
	if a < b {
		return a
	}
	return b
}

func minInt(a, b int) int {
	if a < b {
		return a
	}
	return b
}

// hugeAnnounced reports whether a frame stream announces, in any of its first
// frames, a payload larger than limit (walks headers with the reference decoder).
func hugeAnnounced(data []byte, limit int64) bool {
	off := 0
	for off < len(data) {
		h, n, st := ref.DecodeHeader(data[off:])
		if st == ref.DecIncomplete || st == ref.DecMSB {
			return false
		}
		if h.Length > limit {
			return true
		}
		if int64(len(data)-off-n) < h.Length {
			return false
		}
		off += n + int(h.Length)
	}
	return false
}

var _ = bytes.Equal
var _ = wsx.State
