package main

import (
	"bytes"
	"fmt"
	"io"
	"net/url"
	"runtime"
	"strings"

	"github.com/gobwas/ws"
	"github.com/gobwas/ws/wsutil"

	"verifharness/mon"
	"verifharness/ref"
)

// depthRW is a transport that records how deep the call stack is whenever the
// library reads from it or writes to it.
type depthRW struct {
	r        io.Reader
	maxDepth int
	written  int
}

func (d *depthRW) note() {
	var pcs [1024]uintptr
	if n := runtime.Callers(0, pcs[:]); n > d.maxDepth {
		d.maxDepth = n
	}
}

func (d *depthRW) Read(p []byte) (int, error)  { d.note(); return d.r.Read(p) }
func (d *depthRW) Write(p []byte) (int, error) { d.note(); d.written += len(p); return len(p), nil }

// subDepth: a peer can make a message (or a handshake head) consist of very
// many small pieces. The call stack of the reading goroutine must not grow
// with their number - a goroutine stack is a limit like any other (1 GB, then
// the process dies with a fatal error nothing can recover from). The depth is
// read off inside the transport's Read and Write.
func subDepth() mon.Sub {
	kinds := []string{"pings-inside-message", "pongs-inside-message", "empty-fragments", "pings-before-message", "request-header-lines", "response-header-lines"}
	entries := []string{"reader", "readmessage", "readdata", "nextreader"}
	return mon.Sub{
		Name: "call-depth", Required: true,
		N: func(string) int { return len(kinds) * len(entries) * 2 },
		Do: func(c *mon.C) {
			kind := kinds[c.I%len(kinds)]
			entry := entries[c.I/len(kinds)%len(entries)]
			side := []ref.Side{ref.SideServer, ref.SideClient}[c.I/len(kinds)/len(entries)]
			depths := map[int]int{}
			for _, n := range []int{10, 3000} {
				mk := func(op byte, fin bool, p []byte) []byte {
					h := ref.Header{Fin: fin, Op: op, Masked: side == ref.SideServer}
					if h.Masked {
						c.Rng.Read(h.Mask[:])
					}
					return ref.Frame{H: h, Payload: p}.Encode()
				}
				var stream []byte
				st := ws.StateClientSide
				if side == ref.SideServer {
					st = ws.StateServerSide
				}
				d := &depthRW{}
				c.Count(1)
				switch kind {
				case "request-header-lines", "response-header-lines":
					if entry != "reader" {
						return
					}
					var b strings.Builder
					if kind == "request-header-lines" {
						b.WriteString("GET /x HTTP/1.1\r\nHost: depth.example\r\n")
					} else {
						b.WriteString("HTTP/1.1 101 Switching Protocols\r\n")
					}
					for i := 0; i < n; i++ {
						fmt.Fprintf(&b, "X-%d: v\r\n", i)
					}
					if kind == "request-header-lines" {
						b.WriteString("Upgrade: websocket\r\nConnection: Upgrade\r\nSec-WebSocket-Version: 13\r\nSec-WebSocket-Key: dGhlIHNhbXBsZSBub25jZQ==\r\n\r\n")
						d.r = strings.NewReader(b.String())
						ws.Upgrader{OnHeader: func(k, v []byte) error { return nil }}.Upgrade(d)
					} else {
						b.WriteString("Upgrade: websocket\r\nConnection: Upgrade\r\nSec-WebSocket-Accept: x\r\n\r\n")
						d.r = strings.NewReader(b.String())
						u, _ := urlOf("ws://depth.example/x")
						ws.Dialer{OnHeader: func(k, v []byte) error { return nil }}.Upgrade(d, u)
					}
				default:
					switch kind {
					case "pings-before-message":
						for i := 0; i < n; i++ {
							stream = append(stream, mk(ref.OpPing, true, nil)...)
						}
						stream = append(stream, mk(ref.OpBinary, true, []byte("data"))...)
					case "empty-fragments":
						stream = append(stream, mk(ref.OpBinary, false, []byte("da"))...)
						for i := 0; i < n; i++ {
							stream = append(stream, mk(ref.OpCont, false, nil)...)
						}
						stream = append(stream, mk(ref.OpCont, true, []byte("ta"))...)
					default:
						op := byte(ref.OpPing)
						if kind == "pongs-inside-message" {
							op = ref.OpPong
						}
						stream = append(stream, mk(ref.OpBinary, false, []byte("da"))...)
						for i := 0; i < n; i++ {
							stream = append(stream, mk(op, true, nil)...)
						}
						stream = append(stream, mk(ref.OpCont, true, []byte("ta"))...)
					}
					d.r = bytes.NewReader(stream)
					var data []byte
					var err error
					switch entry {
					case "reader":
						rd := &wsutil.Reader{Source: d, State: st, OnIntermediate: wsutil.ControlFrameHandler(d, st)}
						for err == nil {
							var h ws.Header
							if h, err = rd.NextFrame(); err != nil {
								break
							}
							if h.OpCode.IsControl() {
								err = wsutil.ControlFrameHandler(d, st)(h, rd)
								continue
							}
							data, err = io.ReadAll(rd)
							break
						}
					case "readmessage":
						var ms []wsutil.Message
						for err == nil && (len(ms) == 0 || ms[len(ms)-1].OpCode.IsControl()) {
							ms, err = wsutil.ReadMessage(d, st, ms)
						}
						if err == nil {
							data = ms[len(ms)-1].Payload
						}
					case "readdata":
						data, _, err = wsutil.ReadData(d, st)
					case "nextreader":
						for err == nil {
							var h ws.Header
							var r io.Reader
							if h, r, err = wsutil.NextReader(d, st); err != nil {
								break
							}
							var p []byte
							p, err = io.ReadAll(r)
							if !h.OpCode.IsControl() {
								data = p
								break
							}
						}
					}
					if err != nil || string(data) != "data" {
						c.Fail("depth/stream-refused/"+kind, fmt.Sprintf("a valid stream with %d small frames was not read (%q, %v) through %s", n, data, err, entry), map[string]interface{}{"kind": kind, "entry": entry, "side": side, "n": n})
						return
					}
				}
				depths[n] = d.maxDepth
			}
			// the same code path with 300 times as many pieces: the deepest stack seen is the same (a small allowance
			// for paths only the longer input reaches, such as a buffer refill)
			if depths[3000] > depths[10]+40 {
				c.Fail("depth/grows/"+kind, fmt.Sprintf("the call stack was %d frames deep with 10 pieces and at least %d frames deep with 3000 (%s through %s): the stack grows with the number of pieces the peer sends", depths[10], depths[3000], kind, entry),
					map[string]interface{}{"kind": kind, "entry": entry, "side": side, "depth_10": depths[10], "depth_3000": depths[3000]})
				return
			}
			c.Classf("%s|%s|%d", kind, entry, side)
			c.Sample(map[string]interface{}{"kind": kind, "entry": entry, "depth_with_10": depths[10], "depth_with_3000": depths[3000]})
		},
	}
}

func urlOf(s string) (*url.URL, error) { return url.ParseRequestURI(s) }
