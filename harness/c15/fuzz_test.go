package main

import (
	"testing"

	"verifharness/xport"
)

// FuzzTargets is Go's coverage-guided fuzzer over every decoding entry point
// (the first byte selects the target, the second the chunk plan). Crashes of
// the worker process (panic, fatal error) are reported by the fuzzing engine;
// the spin monitor is checked here.
func FuzzTargets(f *testing.F) {
	for ti, t := range targets {
		for _, s := range seeds[t.kind] {
			if len(s) > 8192 {
				s = s[:8192]
			}
			f.Add(uint8(ti), uint8(0), s)
			f.Add(uint8(ti), uint8(1), s)
		}
	}
	plans := xport.Plans(1, nil)
	f.Fuzz(func(t *testing.T, ti uint8, pi uint8, data []byte) {
		tg := targets[int(ti)%len(targets)]
		plan := plans[int(pi)%len(plans)]
		if len(data) > 1<<16 {
			return
		}
		ch := tg.run(data, plan)
		if ch != nil && (ch.ReadsAfterEnd > 1000 || ch.Reads > 20*len(data)+20000) {
			t.Fatalf("%s keeps reading without progress: %d reads (%d after end) for %d bytes", tg.name, ch.Reads, ch.ReadsAfterEnd, len(data))
		}
	})
}
