package main

import (
	"fmt"
	"os"
	"strconv"
	"testing"

	"verifharness/xport"
)

// FuzzTargets is Go's coverage-guided fuzzer over every decoding entry point
// (the first byte selects the target, the second the chunk plan). Crashes of
// the worker process (panic, fatal error) are reported by the fuzzing engine;
// the spin monitor is checked here.
type fuzzSeed struct {
	ti, pi uint8
	data   []byte
}

// fuzzSeeds lists the seed corpus in the order FuzzTargets adds it (the engine
// names a failing one "seed#N").
func fuzzSeeds() (out []fuzzSeed) {
	for ti, t := range targets {
		for _, s := range seeds[t.kind] {
			if len(s) > 8192 {
				s = s[:8192]
			}
			out = append(out, fuzzSeed{uint8(ti), 0, s}, fuzzSeed{uint8(ti), 1, s})
		}
	}
	return out
}

// TestDumpSeed writes seed #VERIF_SEED_INDEX as a corpus file to
// VERIF_SEED_OUT, so that a failing seed corpus entry becomes a replay file.
func TestDumpSeed(t *testing.T) {
	out := os.Getenv("VERIF_SEED_OUT")
	if out == "" {
		t.Skip("VERIF_SEED_OUT not set")
	}
	n, err := strconv.Atoi(os.Getenv("VERIF_SEED_INDEX"))
	ss := fuzzSeeds()
	if err != nil || n < 0 || n >= len(ss) {
		t.Fatalf("bad VERIF_SEED_INDEX")
	}
	s := ss[n]
	body := fmt.Sprintf("go test fuzz v1\nbyte(%q)\nbyte(%q)\n[]byte(%q)\n", rune(s.ti), rune(s.pi), s.data)
	if err := os.WriteFile(out, []byte(body), 0o644); err != nil {
		t.Fatal(err)
	}
}

func FuzzTargets(f *testing.F) {
	for _, s := range fuzzSeeds() {
		f.Add(s.ti, s.pi, s.data)
	}
	plans := xport.Plans(1, nil)
	f.Fuzz(func(t *testing.T, ti uint8, pi uint8, data []byte) {
		tg := targets[int(ti)%len(targets)]
		plan := plans[int(pi)%len(plans)]
		if len(data) > 1<<16 {
			return
		}
		ch := tg.run(data, plan)
		if ch != nil && (ch.ReadsAfterEnd > 1000 || ch.Reads > 20*len(data)+20000) {
			t.Fatalf("%s keeps reading without progress: %d reads (%d after end) for %d bytes", tg.name, ch.Reads, ch.ReadsAfterEnd, len(data))
		}
	})
}
