// Package mon is the monitor runtime shared by every property check: case
// scheduling over workers, deterministic per-case PRNGs, three-valued verdicts,
// replay files, the known-findings filter, the evidence file, and a supervisor
// process that survives process-fatal events in the code under test.
package mon

import (
	"encoding/json"
	"flag"
	"fmt"
	"hash/fnv"
	"math/rand"
	"os"
	"os/exec"
	"path/filepath"
	"regexp"
	"runtime"
	"runtime/debug"
	"sort"
	"strconv"
	"strings"
	"sync"
	"sync/atomic"
	"syscall"
	"time"
)

// Sub is one family of cases of a monitor. Case i of a Sub is a pure function
// of (seed, Sub.Name, i).
type Sub struct {
	Name string
	// N returns how many cases the tier runs.
	N func(tier string) int
	// Do runs case c.I and reports through c.
	Do func(c *C)
	// Serial subs run on one worker (they touch process-global state).
	Serial bool
	// Exhaustive marks subs whose case list enumerates a finite space fully.
	Exhaustive bool
	// Required: at least one non-inconclusive case of this sub must be held,
	// otherwise the run is broken (exit 3), never "passed".
	Required bool
}

// C is the per-case context.
type C struct {
	Run    *Run
	Sub    *Sub
	I      int
	Tier   string
	Rng    *rand.Rand
	Replay bool

	w       *worker
	failed  bool
	inconcl bool
	evals   int64
}

// Count adds n executions of the code under test to the evaluation counter
// (a case that never calls Count counts as one evaluation).
func (c *C) Count(n int) { c.evals += int64(n) }

// Spec describes a monitor.
type Spec struct {
	Property    string
	Level       string // exploration | fault_enumeration | ...
	Rule        string
	Assumptions []string
	Subs        []Sub
	// RaceLogs makes the supervisor run the child with GORACE log_path and
	// count "WARNING: DATA RACE" reports (monitor must be built with -race).
	RaceLogs bool
	// Rounds repeats the whole child run (race reports vary run to run).
	Rounds func(tier string) int
	// HangSeconds is the per-case wall-clock watchdog of the supervisor
	// (default 180). A firing watchdog is re-checked in isolation.
	HangSeconds int
	// Setup runs in the child before any case.
	Setup func(r *Run)
	// Finish runs in the child after all cases (may add extra coverage keys).
	Finish func(r *Run)
}

type violation struct {
	Signature string      `json:"signature"`
	What      string      `json:"what"`
	Sub       string      `json:"sub"`
	Index     int         `json:"index"`
	Seed      int64       `json:"seed"`
	Tier      string      `json:"tier"`
	Property  string      `json:"property"`
	Detail    interface{} `json:"detail,omitempty"`
	Replay    string      `json:"-"`
}

type worker struct {
	id      int
	classes map[uint64]struct{}
}

// Run is the state of one monitor execution (child side).
type Run struct {
	Spec *Spec
	Tier string
	Seed int64

	mu        sync.Mutex
	evals     int64
	inconcl   int64
	perSub    map[string]*subStat
	samples   []interface{}
	sampleSub map[string]int
	viol      map[string]*violation // by signature
	violCount int64
	known     map[string]string // signature -> what (printed)
	extra     map[string]interface{}
	classes   map[uint64]struct{}
	kf        []knownFinding
	journal   *os.File
	violLog   string // child: every violation is appended here at once (survives a later fatal error of the process)
	verbose   bool
}

type subStat struct {
	Evaluations  int64 `json:"evaluations"`
	Cases        int64 `json:"cases"`
	Distinct     int   `json:"distinct_nontrivial"`
	Inconclusive int64 `json:"inconclusive"`
	Held         int64 `json:"held"`
	Exhaustive   bool  `json:"exhaustive,omitempty"`
	classes      map[uint64]struct{}
}

type knownFinding struct {
	Property  string `json:"property"`
	Status    string `json:"status"`
	Signature string `json:"signature"`
	What      string `json:"what"`
	Commit    string `json:"commit,omitempty"`
}

// verifDir is the home of the machinery: /verif, or (VERIF_HOME, set by bin/check) the snapshot a `vp run` works in.
var verifDir = func() string {
	if d := os.Getenv("VERIF_HOME"); d != "" {
		return d
	}
	return "/verif"
}()

// outDir is where replays, work files and the evidence file go: /verif, unless
// VERIF_OUT redirects them (used only when the checks are pointed at a scratch
// copy of the repository to validate them against seeded changes; the
// registered commands never set it).
func outDir() string {
	if d := os.Getenv("VERIF_OUT"); d != "" {
		return d
	}
	return verifDir
}

func hash64(s string) uint64 {
	h := fnv.New64a()
	h.Write([]byte(s))
	return h.Sum64()
}

// Class records the structural class of a non-trivial held case.
func (c *C) Class(key string) {
	c.w.classes[hash64(c.Sub.Name+"|"+key)] = struct{}{}
}

// Classf is Class with formatting.
func (c *C) Classf(format string, a ...interface{}) { c.Class(fmt.Sprintf(format, a...)) }

// Fail reports a violation. sig must identify the failing input class / call
// site narrowly; what is a one-line human description.
func (c *C) Fail(sig, what string, detail interface{}) {
	c.failed = true
	c.Run.addViolation(c, sig, what, detail)
}

// Failf formats what.
func (c *C) Failf(sig string, detail interface{}, format string, a ...interface{}) {
	c.Fail(sig, fmt.Sprintf(format, a...), detail)
}

// Inconclusive marks the case as not decided.
func (c *C) Inconclusive(why string) {
	c.inconcl = true
	if c.Replay {
		fmt.Printf("INCONCLUSIVE %s/%d: %s\n", c.Sub.Name, c.I, why)
	}
}

// Sample offers a case description for the evidence file (first few kept).
func (c *C) Sample(v interface{}) {
	r := c.Run
	r.mu.Lock()
	if r.sampleSub[c.Sub.Name] < 2 && len(r.samples) < 24 {
		r.sampleSub[c.Sub.Name]++
		r.samples = append(r.samples, map[string]interface{}{"sub": c.Sub.Name, "index": c.I, "case": v})
	}
	r.mu.Unlock()
}

// WantSample reports whether Sample would keep something (avoid building it).
func (c *C) WantSample() bool {
	r := c.Run
	r.mu.Lock()
	ok := r.sampleSub[c.Sub.Name] < 2 && len(r.samples) < 24
	r.mu.Unlock()
	return ok
}

// Logf prints when replaying.
func (c *C) Logf(format string, a ...interface{}) {
	if c.Replay {
		fmt.Printf(format+"\n", a...)
	}
}

// Extra stores an additional coverage key.
func (r *Run) Extra(key string, v interface{}) {
	r.mu.Lock()
	r.extra[key] = v
	r.mu.Unlock()
}

// AddExtra adds to an integer coverage key.
func (r *Run) AddExtra(key string, d int64) {
	r.mu.Lock()
	cur, _ := r.extra[key].(int64)
	r.extra[key] = cur + d
	r.mu.Unlock()
}

func (r *Run) addViolation(c *C, sig, what string, detail interface{}) {
	r.mu.Lock()
	defer r.mu.Unlock()
	for _, k := range r.kf {
		if k.Property == r.Spec.Property && k.Status == "known" && k.Signature == sig {
			if _, seen := r.known[sig]; !seen {
				r.known[sig] = k.What
			}
			return
		}
	}
	r.violCount++
	if _, dup := r.viol[sig]; dup || len(r.viol) >= 40 {
		return
	}
	v := &violation{Signature: sig, What: what, Sub: c.Sub.Name, Index: c.I, Seed: r.Seed, Tier: c.Tier, Property: r.Spec.Property, Detail: detail}
	r.viol[sig] = v
	if !c.Replay {
		name := fmt.Sprintf("%s-%s-%d-%d-%x.json", r.Spec.Property, sanitize(c.Sub.Name), r.Seed, c.I, hash64(sig)&0xffff)
		path := filepath.Join(outDir(), "replays", name)
		os.MkdirAll(filepath.Dir(path), 0o755)
		b, err := json.MarshalIndent(v, "", " ")
		if err != nil {
			v.Detail = fmt.Sprintf("%+v", detail)
			b, _ = json.MarshalIndent(v, "", " ")
		}
		os.WriteFile(path, b, 0o644)
		v.Replay = path
		if r.violLog != "" {
			if f, err := os.OpenFile(r.violLog, os.O_WRONLY|os.O_CREATE|os.O_APPEND, 0o644); err == nil {
				line, _ := json.Marshal(map[string]interface{}{"signature": v.Signature, "what": v.What, "sub": v.Sub, "index": v.Index, "replay": path})
				f.Write(append(line, '\n'))
				f.Close()
			}
		}
	}
}

func sanitize(s string) string {
	return regexp.MustCompile(`[^A-Za-z0-9_.-]+`).ReplaceAllString(s, "_")
}

func loadKnown() []knownFinding {
	b, err := os.ReadFile(filepath.Join(verifDir, "known_findings.json"))
	if err != nil {
		return nil
	}
	var k []knownFinding
	if err := json.Unmarshal(b, &k); err != nil {
		fmt.Fprintf(os.Stderr, "known_findings.json: %v\n", err)
		os.Exit(3)
	}
	return k
}

func caseRng(seed int64, sub string, i int) *rand.Rand {
	h := fnv.New64a()
	fmt.Fprintf(h, "%d|%s|%d", seed, sub, i)
	return rand.New(rand.NewSource(int64(h.Sum64())))
}

var wsFrameRe = regexp.MustCompile(`github\.com/gobwas/(ws[\w/]*\.(?:\(\*?\w+\)\.)?\w+)`)

// panicSite extracts the innermost gobwas/ws function of a stack trace.
func panicSite(stack string) string {
	m := wsFrameRe.FindStringSubmatch(stack)
	if m == nil {
		return "outside-ws"
	}
	return m[1]
}

func (r *Run) runCase(w *worker, s *Sub, i int, replay bool) (failed, inconcl bool, evals int64) {
	c := &C{Run: r, Sub: s, I: i, Tier: r.Tier, Rng: caseRng(r.Seed, s.Name, i), Replay: replay, w: w}
	func() {
		defer func() {
			if p := recover(); p != nil {
				st := string(debug.Stack())
				// drop the frames of the recover machinery
				if k := strings.Index(st, "panic("); k >= 0 {
					st = st[k:]
				}
				site := panicSite(st)
				c.Fail(fmt.Sprintf("%s/panic/%s", s.Name, site), fmt.Sprintf("panic in %s: %v", site, p), map[string]interface{}{"panic": fmt.Sprint(p), "stack": strings.Split(st, "\n")})
			}
		}()
		s.Do(c)
	}()
	if c.evals == 0 {
		c.evals = 1
	}
	return c.failed, c.inconcl, c.evals
}

// Flags are registered at package initialisation so that a monitor can also
// live in a test binary (needed for testing/synctest, which wants a *testing.T).
var (
	flagTier    = flag.String("tier", envOr("VERIF_TIER", "quick"), "quick|thorough")
	flagSeed    = flag.Int64("seed", envInt("VERIF_SEED", 1), "seed")
	flagReplay  = flag.String("replay", "", "replay file")
	flagOnly    = flag.String("only", "", "sub:index — run a single case")
	flagChild   = flag.Bool("child", false, "internal")
	flagRound   = flag.Int("round", 0, "internal")
	flagWorkers = flag.Int("workers", runtime.NumCPU(), "workers")
	flagVerbose = flag.Bool("v", false, "verbose")
)

// childPrefixArgs are put in front of the arguments of every child process
// (a test binary needs -test.run=...).
var childPrefixArgs []string

// T is the *testing.T of the enclosing test when the monitor runs inside a
// test binary (nil otherwise); stored as interface{} to keep package testing
// out of ordinary monitors.
var T interface{}

// Main is the entry point of every monitor binary.
func Main(spec *Spec) {
	flag.Parse()
	os.Exit(run(spec))
}

// MainInTest is Main for a monitor living in a test binary: call it from the
// single test function; prefix are the -test.* arguments children must get.
func MainInTest(spec *Spec, t interface{}, prefix []string) {
	T = t
	childPrefixArgs = prefix
	os.Exit(run(spec))
}

func run(spec *Spec) int {
	tier, seed, replay, only := flagTier, flagSeed, flagReplay, flagOnly
	child, round, workers, verbose := flagChild, flagRound, flagWorkers, flagVerbose
	if *tier != "quick" && *tier != "thorough" {
		fmt.Fprintln(os.Stderr, "bad tier")
		return 3
	}
	if *replay != "" {
		b, err := os.ReadFile(*replay)
		if err != nil {
			fmt.Fprintln(os.Stderr, err)
			return 3
		}
		var v violation
		if err := json.Unmarshal(b, &v); err != nil {
			fmt.Fprintln(os.Stderr, err)
			return 3
		}
		*only = v.Sub + ":" + strconv.Itoa(v.Index)
		*seed = v.Seed
		if v.Tier != "" {
			*tier = v.Tier
		}
	}
	if *child || *only != "" {
		return childMain(spec, *tier, *seed, *only, *workers, *round, *verbose || *replay != "")
	}
	return supervise(spec, *tier, *seed, *workers)
}

func envOr(k, d string) string {
	if v := os.Getenv(k); v != "" {
		return v
	}
	return d
}

func envInt(k string, d int64) int64 {
	if v := os.Getenv(k); v != "" {
		if n, err := strconv.ParseInt(v, 10, 64); err == nil {
			return n
		}
	}
	return d
}

type childResult struct {
	Property   string                 `json:"property"`
	Evals      int64                  `json:"evaluations"`
	Inconcl    int64                  `json:"inconclusive"`
	Classes    []uint64               `json:"classes"`
	PerSub     map[string]*subStat    `json:"per_sub"`
	Samples    []interface{}          `json:"samples"`
	Violations []*violation           `json:"violations"`
	ViolCount  int64                  `json:"violation_count"`
	Known      map[string]string      `json:"known"`
	Extra      map[string]interface{} `json:"extra"`
	Broken     []string               `json:"broken"`
	Replays    map[string]string      `json:"replays"`
}

func workDir() string {
	d := filepath.Join(outDir(), "work")
	os.MkdirAll(d, 0o755)
	return d
}

const journalRec = 96

func childMain(spec *Spec, tier string, seed int64, only string, workers, round int, verbose bool) int {
	r := &Run{Spec: spec, Tier: tier, Seed: seed, perSub: map[string]*subStat{}, sampleSub: map[string]int{},
		viol: map[string]*violation{}, known: map[string]string{}, extra: map[string]interface{}{}, classes: map[uint64]struct{}{}, verbose: verbose}
	r.kf = loadKnown()
	if spec.Setup != nil {
		spec.Setup(r)
	}
	if only != "" {
		go memWatchdog(spec.Property)
		k := strings.LastIndex(only, ":")
		name := only[:k]
		idx, _ := strconv.Atoi(only[k+1:])
		for si := range spec.Subs {
			s := &spec.Subs[si]
			if s.Name == name {
				w := &worker{classes: map[uint64]struct{}{}}
				failed, inc, _ := r.runCase(w, s, idx, true)
				for _, v := range r.viol {
					b, _ := json.MarshalIndent(v, "", " ")
					fmt.Printf("REPLAY-VIOLATION %s\n%s\n", v.Signature, b)
				}
				for sig, what := range r.known {
					fmt.Printf("KNOWN-FINDING: property=%s %s [%s]\n", spec.Property, what, sig)
				}
				switch {
				case failed && len(r.viol) > 0:
					return 1
				case inc:
					fmt.Println("inconclusive")
					return 3
				}
				fmt.Println("held")
				return 0
			}
		}
		fmt.Fprintf(os.Stderr, "no sub %q\n", name)
		return 3
	}

	jpath := filepath.Join(workDir(), spec.Property+".journal")
	jf, err := os.OpenFile(jpath, os.O_RDWR|os.O_CREATE|os.O_TRUNC, 0o644)
	if err == nil {
		r.journal = jf
		jf.Truncate(int64(journalRec * (workers + 1)))
	}
	r.violLog = filepath.Join(workDir(), fmt.Sprintf("%s.viol.%d.jsonl", spec.Property, round))
	os.Remove(r.violLog)
	start := time.Now()
	go memWatchdog(spec.Property)
	var broken []string
	for si := range spec.Subs {
		s := &spec.Subs[si]
		n := s.N(tier)
		st := &subStat{classes: map[uint64]struct{}{}, Exhaustive: s.Exhaustive}
		r.perSub[s.Name] = st
		if n <= 0 {
			continue
		}
		nw := workers
		if s.Serial || n < nw {
			nw = 1
			if !s.Serial && n > 1 {
				nw = n
			}
		}
		var next int64 = -1
		var wg sync.WaitGroup
		var held, inc, evs int64
		ws := make([]*worker, nw)
		for wi := 0; wi < nw; wi++ {
			w := &worker{id: wi, classes: map[uint64]struct{}{}}
			ws[wi] = w
			wg.Add(1)
			go func() {
				defer wg.Done()
				for {
					i := int(atomic.AddInt64(&next, 1))
					if i >= n {
						break
					}
					r.journalWrite(w.id, s.Name, i)
					f, ic, ne := r.runCase(w, s, i, false)
					atomic.AddInt64(&evs, ne)
					switch {
					case ic:
						atomic.AddInt64(&inc, 1)
					case !f:
						atomic.AddInt64(&held, 1)
					}
				}
				r.journalWrite(w.id, "", -1)
			}()
		}
		wg.Wait()
		for _, w := range ws {
			for k := range w.classes {
				st.classes[k] = struct{}{}
				r.classes[k] = struct{}{}
			}
		}
		st.Evaluations = evs
		st.Cases = int64(n)
		st.Distinct = len(st.classes)
		st.Inconclusive = inc
		st.Held = held
		r.evals += evs
		r.inconcl += inc
		if s.Required && held == 0 && len(r.viol) == 0 && len(r.known) == 0 {
			broken = append(broken, fmt.Sprintf("sub %s: no held case (evaluations=%d inconclusive=%d)", s.Name, n, inc))
		}
		if verbose {
			fmt.Fprintf(os.Stderr, "[%s] %s: %d cases, %d classes, %d inconclusive, %.1fs\n", spec.Property, s.Name, n, st.Distinct, inc, time.Since(start).Seconds())
		}
	}
	if spec.Finish != nil {
		spec.Finish(r)
	}
	res := childResult{Property: spec.Property, Evals: r.evals, Inconcl: r.inconcl, PerSub: r.perSub, Samples: r.samples,
		ViolCount: r.violCount, Known: r.known, Extra: r.extra, Broken: broken, Replays: map[string]string{}}
	for k := range r.classes {
		res.Classes = append(res.Classes, k)
	}
	sigs := make([]string, 0, len(r.viol))
	for s := range r.viol {
		sigs = append(sigs, s)
	}
	sort.Strings(sigs)
	for _, s := range sigs {
		res.Violations = append(res.Violations, r.viol[s])
		res.Replays[s] = r.viol[s].Replay
	}
	b, _ := json.Marshal(res)
	os.WriteFile(filepath.Join(workDir(), fmt.Sprintf("%s.result.%d.json", spec.Property, round)), b, 0o644)
	return 0
}

func (r *Run) journalWrite(wid int, sub string, i int) {
	if r.journal == nil {
		return
	}
	var rec [journalRec]byte
	for k := range rec {
		rec[k] = ' '
	}
	rec[journalRec-1] = '\n'
	copy(rec[:journalRec-1], fmt.Sprintf("%s %d %d", sub, i, time.Now().UnixNano()))
	r.journal.WriteAt(rec[:], int64(wid*journalRec))
}

type inflight struct {
	sub   string
	idx   int
	since time.Time
}

func readJournal(path string) []inflight {
	b, err := os.ReadFile(path)
	if err != nil {
		return nil
	}
	var out []inflight
	for off := 0; off+journalRec <= len(b); off += journalRec {
		f := strings.Fields(string(b[off : off+journalRec]))
		if len(f) != 3 {
			continue
		}
		idx, _ := strconv.Atoi(f[1])
		ns, _ := strconv.ParseInt(f[2], 10, 64)
		if idx < 0 {
			continue
		}
		out = append(out, inflight{f[0], idx, time.Unix(0, ns)})
	}
	return out
}

// supervise runs the child process(es), survives their death, and writes the
// evidence file and the verdict lines.
func supervise(spec *Spec, tier string, seed int64, workers int) int {
	start := time.Now()
	wd := workDir()
	exe, _ := os.Executable()
	rounds := 1
	if spec.Rounds != nil {
		rounds = spec.Rounds(tier)
	}
	hang := time.Duration(spec.HangSeconds) * time.Second
	if hang == 0 {
		hang = 120 * time.Second
	}
	kf := loadKnown()
	isKnown := func(sig string) (string, bool) {
		for _, k := range kf {
			if k.Property == spec.Property && k.Status == "known" && k.Signature == sig {
				return k.What, true
			}
		}
		return "", false
	}

	total := childResult{Property: spec.Property, PerSub: map[string]*subStat{}, Known: map[string]string{}, Extra: map[string]interface{}{}, Replays: map[string]string{}}
	classes := map[uint64]struct{}{}
	violSeen := map[string]bool{}
	raceReports := 0
	raceDistinct := map[string]int{}
	var fatalNotes []string

	for round := 0; round < rounds; round++ {
		resPath := filepath.Join(wd, fmt.Sprintf("%s.result.%d.json", spec.Property, round))
		os.Remove(resPath)
		logPath := filepath.Join(wd, fmt.Sprintf("%s.child.%d.log", spec.Property, round))
		jpath := filepath.Join(wd, spec.Property+".journal")
		os.Remove(jpath)
		args := []string{"-child", "-tier", tier, "-seed", strconv.FormatInt(seed+int64(round)*1000003, 10), "-round", strconv.Itoa(round), "-workers", strconv.Itoa(workers)}
		if round == 0 {
			args[4] = strconv.FormatInt(seed, 10)
		}
		cmd := exec.Command(exe, append(append([]string(nil), childPrefixArgs...), args...)...)
		lf, _ := os.Create(logPath)
		cmd.Stdout = lf
		cmd.Stderr = lf
		cmd.Env = os.Environ()
		raceBase := filepath.Join(wd, fmt.Sprintf("%s.race.%d", spec.Property, round))
		if spec.RaceLogs {
			old, _ := filepath.Glob(raceBase + ".*")
			for _, o := range old {
				os.Remove(o)
			}
			cmd.Env = append(cmd.Env, "GORACE=halt_on_error=0 log_path="+raceBase)
		}
		if err := cmd.Start(); err != nil {
			fmt.Fprintln(os.Stderr, "cannot start child:", err)
			return 3
		}
		done := make(chan error, 1)
		go func() { done <- cmd.Wait() }()
		var werr error
		hung := false
		var hungCases []inflight
	wait:
		for {
			select {
			case werr = <-done:
				break wait
			case <-time.After(2 * time.Second):
				for _, f := range readJournal(jpath) {
					if time.Since(f.since) > hang {
						hung = true
					}
				}
				if hung {
					hungCases = readJournal(jpath)
					cmd.Process.Signal(syscall.SIGQUIT)
					select {
					case werr = <-done:
					case <-time.After(10 * time.Second):
						cmd.Process.Kill()
						werr = <-done
					}
					break wait
				}
			}
		}
		lf.Close()

		if spec.RaceLogs {
			logs, _ := filepath.Glob(raceBase + ".*")
			for _, l := range logs {
				b, _ := os.ReadFile(l)
				n, keys := parseRaceLog(string(b))
				raceReports += n
				for _, k := range keys {
					raceDistinct[k]++
				}
			}
		}

		b, rerr := os.ReadFile(resPath)
		if rerr == nil && !hung {
			var res childResult
			if err := json.Unmarshal(b, &res); err != nil {
				fmt.Fprintln(os.Stderr, "bad child result:", err)
				return 3
			}
			mergeResult(&total, &res, classes, violSeen)
			_ = werr
			continue
		}

		// The child died (fatal runtime error, os.Exit inside the library, kill)
		// or hung. Find the in-flight case(s) and re-run each in isolation.
		cases := hungCases
		if !hung {
			cases = readJournal(jpath)
		}
		tail := tailFile(logPath, 60)
		fmt.Fprintf(os.Stderr, "child of %s ended abnormally (hung=%v err=%v); %d in-flight case(s); isolating\n", spec.Property, hung, werr, len(cases))
		confirmed := 0
		type isoRes struct {
			cs    inflight
			hung  bool
			code  int
			itail []string
		}
		results := make([]isoRes, len(cases))
		var iwg sync.WaitGroup
		for ci, cs := range cases {
			iwg.Add(1)
			go func(ci int, cs inflight) {
				defer iwg.Done()
				ilog := filepath.Join(wd, fmt.Sprintf("%s.isolate.%d.log", spec.Property, ci))
				ic := exec.Command(exe, append(append([]string(nil), childPrefixArgs...), "-child", "-tier", tier, "-seed", args[4], "-only", cs.sub+":"+strconv.Itoa(cs.idx))...)
				f, _ := os.Create(ilog)
				ic.Stdout, ic.Stderr = f, f
				ic.Env = os.Environ()
				ic.Start()
				idone := make(chan error, 1)
				go func() { idone <- ic.Wait() }()
				var ierr error
				ihung := false
				select {
				case ierr = <-idone:
				case <-time.After(hang):
					ihung = true
					ic.Process.Signal(syscall.SIGQUIT)
					select {
					case <-idone:
					case <-time.After(10 * time.Second):
						ic.Process.Kill()
						<-idone
					}
				}
				f.Close()
				code := 0
				if ee, ok := ierr.(*exec.ExitError); ok {
					code = ee.ExitCode()
				}
				results[ci] = isoRes{cs, ihung, code, tailFile(ilog, 80)}
			}(ci, cs)
		}
		iwg.Wait()
		for _, ir := range results {
			cs, ihung, code, itail := ir.cs, ir.hung, ir.code, ir.itail
			if !ihung && (code == 0 || code == 1 || code == 3) {
				// ran to a verdict in isolation: not the culprit.
				continue
			}
			confirmed++
			kind := "fatal"
			if ihung {
				kind = "hang"
			}
			site := panicSite(strings.Join(itail, "\n"))
			sig := fmt.Sprintf("%s/%s/%s", cs.sub, kind, site)
			what := fmt.Sprintf("%s in isolation: case %s:%d (%s)", kind, cs.sub, cs.idx, firstFatalLine(itail))
			if kw, ok := isKnown(sig); ok {
				total.Known[sig] = kw
				continue
			}
			v := &violation{Signature: sig, What: what, Sub: cs.sub, Index: cs.idx, Seed: seed, Tier: tier, Property: spec.Property, Detail: map[string]interface{}{"log_tail": itail}}
			name := fmt.Sprintf("%s-%s-%d-%d-%s.json", spec.Property, sanitize(cs.sub), seed, cs.idx, kind)
			path := filepath.Join(outDir(), "replays", name)
			os.MkdirAll(filepath.Dir(path), 0o755)
			jb, _ := json.MarshalIndent(v, "", " ")
			os.WriteFile(path, jb, 0o644)
			v.Replay = path
			if !violSeen[sig] {
				violSeen[sig] = true
				total.Violations = append(total.Violations, v)
				total.Replays[sig] = path
			}
			total.ViolCount++
		}
		// what the dead child had already found (its result file was never written)
		if vb, err := os.ReadFile(filepath.Join(wd, fmt.Sprintf("%s.viol.%d.jsonl", spec.Property, round))); err == nil {
			for _, line := range strings.Split(string(vb), "\n") {
				var lv struct {
					Signature, What, Sub, Replay string
					Index                        int
				}
				if line == "" || json.Unmarshal([]byte(line), &lv) != nil || lv.Signature == "" {
					continue
				}
				total.ViolCount++
				if !violSeen[lv.Signature] {
					violSeen[lv.Signature] = true
					total.Violations = append(total.Violations, &violation{Signature: lv.Signature, What: lv.What, Sub: lv.Sub, Index: lv.Index, Seed: seed, Tier: tier, Property: spec.Property, Replay: lv.Replay})
					total.Replays[lv.Signature] = lv.Replay
				}
			}
		}
		if confirmed == 0 {
			// A report of the Go runtime's own pointer sanitizer (checkptr, compiled in by -race / -d=checkptr) whose
			// RUNNING goroutine is inside the library is a finding in itself: whether it fires depends on where the
			// allocator placed the slice, so the case need not reproduce alone. The log is the witness.
			if site, line, ok := sanitizerReport(tail); ok {
				confirmed++
				sig := fmt.Sprintf("sanitizer/bad-pointer/%s", site)
				if kw, known := isKnown(sig); known {
					total.Known[sig] = kw
				} else {
					v := &violation{Signature: sig, What: "the runtime's pointer sanitizer stopped the process inside the library: " + line, Sub: "(child process)", Index: -1, Seed: seed, Tier: tier, Property: spec.Property, Detail: map[string]interface{}{"log_tail": tail}}
					path := filepath.Join(outDir(), "replays", fmt.Sprintf("%s-sanitizer-%d-%d.json", spec.Property, seed, round))
					os.MkdirAll(filepath.Dir(path), 0o755)
					jb, _ := json.MarshalIndent(v, "", " ")
					os.WriteFile(path, jb, 0o644)
					v.Replay = path
					if !violSeen[sig] {
						violSeen[sig] = true
						total.Violations = append(total.Violations, v)
						total.Replays[sig] = path
					}
					total.ViolCount++
				}
			}
		}
		if confirmed == 0 {
			fatalNotes = append(fatalNotes, fmt.Sprintf("round %d: child ended abnormally (hung=%v, %v) but no in-flight case reproduced it in isolation; log tail: %s", round, hung, werr, strings.Join(tail, " | ")))
		}
	}

	// ------------------------------------------------------------ evidence
	wall := time.Since(start).Seconds()
	cov := map[string]interface{}{
		"evaluations":         total.Evals,
		"distinct_nontrivial": len(classes),
		"rule":                spec.Rule,
		"samples":             total.Samples,
		"inconclusive":        total.Inconcl,
		"per_sub":             total.PerSub,
		"rounds":              rounds,
	}
	allEx := len(total.PerSub) > 0
	for _, st := range total.PerSub {
		if !st.Exhaustive {
			allEx = false
		}
	}
	cov["exhaustive"] = allEx
	for k, v := range total.Extra {
		cov[k] = v
	}
	if spec.RaceLogs {
		cov["race_reports"] = raceReports
		cov["race_reports_distinct"] = len(raceDistinct)
	}
	if len(total.Samples) == 0 {
		cov["samples"] = []interface{}{"(no sample recorded)"}
	}
	knownList := []string{}
	for sig := range total.Known {
		knownList = append(knownList, sig)
	}
	sort.Strings(knownList)
	cov["known_findings_seen"] = knownList
	nviol := len(total.Violations)
	if spec.RaceLogs {
		for key := range raceDistinct {
			sig := "race/" + key
			if kw, ok := isKnown(sig); ok {
				total.Known[sig] = kw
				continue
			}
			path := filepath.Join(outDir(), "replays", fmt.Sprintf("%s-race-%x.json", spec.Property, hash64(key)&0xffffff))
			jb, _ := json.MarshalIndent(map[string]interface{}{"signature": sig, "property": spec.Property, "what": "data race reported by the Go race detector", "seed": seed, "tier": tier, "race_logs": filepath.Join(wd, spec.Property+".race.*")}, "", " ")
			os.WriteFile(path, jb, 0o644)
			total.Violations = append(total.Violations, &violation{Signature: sig, What: "data race: " + key, Replay: path})
			nviol++
		}
	}
	ev := map[string]interface{}{
		"property_id": spec.Property,
		"tier":        tier,
		"seed":        seed,
		"level":       spec.Level,
		"coverage":    cov,
		"assumptions": spec.Assumptions,
		"wall_s":      wall,
		"violations":  nviol,
	}
	eb, _ := json.MarshalIndent(ev, "", " ")
	os.MkdirAll(filepath.Join(outDir(), "evidence"), 0o755)
	os.WriteFile(filepath.Join(outDir(), "evidence", spec.Property+".json"), eb, 0o644)

	for _, sig := range knownList {
		fmt.Printf("KNOWN-FINDING: property=%s %s [%s]\n", spec.Property, total.Known[sig], sig)
	}
	for sig, what := range total.Known {
		found := false
		for _, k := range knownList {
			if k == sig {
				found = true
			}
		}
		if !found {
			fmt.Printf("KNOWN-FINDING: property=%s %s [%s]\n", spec.Property, what, sig)
		}
	}
	fmt.Printf("%s %s seed=%d: evaluations=%d distinct=%d inconclusive=%d violations=%d known=%d wall=%.1fs\n",
		spec.Property, tier, seed, total.Evals, len(classes), total.Inconcl, nviol, len(total.Known), wall)
	if nviol > 0 {
		for _, v := range total.Violations {
			fmt.Printf("VIOLATION property=%s replay=%s\n", spec.Property, v.Replay)
			fmt.Printf("  signature: %s\n  what: %s\n", v.Signature, v.What)
		}
		return 1
	}
	if len(fatalNotes) > 0 || len(total.Broken) > 0 {
		for _, n := range fatalNotes {
			fmt.Println("INCONCLUSIVE:", n)
		}
		for _, n := range total.Broken {
			fmt.Println("BROKEN-CHECK:", n)
		}
		return 3
	}
	if total.Evals == 0 || len(classes) < 2 {
		fmt.Println("BROKEN-CHECK: nothing observed")
		return 3
	}
	return 0
}

func mergeResult(t, r *childResult, classes map[uint64]struct{}, violSeen map[string]bool) {
	t.Evals += r.Evals
	t.Inconcl += r.Inconcl
	t.ViolCount += r.ViolCount
	for _, c := range r.Classes {
		classes[c] = struct{}{}
	}
	for name, st := range r.PerSub {
		cur := t.PerSub[name]
		if cur == nil {
			cp := *st
			t.PerSub[name] = &cp
			continue
		}
		cur.Evaluations += st.Evaluations
		cur.Cases += st.Cases
		cur.Inconclusive += st.Inconclusive
		cur.Held += st.Held
		if st.Distinct > cur.Distinct {
			cur.Distinct = st.Distinct
		}
	}
	if len(t.Samples) < 24 {
		t.Samples = append(t.Samples, r.Samples...)
		if len(t.Samples) > 24 {
			t.Samples = t.Samples[:24]
		}
	}
	for _, v := range r.Violations {
		if !violSeen[v.Signature] {
			violSeen[v.Signature] = true
			v.Replay = r.Replays[v.Signature]
			t.Violations = append(t.Violations, v)
		}
	}
	for k, v := range r.Known {
		t.Known[k] = v
	}
	for k, v := range r.Extra {
		switch nv := v.(type) {
		case float64:
			if cur, ok := t.Extra[k].(float64); ok {
				t.Extra[k] = cur + nv
			} else {
				t.Extra[k] = nv
			}
		default:
			t.Extra[k] = v
		}
	}
	t.Broken = append(t.Broken, r.Broken...)
}

func tailFile(path string, n int) []string {
	b, _ := os.ReadFile(path)
	lines := strings.Split(strings.TrimRight(string(b), "\n"), "\n")
	// Prefer the region around the first "fatal error"/"panic:" line.
	for i, l := range lines {
		if strings.HasPrefix(l, "fatal error:") || strings.HasPrefix(l, "panic:") || strings.HasPrefix(l, "SIGQUIT") || strings.Contains(l, "runtime: out of memory") {
			end := i + n
			if end > len(lines) {
				end = len(lines)
			}
			return lines[i:end]
		}
	}
	if len(lines) > n {
		lines = lines[len(lines)-n:]
	}
	return lines
}

// sanitizerReport recognises the runtime's fatal pointer reports ("fatal error: checkptr: ...", "found bad pointer in
// Go heap (incorrect use of unsafe or cgo?)", a fault signal) in a dead child's log and returns the library frame of
// the goroutine that was running.
func sanitizerReport(lines []string) (site, line string, ok bool) {
	for i, l := range lines {
		if !strings.HasPrefix(l, "fatal error: checkptr") && !strings.HasPrefix(l, "fatal error: found bad pointer in Go heap") && !strings.HasPrefix(l, "fatal error: unexpected signal") && !strings.HasPrefix(l, "unexpected fault address") {
			continue
		}
		// the first goroutine listed after the message is the one that was running
		var stack []string
		headers := 0
		for _, m := range lines[i+1:] {
			if strings.HasPrefix(m, "goroutine ") {
				if headers++; headers > 1 {
					break
				}
			}
			stack = append(stack, m)
		}
		site = panicSite(strings.Join(stack, "\n"))
		if site == "outside-ws" {
			return "", "", false
		}
		return site, l, true
	}
	return "", "", false
}

func firstFatalLine(lines []string) string {
	for _, l := range lines {
		if strings.HasPrefix(l, "fatal error:") || strings.HasPrefix(l, "panic:") || strings.HasPrefix(l, "SIGQUIT") || strings.Contains(l, "out of memory") {
			return l
		}
	}
	if len(lines) > 0 {
		return lines[0]
	}
	return "no output"
}

var raceFuncRe = regexp.MustCompile(`^\s+([\w./\-\(\)\*]+)\(`)

// parseRaceLog counts race reports and returns one de-duplication key per
// report: the pair of outermost non-runtime entry points of the two stacks.
func parseRaceLog(s string) (int, []string) {
	blocks := strings.Split(s, "WARNING: DATA RACE")
	var keys []string
	for _, b := range blocks[1:] {
		if k := strings.Index(b, "=================="); k >= 0 {
			b = b[:k]
		}
		// stacks are separated by blank lines; take the first two.
		var stacks [][]string
		var cur []string
		for _, l := range strings.Split(b, "\n") {
			if strings.TrimSpace(l) == "" {
				if len(cur) > 0 {
					stacks = append(stacks, cur)
					cur = nil
				}
				continue
			}
			if m := raceFuncRe.FindStringSubmatch(l); m != nil {
				cur = append(cur, m[1])
			}
		}
		if len(cur) > 0 {
			stacks = append(stacks, cur)
		}
		inner := func(st []string) string {
			for _, f := range st {
				if strings.Contains(f, "gobwas/") {
					return f
				}
			}
			if len(st) > 0 {
				return st[0]
			}
			return "?"
		}
		a, c := "?", "?"
		if len(stacks) > 0 {
			a = inner(stacks[0])
		}
		if len(stacks) > 1 {
			c = inner(stacks[1])
		}
		if a > c {
			a, c = c, a
		}
		keys = append(keys, a+" <-> "+c)
	}
	return len(blocks) - 1, keys
}

// memWatchdog aborts the child when the heap explodes (a runaway allocation in
// the code under test); the supervisor then isolates the in-flight cases.
func memWatchdog(prop string) {
	limit := uint64(envInt("VERIF_MEM_LIMIT_MB", 12000)) << 20
	var ms runtime.MemStats
	for {
		time.Sleep(300 * time.Millisecond)
		runtime.ReadMemStats(&ms)
		if ms.HeapAlloc > limit {
			fmt.Fprintf(os.Stderr, "fatal error: memory watchdog: heap %d MiB exceeds %d MiB\n", ms.HeapAlloc>>20, limit>>20)
			os.Exit(2)
		}
	}
}
