//go:build shim

// C18 — reset or pooled reuse makes writers, readers and negotiators behave as new.
package main

import (
	"bytes"
	"compress/flate"
	"errors"
	"fmt"
	"io"
	"reflect"
	"strings"
	"sync"

	"github.com/gobwas/httphead"
	"github.com/gobwas/pool"
	"github.com/gobwas/ws"
	"github.com/gobwas/ws/wsflate"
	"github.com/gobwas/ws/wsutil"

	"verifharness/drive"
	"verifharness/gen"
	"verifharness/mon"
	"verifharness/ref"
	"verifharness/wops"
	"verifharness/xport"
)

// ------------------------------------------------------------ wsutil.Writer

type wcfg struct {
	side    ref.Side
	op      byte
	noFlush bool
	ext     bool
	// flags are the state bits that do not concern the writer (StateExtended on a connection with a
	// negotiated extension, StateFragmented): old and new state of a reset may share them
	flags ws.State
}

func (c wcfg) state() ws.State { return stateOf(c.side) | c.flags }

// emptyWriterPool has the geometry of wsutil's writer pool (pool.New(128, 65536)) and never holds anything.
var emptyWriterPool = pool.New(128, 65536)

var stateFlags = []ws.State{0, ws.StateExtended, ws.StateFragmented, ws.StateExtended | ws.StateFragmented}

func stateOf(s ref.Side) ws.State {
	switch s {
	case ref.SideServer:
		return ws.StateServerSide
	case ref.SideClient:
		return ws.StateClientSide
	}
	return 0
}

var rsv2 = wsutil.SendExtensionFunc(func(h ws.Header) (ws.Header, error) {
	if h.OpCode != ws.OpContinuation {
		h.Rsv |= 2
	}
	return h, nil
})

// trace applies ops and renders every observable: return values, accessors,
// and the frames that reached the destination per call (payloads unmasked, mask
// keys dropped: they are random).
func trace(w *wsutil.Writer, dst *xport.Rec, ops []wops.Op, feedStart int, seed int64) []string {
	feed := &wops.Feed{Pos: feedStart}
	var out []string
	parsed := 0
	for _, op := range ops {
		r := wops.Apply(w, op, feed, seed)
		all := dst.Bytes()
		frames, consumed, bad := ref.ParseFrames(all[parsed:])
		parsed += consumed
		var fs []string
		for _, f := range frames {
			fs = append(fs, fmt.Sprintf("[op=%x fin=%v rsv=%d m=%v %x]", f.H.Op, f.H.Fin, f.H.Rsv, f.H.Masked, f.Payload))
		}
		out = append(out, fmt.Sprintf("%s k=%d -> n=%d err=%v buffered=%d avail=%d size=%d sent=%s%s", r.Op, r.K, r.N, r.Err, r.Buffered, r.Avail, r.Size, strings.Join(fs, ""), bad))
	}
	return out
}

// freshLike builds a new writer with the same Size() as w for the configuration.
func freshLike(like *wsutil.Writer, dst io.Writer, cfg wcfg) *wsutil.Writer {
	size := like.Size()
	// "Same configuration" means the same underlying buffer length: two buffers
	// with equal Size() may still reserve different header room. The length is
	// read from the writer under test only to construct its twin.
	if rl := rawLen(like); rl > 0 {
		var w *wsutil.Writer
		func() {
			defer func() {
				if recover() != nil {
					w = nil
				}
			}()
			w = wsutil.NewWriterBuffer(dst, cfg.state(), ws.OpCode(cfg.op), make([]byte, rl))
		}()
		if w != nil && w.Size() == size {
			return w
		}
	}
	for _, extra := range []int{2, 4, 6, 8, 10, 14} {
		func() {
			defer func() { recover() }()
		}()
		n := size + extra
		var w *wsutil.Writer
		func() {
			defer func() {
				if recover() != nil {
					w = nil
				}
			}()
			w = wsutil.NewWriterBuffer(dst, cfg.state(), ws.OpCode(cfg.op), make([]byte, n))
		}()
		if w != nil && w.Size() == size {
			return w
		}
	}
	return nil
}

func rawLen(w *wsutil.Writer) (n int) {
	defer func() {
		if recover() != nil {
			n = 0
		}
	}()
	f := reflect.ValueOf(w).Elem().FieldByName("raw")
	if !f.IsValid() {
		return 0
	}
	return f.Len()
}

func diffTraces(a, b []string) (int, string, string) {
	for i := 0; i < len(a) || i < len(b); i++ {
		var x, y string
		if i < len(a) {
			x = a[i]
		}
		if i < len(b) {
			y = b[i]
		}
		if x != y {
			return i, x, y
		}
	}
	return -1, "", ""
}

func randOps(c *mon.C, n int) []wops.Op {
	alpha := wops.Alphabet()
	var ops []wops.Op
	for i := 0; i < n; i++ {
		op := alpha[c.Rng.Intn(len(alpha))]
		if c.Rng.Intn(4) == 0 {
			op = wops.Op{Kind: []int{wops.Write, wops.ReadFrom, wops.WriteThrough}[c.Rng.Intn(3)], Sel: -1, K: c.Rng.Intn(200)}
		}
		ops = append(ops, op)
	}
	return ops
}

func subWriterReset() mon.Sub {
	modes := []string{"Reset", "PutGet", "ResetOp"}
	return mon.Sub{
		Name: "writer-reset", Required: true,
		N: func(t string) int {
			if t == "thorough" {
				return 1500000
			}
			return 12000
		},
		Do: func(c *mon.C) {
			mode := modes[c.I%len(modes)]
			// history
			hcfg := wcfg{side: ref.Side(c.Rng.Intn(3)), op: []byte{ref.OpText, ref.OpBinary}[c.Rng.Intn(2)], noFlush: c.Rng.Intn(4) == 0, ext: c.Rng.Intn(3) == 0, flags: stateFlags[c.Rng.Intn(4)]}
			size := []int{8, 16, 100, 125, 126, 200, 4000}[c.Rng.Intn(7)]
			hdst := xport.NewRec()
			failing := mode != "ResetOp" && c.Rng.Intn(3) == 0
			if failing {
				hdst.FailAt = c.Rng.Intn(3)
				hdst.Sticky = c.Rng.Intn(2) == 0
				hdst.Err = errors.New("boom")
			}
			var a *wsutil.Writer
			var arenaNeighbours func() string
			arenaLen := 0
			if mode == "PutGet" && c.Rng.Intn(2) == 0 {
				a = wsutil.GetWriter(hdst, hcfg.state(), ws.OpCode(hcfg.op), 128<<uint(c.Rng.Intn(4)))
			} else if mode == "PutGet" {
				// a writer that was NOT born in the pool is handed to PutWriter as well
				a = wsutil.NewWriterSize(hdst, hcfg.state(), ws.OpCode(hcfg.op), []int{100, 120, 130, 200, 500, 1000, 2000, 5000}[c.Rng.Intn(8)])
			} else if c.Rng.Intn(3) == 0 {
				// a writer built on the application's own buffer, a slice CUT OUT of something larger: its length
				// is the writer's for good; what follows it in the arena (its spare capacity) never is
				var view []byte
				view, _, arenaNeighbours = xport.Arena3(make([]byte, size+14))
				arenaLen = len(view)
				a = wsutil.NewWriterBuffer(hdst, hcfg.state(), ws.OpCode(hcfg.op), view)
			} else {
				a = wsutil.NewWriterSize(hdst, hcfg.state(), ws.OpCode(hcfg.op), size)
			}
			// the application keeps ONE extension list per connection and attaches it by spreading
			// it (the usual pattern): the list stays the application's
			exts := []wsutil.SendExtension{rsv2}
			if hcfg.ext {
				a.SetExtensions(exts...)
			}
			if hcfg.noFlush {
				a.DisableFlush()
			}
			hops := randOps(c, c.Rng.Intn(8))
			size0 := a.Size()
			hist := trace(a, hdst, hops, 0, c.Rng.Int63())
			grew := a.Size() != size0
			// the configuration after the reset
			ncfg := wcfg{side: ref.Side(c.Rng.Intn(3)), op: []byte{ref.OpText, ref.OpBinary}[c.Rng.Intn(2)], flags: stateFlags[c.Rng.Intn(4)]}
			adst, bdst := xport.NewRec(), xport.NewRec()
			var b *wsutil.Writer
			sameObject := true
			switch mode {
			case "Reset":
				a.Reset(adst, ncfg.state(), ws.OpCode(ncfg.op))
				if arenaLen > 0 && !grew {
					// (the history never grew the buffer:) the twin is a new writer on a buffer of the length the
					// application GAVE
					func() {
						defer func() { recover() }()
						b = wsutil.NewWriterBuffer(bdst, ncfg.state(), ws.OpCode(ncfg.op), make([]byte, arenaLen))
					}()
				} else {
					b = freshLike(a, bdst, ncfg)
				}
			case "PutGet":
				sz := a.Size()
				wsutil.PutWriter(a)
				// the request: the old writer's Size(), the class above it, or an unrelated class
				n := []int{sz, 2 * sz, 128 << uint(c.Rng.Intn(7))}[c.Rng.Intn(3)]
				if n > 65536 {
					n = 65536
				}
				a2 := wsutil.GetWriter(adst, ncfg.state(), ws.OpCode(ncfg.op), n)
				// Whether or not the pool hands the old object back, the result must behave like the writer
				// GetWriter builds when its pool is empty: NewWriterBufferSize of the class size that an
				// EMPTY pool of the same geometry reports for n.
				sameObject = a2 == a
				a = a2
				_, m := emptyWriterPool.Get(n)
				b = wsutil.NewWriterBufferSize(bdst, ncfg.state(), ws.OpCode(ncfg.op), m)
			case "ResetOp":
				// keeps destination, state, extensions and flush mode; drops unflushed fragments
				ncfg = wcfg{side: hcfg.side, op: ncfg.op, noFlush: hcfg.noFlush, ext: hcfg.ext, flags: hcfg.flags}
				adst = hdst
				a.ResetOp(ws.OpCode(ncfg.op))
				b = freshLike(a, bdst, ncfg)
				if b != nil {
					if ncfg.ext {
						b.SetExtensions(rsv2)
					}
					if ncfg.noFlush {
						b.DisableFlush()
					}
				}
			}
			if b == nil {
				c.Inconclusive("cannot build a fresh writer with the same Size()")
				return
			}
			if exts[0] == nil {
				c.Fail("writer/"+mode+"/caller-extension-list", mode+" wrote into the extension list the application had attached with SetExtensions(list...)", map[string]interface{}{"mode": mode, "history": hist})
				return
			}
			if mode != "ResetOp" && c.Rng.Intn(2) == 0 {
				// the next connection attaches its extensions again: the application's list to the
				// re-used writer, an equal list to the new one
				ncfg.ext = true
				a.SetExtensions(exts...)
				b.SetExtensions([]wsutil.SendExtension{rsv2}...)
			}
			c.Count(1)
			sops := append(randOps(c, 1+c.Rng.Intn(12)), wops.Op{Kind: wops.Flush})
			seed := c.Rng.Int63()
			var ta []string
			if mode == "ResetOp" {
				// compare only what is sent from now on
				before := len(adst.Calls)
				sub := xport.NewRec()
				sub.Calls = nil
				ta = traceFrom(a, adst, before, sops, 1000, seed)
			} else {
				ta = trace(a, adst, sops, 1000, seed)
			}
			tb := trace(b, bdst, sops, 1000, seed)
			if i, x, y := diffTraces(ta, tb); i >= 0 {
				what := "other"
				switch {
				case strings.Contains(x, "err=boom") && !strings.Contains(y, "err=boom"):
					what = "sticky-error-survives"
				case strings.Contains(x, "rsv=2") != strings.Contains(y, "rsv=2"):
					what = "extensions"
				case extractField(x, "size=") != extractField(y, "size=") || extractField(x, "avail=") != extractField(y, "avail="):
					what = "buffer-geometry"
				case extractField(x, "sent=") != extractField(y, "sent="):
					what = "frames-sent"
				}
				c.Fail("writer/"+mode+"/"+what, fmt.Sprintf("after %s the writer differs from a new one at operation %d", mode, i),
					map[string]interface{}{"mode": mode, "history_config": fmt.Sprintf("%+v size=%d failing_dest=%v", hcfg, size, failing), "history": hist, "new_config": fmt.Sprintf("%+v", ncfg), "reused": x, "fresh": y, "op_index": i})
				return
			}
			if arenaNeighbours != nil {
				if w := arenaNeighbours(); w != "" {
					c.Fail("writer/"+mode+"/outside-callers-buffer", "a writer built with NewWriterBuffer on a slice of a larger buffer: "+w, map[string]interface{}{"mode": mode, "history": hist, "buffer_len": arenaLen})
					return
				}
			}
			c.Classf("%s|hist=%d|fail=%v|noflush=%v|ext=%v|side%d->%d|same=%v|arena=%v", mode, len(hops), failing, hcfg.noFlush, hcfg.ext, hcfg.side, ncfg.side, sameObject, arenaLen > 0)
			if mode == "PutGet" && sameObject {
				c.Run.AddExtra("putget_same_object_returned", 1)
			}
			c.Sample(map[string]interface{}{"mode": mode, "history": hist, "after": ta})
		},
	}
}

func extractField(s, key string) string {
	i := strings.Index(s, key)
	if i < 0 {
		return ""
	}
	r := s[i+len(key):]
	if key == "sent=" {
		return r
	}
	if j := strings.IndexByte(r, ' '); j >= 0 {
		return r[:j]
	}
	return r
}

// traceFrom is trace but ignores destination calls before index `from`.
func traceFrom(w *wsutil.Writer, dst *xport.Rec, from int, ops []wops.Op, feedStart int, seed int64) []string {
	view := xport.NewRec()
	feed := &wops.Feed{Pos: feedStart}
	var out []string
	parsed := 0
	seen := from
	for _, op := range ops {
		r := wops.Apply(w, op, feed, seed)
		for ; seen < len(dst.Calls); seen++ {
			view.Calls = append(view.Calls, dst.Calls[seen])
		}
		all := view.Bytes()
		frames, consumed, bad := ref.ParseFrames(all[parsed:])
		parsed += consumed
		var fs []string
		for _, f := range frames {
			fs = append(fs, fmt.Sprintf("[op=%x fin=%v rsv=%d m=%v %x]", f.H.Op, f.H.Fin, f.H.Rsv, f.H.Masked, f.Payload))
		}
		out = append(out, fmt.Sprintf("%s k=%d -> n=%d err=%v buffered=%d avail=%d size=%d sent=%s%s", r.Op, r.K, r.N, r.Err, r.Buffered, r.Avail, r.Size, strings.Join(fs, ""), bad))
	}
	return out
}

// ------------------------------------------------------------ wsflate.Writer / Reader

type hideReset struct{ c *flate.Writer }

func (h hideReset) Write(p []byte) (int, error) { return h.c.Write(p) }
func (h hideReset) Flush() error                { return h.c.Flush() }

type hideResetCloser struct{ hideReset }

func (h hideResetCloser) Close() error { return h.c.Close() }

type badCompressor struct{ w io.Writer }

func (b badCompressor) Write(p []byte) (int, error) { return b.w.Write(p) }
func (b badCompressor) Flush() error                { return nil }

func flateTrace(w *wsflate.Writer, dst *bytes.Buffer, msgs [][]byte) []string {
	var out []string
	for _, m := range msgs {
		n, err := w.Write(m)
		out = append(out, fmt.Sprintf("Write(%d) -> %d %v", len(m), n, err))
	}
	err := w.Flush()
	out = append(out, fmt.Sprintf("Flush -> %v dst=%x", err, dst.Bytes()))
	return out
}

// flateTraceEnd is flateTrace with a chosen way of ending the message:
// 0 Flush, 1 Close, 2 Flush then Close.
func flateTraceEnd(w *wsflate.Writer, dst *bytes.Buffer, msgs [][]byte, end int) []string {
	var out []string
	for _, m := range msgs {
		n, err := w.Write(m)
		out = append(out, fmt.Sprintf("Write(%d) -> %d %v", len(m), n, err))
	}
	if end != 1 {
		err := w.Flush()
		out = append(out, fmt.Sprintf("Flush -> %v dst=%x", err, dst.Bytes()))
	}
	if end != 0 {
		err := w.Close()
		out = append(out, fmt.Sprintf("Close -> %v dst=%x err=%v", err, dst.Bytes(), w.Err()))
	}
	return out
}

func subFlateWriter() mon.Sub {
	return mon.Sub{
		Name: "flate-writer-reset", Required: true,
		N: func(t string) int {
			if t == "thorough" {
				return 300000
			}
			return 3000
		},
		Do: func(c *mon.C) {
			// the compressor offers Reset (and Close), Close only, or neither of the optional methods
			ckind := c.I % 3
			resettable := ckind == 0
			ctor := func(w io.Writer) wsflate.Compressor {
				f, _ := flate.NewWriter(w, 6)
				switch ckind {
				case 0:
					return f
				case 1:
					return hideResetCloser{hideReset{f}}
				}
				return hideReset{f}
			}
			hkind := c.I / 3 % 7
			var a *wsflate.Writer
			hdesc := ""
			switch hkind {
			case 0: // partial writes, never flushed
				a = wsflate.NewWriter(io.Discard, ctor)
				a.Write(bytes.Repeat([]byte("history "), 1+c.Rng.Intn(500)))
				hdesc = "unflushed data"
			case 1: // flushed message
				a = wsflate.NewWriter(io.Discard, ctor)
				a.Write([]byte("flushed history"))
				a.Flush()
				hdesc = "flushed message"
			case 2: // failed destination
				rec := xport.NewRec()
				rec.FailAt, rec.Sticky = 0, true
				a = wsflate.NewWriter(rec, ctor)
				a.Write(bytes.Repeat([]byte("x"), 70000))
				a.Flush()
				hdesc = fmt.Sprintf("failed destination (err=%v)", a.Err())
			case 3: // bad compressor error: only possible with a compressor that misbehaves once
				a = wsflate.NewWriter(io.Discard, ctor)
				a.Write([]byte("abc"))
				a.Flush()
				a.Close()
				hdesc = "flushed and closed"
			case 4:
				a = wsflate.NewWriter(io.Discard, ctor)
				hdesc = "nothing"
			case 5, 6: // a random history of 1..6 operations, including messages without any Write (empty messages) and Resets in between
				rec := xport.NewRec()
				if hkind == 6 {
					rec.FailAt, rec.Sticky = c.Rng.Intn(3), true
				}
				a = wsflate.NewWriter(rec, ctor)
				for k, n := 0, 1+c.Rng.Intn(6); k < n; k++ {
					switch c.Rng.Intn(5) {
					case 0:
						a.Write(bytes.Repeat([]byte("h"), []int{0, 1, 20, 5000, 70000}[c.Rng.Intn(5)]))
						hdesc += "Write "
					case 1:
						a.Flush()
						hdesc += "Flush "
					case 2:
						a.Close()
						hdesc += "Close "
					case 3:
						a.Reset(rec)
						hdesc += "Reset "
					case 4:
						a.Write(nil)
						hdesc += "Write(nil) "
					}
				}
				hdesc = fmt.Sprintf("ops: %s(destination failing: %v)", hdesc, hkind == 6)
			}
			var adst, bdst bytes.Buffer
			a.Reset(&adst)
			b := wsflate.NewWriter(&bdst, ctor)
			c.Count(1)
			var msgs [][]byte
			for i, n := 0, c.Rng.Intn(5); i < n; i++ { // n = 0: an empty message
				m := bytes.Repeat([]byte{byte('a' + c.Rng.Intn(26))}, c.Rng.Intn(3000))
				msgs = append(msgs, m)
			}
			end := c.Rng.Intn(3)
			ta, tb := flateTraceEnd(a, &adst, msgs, end), flateTraceEnd(b, &bdst, msgs, end)
			if i, x, y := diffTraces(ta, tb); i < 0 && c.Rng.Intn(2) == 0 {
				// and a second message after another Reset on both
				adst.Reset()
				bdst.Reset()
				a.Reset(&adst)
				b.Reset(&bdst)
				m2 := [][]byte{bytes.Repeat([]byte("second"), c.Rng.Intn(200))}
				ta, tb = append(ta, flateTraceEnd(a, &adst, m2, 0)...), append(tb, flateTraceEnd(b, &bdst, m2, 0)...)
				_, _ = x, y
			}
			if i, x, y := diffTraces(ta, tb); i >= 0 {
				c.Fail(fmt.Sprintf("flate-writer/reset/history-%d", hkind), "a compression writer after Reset differs from a new one",
					map[string]interface{}{"history": hdesc, "resettable_compressor": resettable, "reused": trunc(x), "fresh": trunc(y), "step": i})
				return
			}
			c.Classf("hist=%d compressor=%d", hkind, ckind)
			c.Sample(map[string]interface{}{"history": hdesc, "resettable_compressor": resettable, "messages": len(msgs)})
		},
	}
}

func trunc(s string) string {
	if len(s) > 300 {
		return s[:300] + "..."
	}
	return s
}

func compress(p []byte) []byte {
	var b bytes.Buffer
	w, _ := flate.NewWriter(&b, 6)
	w.Write(p)
	w.Flush()
	out := b.Bytes()
	return out[:len(out)-4]
}

type noReset struct{ r io.Reader }

// Sources of kinds whose values cannot be compared with == (a func-typed adapter, a struct value holding a slice):
// legal io.Readers like any other.
type funcSrc func(p []byte) (int, error)

func (f funcSrc) Read(p []byte) (int, error) { return f(p) }

type sliceSrc struct {
	r   io.Reader
	tag []byte
}

func (s sliceSrc) Read(p []byte) (int, error) { return s.r.Read(p) }

func srcKind(kind int, r io.Reader) io.Reader {
	switch kind {
	case 1:
		return funcSrc(r.Read)
	case 2:
		return sliceSrc{r: r, tag: []byte("x")}
	}
	return r
}

// failClose / failCloseReset: decompressors whose Close reports an error.
type failClose struct{ r io.Reader }

func (f failClose) Read(p []byte) (int, error) { return f.r.Read(p) }
func (f failClose) Close() error               { return errors.New("decompressor: close failed") }

// readResetter is the adapter an application writes to let the Reader re-use its decompressor: wsflate's optional
// ReadResetter interface is Reset(io.Reader), compress/flate's own method is Reset(io.Reader, dict) error.
type readResetter struct {
	rc   io.ReadCloser
	dict []byte
}

func (r readResetter) Read(p []byte) (int, error) { return r.rc.Read(p) }
func (r readResetter) Close() error               { return r.rc.Close() }
func (r readResetter) Reset(src io.Reader)        { r.rc.(flate.Resetter).Reset(src, r.dict) }

type failCloseReset struct{ readResetter }

func (f failCloseReset) Close() error { return errors.New("decompressor: close failed") }

func (n noReset) Read(p []byte) (int, error) { return n.r.Read(p) }

func subFlateReader() mon.Sub {
	return mon.Sub{
		Name: "flate-reader-reset", Required: true,
		N: func(t string) int {
			if t == "thorough" {
				return 300000
			}
			return 3000
		},
		Do: func(c *mon.C) {
			resettable := c.I%2 == 0
			// one case in three: the application's constructor carries configuration of its own - a preset
			// dictionary both peers agreed on - which a reader after Reset has to have like a new one
			var dict []byte
			if c.I/12%3 == 1 {
				dict = []byte("history data history data AAAA BBBB CCCC DDDD {\"type\":\"message\",\"payload\":")
			}
			// one case in four: a decompressor whose Close reports an error (the Reader keeps it until the next Reset)
			closeFails := c.I/36%4 == 3
			ctor := func(r io.Reader) wsflate.Decompressor {
				f := flate.NewReader(r)
				if dict != nil {
					f = flate.NewReaderDict(r, dict)
				}
				switch {
				case closeFails && resettable:
					return failCloseReset{readResetter{f, dict}}
				case closeFails:
					return failClose{f}
				case resettable && c.I/4%2 == 0:
					return readResetter{f, dict} // re-used by the Reader through wsflate.ReadResetter
				case resettable:
					return f // compress/flate's reader as it is (its own Reset has another signature: a new one per Reset)
				}
				return noReset{f}
			}
			compress := func(p []byte) []byte {
				if dict == nil {
					return compress(p)
				}
				var b bytes.Buffer
				w, _ := flate.NewWriterDict(&b, 6, dict)
				w.Write(p)
				w.Flush()
				out := b.Bytes()
				return out[:len(out)-4]
			}
			hist := compress(bytes.Repeat([]byte("history data "), 1+c.Rng.Intn(300)))
			skind := c.I / 7 % 3 // the kind of io.Reader the sources are: as they come, func-typed, struct values
			hkind := c.I / 2 % 6
			hdesc := ""
			var a *wsflate.Reader
			switch hkind {
			case 0: // partial read
				a = wsflate.NewReader(bytes.NewReader(hist), ctor)
				io.ReadFull(a, make([]byte, 5))
				hdesc = "partial read"
			case 1: // complete read
				a = wsflate.NewReader(bytes.NewReader(hist), ctor)
				io.Copy(io.Discard, a)
				hdesc = "complete read"
			case 2: // corrupt stream
				bad := append([]byte(nil), hist...)
				for i := range bad {
					bad[i] ^= 0x5a
				}
				a = wsflate.NewReader(bytes.NewReader(bad), ctor)
				io.Copy(io.Discard, a)
				hdesc = "corrupt stream"
			case 3: // truncated source that fails
				a = wsflate.NewReader(xport.NewCutter(hist, xport.Plan{Kind: "fixed", K: 3}, len(hist)/2, xport.ErrInjected), ctor)
				io.Copy(io.Discard, a)
				a.Close()
				hdesc = "failing source"
			case 4:
				a = wsflate.NewReader(strings.NewReader(""), ctor)
				hdesc = "nothing"
			case 5: // random history: 1..3 sources of either kind (byte reader / plain), each read 0 / 1 / some / all bytes, closed or not, the compressed EMPTY message among them
				for k, n := 0, 1+c.Rng.Intn(3); k < n; k++ {
					data := hist
					if c.Rng.Intn(3) == 0 {
						data = compress(nil)
					}
					var hsrc io.Reader = xport.NewChunker(data, xport.Plans(c.Rng.Int63(), nil)[c.Rng.Intn(11)])
					kind := "plain"
					if c.Rng.Intn(2) == 0 {
						hsrc = xport.ByteChunker{Chunker: hsrc.(*xport.Chunker)}
						kind = "byte"
					}
					hsrc = srcKind(skind, hsrc)
					if a == nil {
						a = wsflate.NewReader(hsrc, ctor)
					} else {
						a.Reset(hsrc)
					}
					rd := []int{0, 1, 7, -1}[c.Rng.Intn(4)]
					if rd < 0 {
						io.Copy(io.Discard, a)
					} else if rd > 0 {
						io.ReadFull(a, make([]byte, rd))
					}
					cl := c.Rng.Intn(2) == 0
					if cl {
						a.Close()
						if c.Rng.Intn(3) == 0 {
							a.Close() // (and once more, as a deferred Close after an explicit one does)
							a.Read(make([]byte, 1))
						}
					}
					hdesc += fmt.Sprintf("[%s source of %d bytes, read %d, closed %v] ", kind, len(data), rd, cl)
				}
			}
			msg := bytes.Repeat([]byte{byte('A' + c.Rng.Intn(26)), ' '}, c.Rng.Intn(4000))
			comp := compress(msg)
			variant := c.Rng.Intn(3) // 0 intact, 1 truncated, 2 corrupted
			switch variant {
			case 1:
				comp = comp[:len(comp)/2]
			case 2:
				if len(comp) > 3 {
					comp[len(comp)/2] ^= 0xff
				}
			}
			plan := xport.Plans(c.Rng.Int63(), nil)[c.Rng.Intn(11)]
			byteReader := c.Rng.Intn(2) == 0
			src := func() io.Reader {
				ch := xport.NewChunker(comp, plan)
				if byteReader {
					return xport.ByteChunker{Chunker: ch}
				}
				return srcKind(skind, ch)
			}
			a.Reset(src())
			b := wsflate.NewReader(src(), ctor)
			c.Count(1)
			ra, ea := io.ReadAll(a)
			rb, eb := io.ReadAll(b)
			ca, cb := a.Close(), b.Close()
			if !bytes.Equal(ra, rb) || fmt.Sprint(ea) != fmt.Sprint(eb) || fmt.Sprint(ca) != fmt.Sprint(cb) {
				c.Fail(fmt.Sprintf("flate-reader/reset/history-%d", hkind), fmt.Sprintf("a decompression reader after Reset differs from a new one: %d bytes err=%v close=%v vs %d bytes err=%v close=%v", len(ra), ea, ca, len(rb), eb, cb),
					map[string]interface{}{"history": hdesc, "source_kind": []string{"as it comes", "func-typed", "struct value with a slice"}[skind], "resettable": resettable, "close_fails": closeFails, "preset_dictionary": dict != nil, "stream_variant": variant, "plan": plan.String(), "byte_reader": byteReader})
				return
			}
			if variant == 0 && (!bytes.Equal(rb, msg) || eb != nil) {
				c.Inconclusive("fresh reader does not recover the message (C12's business)")
				return
			}
			c.Classf("hist=%d resettable=%v variant=%d closefails=%v", hkind, resettable, variant, closeFails)
			c.Sample(map[string]interface{}{"history": hdesc, "stream_variant": variant})
		},
	}
}

// ------------------------------------------------------------ cipher / utf8 / extension

func subSmallObjects() mon.Sub {
	return mon.Sub{
		Name: "cipher-utf8-extension-reset", Required: true,
		N: func(t string) int {
			if t == "thorough" {
				return 1000000
			}
			return 10000
		},
		Do: func(c *mon.C) {
			c.Count(1)
			switch c.I % 4 {
			case 0: // CipherReader
				var k1, k2 [4]byte
				c.Rng.Read(k1[:])
				c.Rng.Read(k2[:])
				a := wsutil.NewCipherReader(bytes.NewReader(make([]byte, 100)), k1)
				io.ReadFull(a, make([]byte, c.Rng.Intn(50)))
				data := make([]byte, c.Rng.Intn(300))
				c.Rng.Read(data)
				plan := xport.Plans(c.Rng.Int63(), nil)[c.Rng.Intn(11)]
				a.Reset(xport.NewChunker(data, plan), k2)
				b := wsutil.NewCipherReader(xport.NewChunker(data, plan), k2)
				ra, _ := io.ReadAll(a)
				rb, _ := io.ReadAll(b)
				if !bytes.Equal(ra, rb) || !bytes.Equal(rb, ref.Mask(data, k2, 0)) {
					c.Fail("cipher-reader/reset", "CipherReader after Reset differs from a new one", map[string]interface{}{"len": len(data)})
					return
				}
				c.Class("cipher-reader")
			case 1: // CipherWriter
				var k1, k2 [4]byte
				c.Rng.Read(k1[:])
				c.Rng.Read(k2[:])
				a := wsutil.NewCipherWriter(io.Discard, k1)
				a.Write(make([]byte, c.Rng.Intn(50)))
				var da, db bytes.Buffer
				a.Reset(&da, k2)
				b := wsutil.NewCipherWriter(&db, k2)
				for i := 0; i < 3; i++ {
					p := make([]byte, c.Rng.Intn(100))
					c.Rng.Read(p)
					a.Write(p)
					b.Write(p)
				}
				if !bytes.Equal(da.Bytes(), db.Bytes()) {
					c.Fail("cipher-writer/reset", "CipherWriter after Reset differs from a new one", nil)
					return
				}
				c.Class("cipher-writer")
			case 2: // UTF8Reader
				hist := [][]byte{{0xe2, 0x82}, {0xff, 'a'}, []byte("ok"), {0xf0, 0x9f}, nil}[c.Rng.Intn(5)]
				a := wsutil.NewUTF8Reader(bytes.NewReader(hist))
				io.Copy(io.Discard, a)
				data := [][]byte{[]byte("plain"), []byte("é€\U0001F600"), {0x82, 0xac}, {0xe2, 0x82}, {0xc0, 0xaf}, nil, []byte("a\xffb")}[c.Rng.Intn(7)]
				plan := xport.Plans(c.Rng.Int63(), nil)[c.Rng.Intn(11)]
				a.Reset(xport.NewChunker(data, plan))
				b := wsutil.NewUTF8Reader(xport.NewChunker(data, plan))
				buf := make([]byte, 1+c.Rng.Intn(4))
				run := func(u *wsutil.UTF8Reader) string {
					var s []string
					for {
						n, err := u.Read(buf)
						s = append(s, fmt.Sprintf("%d %v acc=%d", n, err, u.Accepted()))
						if err != nil {
							break
						}
					}
					return strings.Join(s, ";") + fmt.Sprintf(" valid=%v", u.Valid())
				}
				sa, sb := run(a), run(b)
				if sa != sb {
					c.Fail("utf8-reader/reset", "UTF8Reader after Reset differs from a new one", map[string]interface{}{"history": fmt.Sprintf("%x", hist), "data": fmt.Sprintf("%x", data), "reused": sa, "fresh": sb})
					return
				}
				c.Classf("utf8 hist=%x", hist)
			case 3: // wsflate.Extension
				cfg := wsflate.Parameters{ServerNoContextTakeover: c.Rng.Intn(2) == 0, ClientMaxWindowBits: wsflate.WindowBits([]int{0, 10, 15}[c.Rng.Intn(3)]), ServerMaxWindowBits: wsflate.WindowBits([]int{0, 9, 15}[c.Rng.Intn(3)])}
				offers := []string{"permessage-deflate", "permessage-deflate; client_max_window_bits", "permessage-deflate; server_max_window_bits=12; client_max_window_bits=12", "permessage-deflate; server_no_context_takeover", "permessage-deflate; bogus", "other-ext"}
				parse := func(s string) httphead.Option { o, _ := httphead.ParseOptions([]byte(s), nil); return o[0] }
				a := &wsflate.Extension{Parameters: cfg}
				for i := 0; i < c.Rng.Intn(4); i++ {
					a.Negotiate(parse(offers[c.Rng.Intn(len(offers))]))
				}
				a.Reset()
				if c.Rng.Intn(2) == 0 {
					// "the same configuration": the application may have re-configured the negotiator it re-uses
					cfg = wsflate.Parameters{ServerNoContextTakeover: c.Rng.Intn(2) == 0, ClientNoContextTakeover: c.Rng.Intn(2) == 0, ClientMaxWindowBits: wsflate.WindowBits([]int{0, 9, 12}[c.Rng.Intn(3)]), ServerMaxWindowBits: wsflate.WindowBits([]int{0, 8, 11}[c.Rng.Intn(3)])}
					a.Parameters = cfg
				}
				b := &wsflate.Extension{Parameters: cfg}
				for i := 0; i < 3; i++ {
					o := offers[c.Rng.Intn(len(offers))]
					xa, ea := a.Negotiate(parse(o))
					xb, eb := b.Negotiate(parse(o))
					pa, oka := a.Accepted()
					pb, okb := b.Accepted()
					if !xa.Equal(xb) || fmt.Sprint(ea) != fmt.Sprint(eb) || pa != pb || oka != okb {
						c.Fail("extension/reset", "negotiator after Reset differs from a new one", map[string]interface{}{"config": fmt.Sprintf("%+v", cfg), "offer": o})
						return
					}
				}
				c.Class("extension")
			}
		},
	}
}

// ------------------------------------------------------------ wsutil.Reader: next message as a new reader

var (
	enumOnce sync.Once
	msgs     [][]gen.Shape
)

func messages() [][]gen.Shape {
	enumOnce.Do(func() {
		for _, s := range gen.EnumShapes(3, []int{0, 3}, []int{2}, true) {
			// exactly one data message, possibly with control frames around/inside
			n := 0
			for _, f := range s {
				if f.Op == ref.OpText || f.Op == ref.OpBinary {
					n++
				}
			}
			if n == 1 && !ref.IsControl(s[len(s)-1].Op) {
				msgs = append(msgs, s)
			}
		}
	})
	return msgs
}

func subReaderNext() mon.Sub {
	return mon.Sub{
		Name: "reader-next-message", Exhaustive: true, Required: true,
		N: func(string) int { m := len(messages()); return m * m },
		Do: func(c *mon.C) {
			ms := messages()
			s1, s2 := ms[c.I/len(ms)], ms[c.I%len(ms)]
			side := []ref.Side{ref.SideServer, ref.SideClient}[c.I%2]
			f1 := gen.Build(s1, side, c.Rng, true)
			f2 := gen.Build(s2, side, c.Rng, true)
			if c.I%3 == 2 {
				// a reader that takes frames of either direction (no side bit in its State: a proxy, a traffic analyser):
				// the first message's frames are masked and the second's are not, or the other way round - control
				// frames between fragments included. What the reader keeps from message to message is not the masking.
				f1 = gen.Build(s1, side, c.Rng, true)
				f2 = gen.Build(s2, []ref.Side{ref.SideClient, ref.SideServer}[c.I%2], c.Rng, true)
				side = ref.SideNone
			}
			if c.I%5 == 3 {
				// the peer masks all its frames with one key
				k := [4]byte{0x11, 0x22, 0x33, byte(c.I)}
				for _, fs := range [][]ref.Frame{f1, f2} {
					for i := range fs {
						if fs[i].H.Masked {
							fs[i].H.Mask = k
						}
					}
				}
			}
			// make the first message's text end in the middle of a code point when discarded after one byte
			for i := range f1 {
				if !ref.IsControl(f1[i].H.Op) && len(f1[i].Payload) == 3 {
					f1[i].Payload = []byte("€")
				}
			}
			b1, _, _ := gen.Encode(f1)
			b2, _, _ := gen.Encode(f2)
			plans := xport.Plans(c.Rng.Int63(), nil)
			// the first message is read to its end, or discarded after k bytes: before the first byte, in the
			// middle of a code point, exactly on a fragment boundary (3, 6), past its end
			// ... or taken with one io.ReadFull of exactly the announced length (-2; unfragmented messages only), so that
			// the reader never reports its end. In half of the cases a stand-alone ping (payload no UTF-8) sits
			// between the two messages.
			if c.I%2 == 0 {
				pf := gen.Build([]gen.Shape{{Op: ref.OpPing, Fin: true, Len: 2 + c.I%5}}, side, c.Rng, true)
				pb, _, _ := gen.Encode(pf)
				b2 = append(pb, b2...)
			}
			for _, dk := range []int{-1, 1, 0, 3, 6, 9, -2} {
				discard := dk >= 0
				c.Count(1)
				plan := plans[(c.I+1)%len(plans)]
				o := drive.Opts{Entry: "reader", Side: side, CheckUTF8: true, Buf: []int{1, 3, 64}[c.I%3], ExactRead: dk == -2}
				if discard {
					o.Discard = map[int]int{0: dk}
				}
				a := drive.Run(xport.NewChunker(append(append([]byte(nil), b1...), b2...), plan), o)
				ob := o
				ob.Discard = nil
				ob.ExactRead = false
				o.ExactRead = false // (the expected events of the first message are the same however it was consumed)
				b := drive.Run(xport.NewChunker(b2, plan), ob)
				// the events of the second message as seen by the long-lived reader
				ev1 := drive.Expect(f1, o)
				if len(a.Events) < len(ev1) {
					c.Fail("reader/first-message", "the first message was not delivered", nil)
					return
				}
				got := a.Events[len(ev1):]
				if d := drive.Diff(got, b.Events, true); d != "" || fmt.Sprint(a.Err) != fmt.Sprint(b.Err) {
					c.Fail(fmt.Sprintf("reader/next-message/discard=%v", discard), "a reader that finished a message reads the next one differently from a new reader: "+d,
						map[string]interface{}{"first": gen.ShapesKey(s1), "second": gen.ShapesKey(s2), "discarded_first": discard, "discarded_after_bytes": dk, "side": side, "reused": drive.EventStrings(got), "fresh": drive.EventStrings(b.Events), "err_reused": fmt.Sprint(a.Err), "err_fresh": fmt.Sprint(b.Err)})
					return
				}
			}
			c.Classf("%s|%s", gen.ShapeClass(s1), gen.ShapeClass(s2))
			c.Sample(map[string]interface{}{"first": gen.ShapesKey(s1), "second": gen.ShapesKey(s2)})
		},
	}
}

func main() {
	mon.Main(&mon.Spec{
		Property: "C18",
		Level:    "exploration",
		Rule: "differential against a freshly constructed instance with the same configuration (same destination kind, state, opcode and Size()): object A goes through a history, is reset (or put into and taken from the pool; pool shim in LIFO+poison mode so the same object comes back, poisoned), then the same operation sequence S is applied to A and to a new B and every observable is compared (return values, Buffered/Available/Size, frames reaching the destination per call with payloads unmasked). " +
			"wsutil.Writer: histories of 0-7 random ops incl. failing destinations (one-shot or sticky), Grow, DisableFlush, SetExtensions, any side, partial messages; modes Reset / PutWriter+GetWriter / ResetOp (error-free histories; keeps extensions and flush mode); S = 1-12 random ops + Flush. wsflate.Writer.Reset after unflushed data / flushed / failed destination / closed, compressors offering Reset / Close only / neither. wsflate.Reader.Reset after partial read / complete read / corrupt stream / failing source, intact/truncated/corrupted next stream, byte-reader and plain sources. CipherReader/Writer, UTF8Reader (mid code point, after reject), wsflate.Extension. wsutil.Reader: every ordered pair of enumerated messages, first one read or discarded after 0/1/3/6/9 bytes (before it, mid code point, on a fragment boundary, past its end), vs a new Reader on the second. distinct = (mode, history shape) classes.",
		Assumptions: []string{"for wsutil.Writer 'same configuration' includes the same Size(): a grown buffer stays grown", "UTF8Reader.Accepted() before the first read after a reset is not compared", "ResetOp is only compared after error-free histories (its documentation does not speak about errors)"},
		Setup:       func(r *mon.Run) { pool.Configure(true, pool.ReuseLIFO, false, false) },
		Subs:        []mon.Sub{subWriterReset(), subFlateWriter(), subFlateReader(), subSmallObjects(), subReaderNext()},
	})
}
