// Package wsx converts between the reference types and the library's types.
package wsx

import (
	"github.com/gobwas/ws"

	"verifharness/ref"
)

func ToWS(h ref.Header) ws.Header {
	return ws.Header{Fin: h.Fin, Rsv: h.Rsv, OpCode: ws.OpCode(h.Op), Masked: h.Masked, Mask: h.Mask, Length: h.Length}
}

func FromWS(h ws.Header) ref.Header {
	return ref.Header{Fin: h.Fin, Rsv: h.Rsv, Op: byte(h.OpCode), Masked: h.Masked, Mask: h.Mask, Length: h.Length}
}

// State returns the ws.State of a receiving endpoint.
func State(side ref.Side, extended, fragmented bool) ws.State {
	var s ws.State
	switch side {
	case ref.SideServer:
		s |= ws.StateServerSide
	case ref.SideClient:
		s |= ws.StateClientSide
	}
	if extended {
		s |= ws.StateExtended
	}
	if fragmented {
		s |= ws.StateFragmented
	}
	return s
}
