// Package fakeconn holds scripted in-memory net.Conn implementations.
package fakeconn

import (
	"bytes"
	"io"
	"net"
	"sync"
	"time"

	"verifharness/xport"
)

// Script is a synchronous scripted peer: everything written is recorded; the
// first Read after a write computes the peer's answer from what was written so
// far and serves it under a chunk plan.
type Script struct {
	mu      sync.Mutex
	Written bytes.Buffer
	Respond func(written []byte) []byte
	Plan    xport.Plan
	resp    *xport.Chunker
	Closed  bool
	Events  []string
	// WriteErrAt: fail the k-th Write call (1-based; 0 = never).
	WriteErrAt int
	writes     int
	// EndErr, when set, is what Read returns once the scripted response is exhausted (instead of io.EOF): the
	// connection fails at that point; WriteErr is what a failing Write returns (default xport.ErrInjected).
	EndErr   error
	WriteErr error
}

func (s *Script) Read(p []byte) (int, error) {
	s.mu.Lock()
	defer s.mu.Unlock()
	if s.Closed {
		return 0, io.ErrClosedPipe
	}
	if s.resp == nil {
		s.resp = xport.NewChunker(s.Respond(s.Written.Bytes()), s.Plan)
	}
	n, err := s.resp.Read(p)
	if err == io.EOF && s.EndErr != nil {
		err = s.EndErr
	}
	return n, err
}

func (s *Script) Write(p []byte) (int, error) {
	s.mu.Lock()
	defer s.mu.Unlock()
	if s.Closed {
		return 0, io.ErrClosedPipe
	}
	s.writes++
	if s.WriteErrAt > 0 && s.writes >= s.WriteErrAt {
		if s.WriteErr != nil {
			return 0, s.WriteErr
		}
		return 0, xport.ErrInjected
	}
	s.Written.Write(p)
	return len(p), nil
}

func (s *Script) ev(e string) {
	s.mu.Lock()
	s.Events = append(s.Events, e)
	s.mu.Unlock()
}

func (s *Script) Close() error {
	s.mu.Lock()
	s.Closed = true
	s.Events = append(s.Events, "Close")
	s.mu.Unlock()
	return nil
}
func (s *Script) LocalAddr() net.Addr                { return &net.TCPAddr{} }
func (s *Script) RemoteAddr() net.Addr               { return &net.TCPAddr{} }
func (s *Script) SetDeadline(t time.Time) error      { s.ev("SetDeadline"); return nil }
func (s *Script) SetReadDeadline(t time.Time) error  { s.ev("SetReadDeadline"); return nil }
func (s *Script) SetWriteDeadline(t time.Time) error { s.ev("SetWriteDeadline"); return nil }

// Delivered reports how many response bytes have been handed out.
func (s *Script) Delivered() int {
	if s.resp == nil {
		return 0
	}
	return s.resp.Pos
}
