package fakeconn

import (
	"io"
	"net"
	"os"
	"sync"
	"time"
)

// half is one direction of a buffered in-memory duplex (unbounded buffer, like
// a socket buffer that never fills).
type half struct {
	mu     sync.Mutex
	cond   *sync.Cond
	buf    []byte
	closed bool // writer side closed: readers get EOF after draining
	rdl    time.Time
	wake   *time.Timer
}

func newHalf() *half {
	h := &half{}
	h.cond = sync.NewCond(&h.mu)
	return h
}

// BufConn is one end of BufPipe.
type BufConn struct {
	r, w   *half
	closed bool
	mu     sync.Mutex
}

// BufPipe returns a connected pair of buffered in-memory connections. Writes
// never block; reads block until data, EOF (peer closed), local close, or the
// read deadline.
func BufPipe() (*BufConn, *BufConn) {
	a, b := newHalf(), newHalf()
	return &BufConn{r: a, w: b}, &BufConn{r: b, w: a}
}

func (c *BufConn) Read(p []byte) (int, error) {
	h := c.r
	h.mu.Lock()
	defer h.mu.Unlock()
	for {
		c.mu.Lock()
		cl := c.closed
		c.mu.Unlock()
		if cl {
			return 0, io.ErrClosedPipe
		}
		if len(h.buf) > 0 {
			n := copy(p, h.buf)
			h.buf = h.buf[n:]
			return n, nil
		}
		if h.closed {
			return 0, io.EOF
		}
		if !h.rdl.IsZero() && !time.Now().Before(h.rdl) {
			return 0, os.ErrDeadlineExceeded
		}
		h.cond.Wait()
	}
}

func (c *BufConn) Write(p []byte) (int, error) {
	c.mu.Lock()
	cl := c.closed
	c.mu.Unlock()
	if cl {
		return 0, io.ErrClosedPipe
	}
	h := c.w
	h.mu.Lock()
	defer h.mu.Unlock()
	if h.closed {
		return 0, io.ErrClosedPipe
	}
	h.buf = append(h.buf, p...)
	h.cond.Broadcast()
	return len(p), nil
}

func (c *BufConn) Close() error {
	c.mu.Lock()
	c.closed = true
	c.mu.Unlock()
	c.w.mu.Lock()
	c.w.closed = true
	c.w.cond.Broadcast()
	c.w.mu.Unlock()
	c.r.mu.Lock()
	c.r.cond.Broadcast()
	c.r.mu.Unlock()
	return nil
}

func (c *BufConn) LocalAddr() net.Addr  { return &net.TCPAddr{} }
func (c *BufConn) RemoteAddr() net.Addr { return &net.TCPAddr{} }

func (c *BufConn) SetDeadline(t time.Time) error { return c.SetReadDeadline(t) }

func (c *BufConn) SetReadDeadline(t time.Time) error {
	h := c.r
	h.mu.Lock()
	h.rdl = t
	if h.wake != nil {
		h.wake.Stop()
		h.wake = nil
	}
	if !t.IsZero() {
		d := time.Until(t)
		if d < 0 {
			d = 0
		}
		h.wake = time.AfterFunc(d, func() {
			h.mu.Lock()
			h.cond.Broadcast()
			h.mu.Unlock()
		})
	}
	h.cond.Broadcast()
	h.mu.Unlock()
	return nil
}

func (c *BufConn) SetWriteDeadline(t time.Time) error { return nil }
