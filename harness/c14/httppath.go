package main

import (
	"bufio"
	"bytes"
	"net"
	"net/http"
	"strings"
	"time"

	"github.com/gobwas/httphead"
	"github.com/gobwas/ws"
)

// httpUpgrade runs one request through ws.HTTPUpgrader (the net/http path: header lines arrive as a []string) with
// the given negotiator and returns what was written to the hijacked connection.
type sinkConn struct{ bytes.Buffer }

func (*sinkConn) Read([]byte) (int, error)         { return 0, net.ErrClosed }
func (*sinkConn) Close() error                     { return nil }
func (*sinkConn) LocalAddr() net.Addr              { return &net.TCPAddr{} }
func (*sinkConn) RemoteAddr() net.Addr             { return &net.TCPAddr{} }
func (*sinkConn) SetDeadline(time.Time) error      { return nil }
func (*sinkConn) SetReadDeadline(time.Time) error  { return nil }
func (*sinkConn) SetWriteDeadline(time.Time) error { return nil }

type hijackWriter struct {
	hdr  http.Header
	conn *sinkConn
}

func (h *hijackWriter) Header() http.Header         { return h.hdr }
func (h *hijackWriter) Write(p []byte) (int, error) { return h.conn.Write(p) }
func (h *hijackWriter) WriteHeader(int)             {}
func (h *hijackWriter) Hijack() (net.Conn, *bufio.ReadWriter, error) {
	return h.conn, bufio.NewReadWriter(bufio.NewReader(h.conn), bufio.NewWriter(h.conn)), nil
}

func httpUpgrade(req string, negotiate func(httphead.Option) (httphead.Option, error)) (written []byte, hs ws.Handshake, err error, ok bool) {
	r, perr := http.ReadRequest(bufio.NewReader(strings.NewReader(req)))
	if perr != nil {
		return nil, hs, perr, false
	}
	w := &hijackWriter{hdr: http.Header{}, conn: &sinkConn{}}
	_, _, hs, err = ws.HTTPUpgrader{Negotiate: negotiate}.Upgrade(r, w)
	return w.conn.Bytes(), hs, err, true
}
