// C14 — permessage-deflate negotiation answers every offer as RFC 7692 §7.1 requires.
package main

import (
	"bytes"
	"fmt"
	"strconv"
	"strings"

	"github.com/gobwas/httphead"
	"github.com/gobwas/ws"
	"github.com/gobwas/ws/wsflate"

	"verifharness/mon"
	"verifharness/ref"
	"verifharness/xport"
)

var cfgBits = []int{0, 8, 9, 10, 11, 12, 13, 14, 15}
var offBitsC = []int{0, 1, 8, 9, 10, 11, 12, 13, 14, 15}

func cfgOf(i int) wsflate.Parameters {
	return wsflate.Parameters{
		ServerNoContextTakeover: i&1 != 0,
		ClientNoContextTakeover: i&2 != 0,
		ServerMaxWindowBits:     wsflate.WindowBits(cfgBits[i/4%9]),
		ClientMaxWindowBits:     wsflate.WindowBits(cfgBits[i/36%9]),
	}
}

const nCfg = 4 * 9 * 9

func offerOf(i int) ref.PMCE {
	return ref.PMCE{
		ServerNoContextTakeover: i&1 != 0,
		ClientNoContextTakeover: i&2 != 0,
		ServerMaxWindowBits:     cfgBits[i/4%9],
		ClientMaxWindowBits:     offBitsC[i/36%10],
	}
}

const nOffer = 4 * 9 * 10

func optionOf(p ref.PMCE, order int) httphead.Option {
	o := httphead.Option{Name: []byte("permessage-deflate")}
	type kv struct{ k, v string }
	var ps []kv
	if p.ServerNoContextTakeover {
		ps = append(ps, kv{"server_no_context_takeover", ""})
	}
	if p.ClientNoContextTakeover {
		ps = append(ps, kv{"client_no_context_takeover", ""})
	}
	if p.ServerMaxWindowBits != 0 {
		ps = append(ps, kv{"server_max_window_bits", strconv.Itoa(p.ServerMaxWindowBits)})
	}
	switch {
	case p.ClientMaxWindowBits == 1:
		ps = append(ps, kv{"client_max_window_bits", ""})
	case p.ClientMaxWindowBits != 0:
		ps = append(ps, kv{"client_max_window_bits", strconv.Itoa(p.ClientMaxWindowBits)})
	}
	// rotate the parameter order; and the in-memory form of the option: a value-less parameter as a nil value (what
	// the header scanner hands over), as an empty non-nil slice (what Option.Clone / Copy / NewOption(..., "") make
	// of it), the whole option cloned (a Negotiate wrapper keeping its argument), or re-parsed from its wire text
	repr := (order / 5) % 4
	for i := range ps {
		x := ps[(i+order)%len(ps)]
		var v []byte
		if x.v != "" {
			v = []byte(x.v)
		} else if repr == 1 {
			v = []byte{}
		}
		o.Parameters.Set([]byte(x.k), v)
	}
	switch repr {
	case 2:
		o = o.Clone()
	case 3:
		if opts, ok := httphead.ParseOptions([]byte(optionText(o)), nil); ok && len(opts) == 1 {
			o = opts[0]
		}
	}
	return o
}

func optionText(o httphead.Option) string {
	var b strings.Builder
	b.Write(o.Name)
	o.Parameters.ForEach(func(k, v []byte) bool {
		b.WriteString("; ")
		b.Write(k)
		if len(v) > 0 {
			b.WriteString("=")
			b.Write(v)
		}
		return true
	})
	return b.String()
}

// parseAnswer turns a response option into ref.PMCE, reporting syntax problems.
func parseAnswer(o httphead.Option) (p ref.PMCE, problems []string) {
	if string(o.Name) != "permessage-deflate" {
		problems = append(problems, fmt.Sprintf("answer names %q", o.Name))
	}
	seen := map[string]bool{}
	o.Parameters.ForEach(func(k, v []byte) bool {
		name := string(k)
		if seen[name] {
			problems = append(problems, "duplicate parameter "+name+" in the response")
		}
		seen[name] = true
		bits := func() int {
			if len(v) == 0 {
				return 1
			}
			n, err := strconv.Atoi(string(v))
			if err != nil {
				problems = append(problems, fmt.Sprintf("%s=%q is not a number", name, v))
				return -1
			}
			return n
		}
		switch name {
		case "server_no_context_takeover":
			p.ServerNoContextTakeover = true
			if len(v) > 0 {
				problems = append(problems, name+" carries a value")
			}
		case "client_no_context_takeover":
			p.ClientNoContextTakeover = true
			if len(v) > 0 {
				problems = append(problems, name+" carries a value")
			}
		case "server_max_window_bits":
			p.ServerMaxWindowBits = bits()
		case "client_max_window_bits":
			p.ClientMaxWindowBits = bits()
		default:
			problems = append(problems, "unknown parameter "+name+" in the response")
		}
		return true
	})
	return p, problems
}

func sigOf(why string) string {
	switch {
	case strings.Contains(why, "server_max_window_bits") && strings.Contains(why, "larger"):
		return "server_max_window_bits-larger-than-requested"
	case strings.Contains(why, "server_max_window_bits") && strings.Contains(why, "has none"):
		return "server_max_window_bits-missing"
	case strings.Contains(why, "client_max_window_bits") && strings.Contains(why, "did not offer"):
		return "client_max_window_bits-not-offered"
	case strings.Contains(why, "client_max_window_bits") && strings.Contains(why, "larger"):
		return "client_max_window_bits-larger-than-offered"
	case strings.Contains(why, "server_no_context_takeover"):
		return "server_no_context_takeover-missing"
	case strings.Contains(why, "outside"):
		return "window-out-of-range"
	case strings.Contains(why, "without a value"):
		return "window-without-value"
	}
	return "other"
}

// negotiateOne runs a fresh negotiator on a single offer.
func negotiateOne(cfg wsflate.Parameters, offer ref.PMCE, order int) (accepted bool, ans httphead.Option, err error) {
	e := wsflate.Extension{Parameters: cfg}
	ans, err = e.Negotiate(optionOf(offer, order))
	return ans.Size() > 0, ans, err
}

func checkAnswer(c *mon.C, where string, cfg wsflate.Parameters, offer ref.PMCE, ans httphead.Option, extra map[string]interface{}) bool {
	a, problems := parseAnswer(ans)
	det := map[string]interface{}{"config": fmt.Sprintf("%+v", cfg), "offer": offer.String(), "answer": optionText(ans), "where": where}
	for k, v := range extra {
		det[k] = v
	}
	if len(problems) > 0 {
		c.Fail("answer/syntax/"+where, "malformed response parameters: "+strings.Join(problems, "; "), det)
		return false
	}
	if why := ref.PMCEIllegal(offer, a); len(why) > 0 {
		c.Fail("answer/illegal/"+sigOf(why[0]), "illegal answer to the offer: "+strings.Join(why, "; "), det)
		return false
	}
	return true
}

func subGrid() mon.Sub {
	return mon.Sub{
		Name: "single-offer-grid", Exhaustive: true, Required: true,
		N: func(string) int { return nCfg },
		Do: func(c *mon.C) {
			cfg := cfgOf(c.I)
			accepted := 0
			for oi := 0; oi < nOffer; oi++ {
				offer := offerOf(oi)
				c.Count(1)
				if (oi+c.I)%2 == 0 {
					// the process serves other endpoints too, configured differently (larger windows, other flags):
					// one of them has just negotiated - an equal offer, or another one. Negotiators share nothing.
					other := cfgOf((c.I*7 + oi*13 + 5) % nCfg)
					if (oi+c.I)%4 == 0 {
						other = cfg
						other.ClientMaxWindowBits, other.ServerMaxWindowBits = 15, 15
					}
					otherOffer := offer
					if oi%3 == 0 {
						otherOffer = offerOf((oi*11 + c.I) % nOffer)
					}
					negotiateOne(other, otherOffer, oi)
				}
				ok, ans, err := negotiateOne(cfg, offer, oi+c.I)
				if err != nil {
					c.Fail("grid/error", "Negotiate returns an error for a well-formed offer: "+err.Error(), map[string]interface{}{"config": fmt.Sprintf("%+v", cfg), "offer": offer.String()})
					return
				}
				if !ok {
					continue
				}
				accepted++
				if !checkAnswer(c, "grid", cfg, offer, ans, nil) {
					return
				}
				c.Classf("cfg=%d offerClass=%d", c.I, oi%36)
			}
			c.Classf("cfg=%d accepted=%d", c.I, accepted)
			c.Sample(map[string]interface{}{"config": fmt.Sprintf("%+v", cfg), "offers": nOffer, "accepted": accepted})
		},
	}
}

// lists of offers: at most one accepted; it is the first one a fresh negotiator accepts alone
func subLists() mon.Sub {
	return mon.Sub{
		Name: "offer-lists", Required: true,
		N: func(t string) int {
			if t == "thorough" {
				return 2000000
			}
			return 20000
		},
		Do: func(c *mon.C) {
			cfg := cfgOf(c.Rng.Intn(nCfg))
			n := 1 + c.Rng.Intn(3)
			type item struct {
				deflate bool
				offer   ref.PMCE
				opt     httphead.Option
			}
			var items []item
			var texts []string
			for i := 0; i < n; i++ {
				if c.Rng.Intn(4) == 0 {
					o := httphead.Option{Name: []byte([]string{"x-webkit-deflate-frame", "foo", "permessage-bzip"}[c.Rng.Intn(3)])}
					if c.Rng.Intn(2) == 0 {
						o.Parameters.Set([]byte("a"), []byte("1"))
					}
					items = append(items, item{opt: o})
					texts = append(texts, optionText(o))
				}
				of := offerOf(c.Rng.Intn(nOffer))
				o := optionOf(of, c.Rng.Intn(4))
				items = append(items, item{deflate: true, offer: of, opt: o})
				texts = append(texts, optionText(o))
			}
			viaHeader := c.Rng.Intn(3) == 0
			det := map[string]interface{}{"config": fmt.Sprintf("%+v", cfg), "offers": texts, "via_header": viaHeader}
			// expected: index of the first deflate offer a fresh negotiator accepts alone
			want := -1
			for i, it := range items {
				if !it.deflate {
					continue
				}
				ok, _, err := negotiateOne(cfg, it.offer, 0)
				if err != nil {
					c.Fail("lists/error", "Negotiate error on a well-formed offer: "+err.Error(), det)
					return
				}
				if ok {
					want = i
					break
				}
			}
			c.Count(1)
			var answers []httphead.Option
			var acceptedIdx []int
			e := &wsflate.Extension{Parameters: cfg}
			if viaHeader {
				// the real header path: ws.Upgrader feeds the textual header to Negotiate
				var extLines []string
				if c.Rng.Intn(2) == 0 {
					extLines = []string{strings.Join(texts, ", ")}
				} else {
					extLines = texts
				}
				// (header order is not important, RFC 6455 4.2.1: the offers sit anywhere among the mandatory headers)
				req := reqWithExt(extLines, c.Rng.Intn(6))
				det["extensions_header_position"] = strings.Index(req, "Sec-WebSocket-Extensions")
				// more header lines BEHIND the offers, a small read buffer and a transport that delivers the request
				// in pieces: the buffer the offers were read into is refilled before the handshake ends
				for k := c.Rng.Intn(4); k > 0; k-- {
					req += fmt.Sprintf("X-Trailer-%d: %s\r\n", k, strings.Repeat("permessage-deflate; bogus, ", c.Rng.Intn(20)))
				}
				req += "\r\n"
				plans := xport.Plans(c.Rng.Int63(), nil)
				if pk := c.Rng.Intn(8); pk < 5 {
					// the process has served other clients before this one: a handshake (its own upgrader, its own
					// negotiator) whose extensions header breaks the list grammar behind a well-formed offer, or that was
					// refused for another reason after its offers had been read. Nothing of it may reach this client.
					pre := "GET / HTTP/1.1\r\nHost: x\r\nUpgrade: websocket\r\nConnection: Upgrade\r\nSec-WebSocket-Version: 13\r\n"
					pre += []string{
						"Sec-WebSocket-Key: dGhlIHNhbXBsZSBub25jZQ==\r\nSec-WebSocket-Extensions: permessage-deflate; client_max_window_bits, =[\r\n",
						"Sec-WebSocket-Key: dGhlIHNhbXBsZSBub25jZQ==\r\nSec-WebSocket-Extensions: permessage-deflate; server_max_window_bits=10; client_no_context_takeover, ;;\r\n",
						"Sec-WebSocket-Key: dGhlIHNhbXBsZSBub25jZQ==\r\nSec-WebSocket-Extensions: x-foo; a=1\r\nSec-WebSocket-Extensions: permessage-deflate, \"\r\n",
						"Sec-WebSocket-Extensions: permessage-deflate; client_max_window_bits=9\r\n",
						"Sec-WebSocket-Key: dGhlIHNhbXBsZSBub25jZQ==\r\nSec-WebSocket-Extensions: permessage-deflate; server_no_context_takeover; bogus=1\r\n",
					}[pk]
					pe := &wsflate.Extension{Parameters: wsflate.Parameters{}}
					ws.Upgrader{Negotiate: pe.Negotiate}.Upgrade(xport.RW{Reader: strings.NewReader(pre + "\r\n"), Writer: xport.NewRec()})
					det["earlier_refused_handshake_in_this_process"] = pk
				}
				u := ws.Upgrader{Negotiate: e.Negotiate, ReadBufferSize: []int{0, 64, 128, 256, 512}[c.Rng.Intn(5)]}
				det["read_buffer"], det["plan"] = u.ReadBufferSize, plans[c.I%len(plans)].String()
				hs, err := u.Upgrade(xport.RW{Reader: xport.NewChunker([]byte(req), plans[c.I%len(plans)]), Writer: xport.NewRec()})
				if err != nil {
					c.Fail("lists/header-path-error", "upgrade with well-formed offers failed: "+err.Error(), det)
					return
				}
				answers = hs.Extensions
				if len(answers) == 1 {
					acceptedIdx = []int{want} // position is not observable through the header path; legality checked below
				}
			} else {
				for i, it := range items {
					ans, err := e.Negotiate(it.opt)
					if err != nil {
						c.Fail("lists/error", "Negotiate error on a well-formed offer: "+err.Error(), det)
						return
					}
					if ans.Size() > 0 {
						answers = append(answers, ans)
						acceptedIdx = append(acceptedIdx, i)
					}
				}
			}
			det["accepted_positions"] = acceptedIdx
			if len(answers) > 1 {
				c.Fail("lists/more-than-one", fmt.Sprintf("%d permessage-deflate offers accepted in one handshake", len(answers)), det)
				return
			}
			if want == -1 && len(answers) != 0 {
				c.Fail("lists/accepted-unacceptable", "an offer was accepted although a fresh negotiator accepts none of them alone", det)
				return
			}
			if want >= 0 && len(answers) == 0 {
				c.Fail("lists/none-accepted", fmt.Sprintf("no offer accepted although offer #%d is acceptable", want), det)
				return
			}
			if len(answers) == 1 {
				if acceptedIdx[0] != want {
					c.Fail("lists/not-first-acceptable", fmt.Sprintf("offer #%d accepted, the first acceptable one is #%d", acceptedIdx[0], want), det)
					return
				}
				if !checkAnswer(c, "lists", cfg, items[want].offer, answers[0], det) {
					return
				}
				if p, ok := e.Accepted(); !ok || !sameParams(p, items[want].offer) {
					c.Fail("lists/accepted-params", fmt.Sprintf("Accepted() reports %+v %v, the accepted offer was %s", p, ok, items[want].offer), det)
					return
				}
			}
			c.Classf("n=%d want=%d via=%v", len(items), want, viaHeader)
			c.Sample(det)
		},
	}
}

// reqWithExt builds an upgrade request whose Sec-WebSocket-Extensions lines sit at position pos (0..5) among the five
// mandatory headers.
func reqWithExt(extLines []string, pos int) string {
	hdrs := []string{"Host: x", "Upgrade: websocket", "Connection: Upgrade", "Sec-WebSocket-Version: 13", "Sec-WebSocket-Key: dGhlIHNhbXBsZSBub25jZQ=="}
	req := "GET / HTTP/1.1\r\n"
	for i := 0; i <= len(hdrs); i++ {
		if i == pos {
			for _, l := range extLines {
				req += "Sec-WebSocket-Extensions: " + l + "\r\n"
			}
		}
		if i < len(hdrs) {
			req += hdrs[i] + "\r\n"
		}
	}
	return req
}

func sameParams(p wsflate.Parameters, o ref.PMCE) bool {
	return p.ServerNoContextTakeover == o.ServerNoContextTakeover && p.ClientNoContextTakeover == o.ClientNoContextTakeover &&
		int(p.ServerMaxWindowBits) == o.ServerMaxWindowBits && int(p.ClientMaxWindowBits) == o.ClientMaxWindowBits
}

// malformed offers must be rejected as errors
func subMalformed() mon.Sub {
	type bad struct {
		name string
		kvs  [][2]string // value "\x00" = no value
	}
	nv := "\x00"
	names := []string{"server_no_context_takeover", "client_no_context_takeover", "server_max_window_bits", "client_max_window_bits"}
	good := map[string]string{"server_no_context_takeover": nv, "client_no_context_takeover": nv, "server_max_window_bits": "10", "client_max_window_bits": "10"}
	var cases []bad
	cases = append(cases, bad{"unknown-parameter", [][2]string{{"foo", nv}}}, bad{"unknown-parameter-with-value", [][2]string{{"server_max_window", "10"}}}, bad{"unknown-after-valid", [][2]string{{"client_max_window_bits", nv}, {"x", "1"}}})
	// names that are not byte-equal to a defined one are not defined: RFC 7692 defines the four names in lower
	// case and RFC 6455 §9.1 gives extension parameters no case folding (near misses by letter case, by a
	// separator, by a trailing character)
	for _, n := range names {
		title := strings.ToUpper(n[:1]) + n[1:]
		for _, v := range []string{strings.ToUpper(n), title, strings.ReplaceAll(n, "_", "-"), n + "s"} {
			cases = append(cases, bad{"unknown-near-miss/" + v, [][2]string{{v, good[n]}}})
		}
	}
	for _, n := range names {
		cases = append(cases, bad{"duplicate/" + n + "/same", [][2]string{{n, good[n]}, {n, good[n]}}})
		if good[n] != nv {
			cases = append(cases, bad{"duplicate/" + n + "/value-then-bare", [][2]string{{n, good[n]}, {n, nv}}})
			cases = append(cases, bad{"duplicate/" + n + "/bare-then-value", [][2]string{{n, nv}, {n, good[n]}}})
			cases = append(cases, bad{"duplicate/" + n + "/different-values", [][2]string{{n, "9"}, {n, "12"}}})
			for _, v := range []string{"7", "16", "0", "255", "abc", "1 5", "-8", "8.0", "99999999999999999999",
				// values congruent to a valid one modulo 2^64 / 2^32 / 2^16 / 2^8 (a conversion that wraps silently)
				"18446744073709551624", "18446744073709551631", "36893488147419103242", "4294967304", "4294967311", "65544", "65551", "264", "271",
				"+8", "+15", "0xA", "1e1", "10.", "1_0", "١٠"} {
				cases = append(cases, bad{"ill-valued/" + n + "/" + v, [][2]string{{n, v}}})
			}
		} else {
			cases = append(cases, bad{"value-on-flag/" + n, [][2]string{{n, "1"}}}, bad{"value-on-flag/" + n + "/true", [][2]string{{n, "true"}}})
		}
	}
	cases = append(cases, bad{"bare/client_max_window_bits/twice", [][2]string{{"client_max_window_bits", nv}, {"client_max_window_bits", nv}}})
	cases = append(cases, bad{"no-value/server_max_window_bits", [][2]string{{"server_max_window_bits", nv}}})
	return mon.Sub{
		Name: "malformed-offers", Exhaustive: true, Required: true,
		N: func(string) int { return len(cases) },
		Do: func(c *mon.C) {
			b := cases[c.I]
			// each malformed list alone, and embedded after/before valid parameters, against several configurations
			for ci := 0; ci < nCfg; ci += 7 {
				for emb := 0; emb < 3; emb++ {
					c.Count(1)
					o := httphead.Option{Name: []byte("permessage-deflate")}
					if emb == 1 {
						o.Parameters.Set([]byte("client_no_context_takeover"), nil)
					}
					skip := false
					for _, kv := range b.kvs {
						if emb == 1 && kv[0] == "client_no_context_takeover" {
							skip = true
						}
						var v []byte
						if kv[1] != nv {
							v = []byte(kv[1])
						}
						o.Parameters.Set([]byte(kv[0]), v)
					}
					if emb == 2 {
						if b.kvs[0][0] == "server_no_context_takeover" {
							skip = true
						}
						o.Parameters.Set([]byte("server_no_context_takeover"), nil)
					}
					if skip {
						continue
					}
					e := wsflate.Extension{Parameters: cfgOf(ci)}
					ans, err := e.Negotiate(o)
					if err == nil {
						c.Fail("malformed/accepted/"+b.name, fmt.Sprintf("malformed offer %q produced no error (answer %q)", optionText(o), optionText(ans)), map[string]interface{}{"offer": optionText(o), "config": fmt.Sprintf("%+v", cfgOf(ci)), "answer": optionText(ans)})
						return
					}
					var p wsflate.Parameters
					if perr := p.Parse(o); perr == nil {
						c.Fail("malformed/parse-accepted/"+b.name, fmt.Sprintf("Parameters.Parse accepts malformed %q", optionText(o)), nil)
						return
					}
					// the same offer through the real header path, alone and with neighbours in the same / another
					// header line, before and after it: the handshake must fail and no 101 may be written
					if ci%21 == 0 {
						bad := optionText(o)
						for li, lines := range [][]string{{bad}, {bad + ", x-foo"}, {bad + ", permessage-deflate"}, {"x-foo; a=1, " + bad}, {"x-foo", bad + ", x-bar"}, {bad, "permessage-deflate"}, {bad, "x-foo", "permessage-deflate"}, {"permessage-deflate; client_no_context_takeover; client_no_context_takeover=1", bad}} {
							c.Count(1)
							req := reqWithExt(lines, (li+ci/21+c.I)%6)
							he := &wsflate.Extension{Parameters: cfgOf(ci)}
							rec := xport.NewRec()
							_, uerr := ws.Upgrader{Negotiate: he.Negotiate}.Upgrade(xport.RW{Reader: strings.NewReader(req + "\r\n"), Writer: rec})
							// ... and through the net/http based upgrader, which gets the lines as a []string
							hne := &wsflate.Extension{Parameters: cfgOf(ci)}
							if hw, _, herr, reached := httpUpgrade(req+"\r\n", hne.Negotiate); reached && (herr == nil || bytes.HasPrefix(hw, []byte("HTTP/1.1 101"))) {
								c.Fail("malformed/http-header-path-accepted/"+b.name, fmt.Sprintf("an HTTPUpgrader upgrade whose Sec-WebSocket-Extensions lines %q contain a malformed permessage-deflate offer succeeded (err=%v)", lines, herr),
									map[string]interface{}{"lines": lines, "shape": li, "config": fmt.Sprintf("%+v", cfgOf(ci)), "response": string(hw)})
								return
							}
							if uerr == nil || bytes.HasPrefix(rec.Bytes(), []byte("HTTP/1.1 101")) {
								c.Fail("malformed/header-path-accepted/"+b.name, fmt.Sprintf("an upgrade whose Sec-WebSocket-Extensions lines %q contain a malformed permessage-deflate offer succeeded (err=%v)", lines, uerr),
									map[string]interface{}{"lines": lines, "shape": li, "config": fmt.Sprintf("%+v", cfgOf(ci)), "response": string(rec.Bytes())})
								return
							}
						}
					}
				}
			}
			c.Classf("%s", b.name)
			c.Sample(map[string]interface{}{"malformed": b.name, "params": b.kvs})
		},
	}
}

func subInverse() mon.Sub {
	return mon.Sub{
		Name: "parse-option-inverse", Exhaustive: true, Required: true,
		N: func(string) int { return nOffer },
		Do: func(c *mon.C) {
			of := offerOf(c.I)
			p := wsflate.Parameters{ServerNoContextTakeover: of.ServerNoContextTakeover, ClientNoContextTakeover: of.ClientNoContextTakeover, ServerMaxWindowBits: wsflate.WindowBits(of.ServerMaxWindowBits), ClientMaxWindowBits: wsflate.WindowBits(of.ClientMaxWindowBits)}
			opt := p.Option()
			var q wsflate.Parameters
			if err := q.Parse(opt); err != nil || q != p {
				c.Fail("inverse/parse-of-option", fmt.Sprintf("Parse(Option(%+v)) = %+v, %v", p, q, err), nil)
				return
			}
			// ... also when the option went through a copy on its way (Clone keeps names and values, in its own memory)
			var q2 wsflate.Parameters
			if err := q2.Parse(opt.Clone()); err != nil || q2 != p {
				c.Fail("inverse/parse-of-cloned-option", fmt.Sprintf("Parse(Option(%+v).Clone()) = %+v, %v", p, q2, err), nil)
				return
			}
			// and the other way round, through the wire text
			text := optionText(optionOf(of, c.I))
			opts, ok := httphead.ParseOptions([]byte(text), nil)
			if !ok || len(opts) != 1 {
				c.Inconclusive("httphead cannot parse generated text")
				return
			}
			var r wsflate.Parameters
			if err := r.Parse(opts[0]); err != nil || !sameParams(r, of) {
				c.Fail("inverse/parse-text", fmt.Sprintf("Parse(%q) = %+v, %v", text, r, err), nil)
				return
			}
			if a, probs := parseAnswer(r.Option()); len(probs) > 0 || !sameParams(r, a) {
				c.Fail("inverse/option-of-parse", fmt.Sprintf("Option(Parse(%q)) = %q", text, optionText(r.Option())), nil)
				return
			}
			c.Classf("%s", of.String())
			c.Sample(map[string]interface{}{"parameters": fmt.Sprintf("%+v", p), "text": optionText(opt)})
		},
	}
}

func subReset() mon.Sub {
	return mon.Sub{
		Name: "reset-behaves-as-new", Required: true,
		N: func(t string) int {
			if t == "thorough" {
				return 1000000
			}
			return 10000
		},
		Do: func(c *mon.C) {
			cfg := cfgOf(c.Rng.Intn(nCfg))
			e := &wsflate.Extension{Parameters: cfg}
			var hist []string
			acceptedAlready := false
			for i, n := 0, 1+c.Rng.Intn(4); i < n; i++ {
				var o httphead.Option
				switch c.Rng.Intn(4) {
				case 0: // parse error
					o = httphead.Option{Name: []byte("permessage-deflate")}
					o.Parameters.Set([]byte("server_max_window_bits"), []byte("99"))
				case 1:
					o = httphead.Option{Name: []byte("other")}
				default:
					o = optionOf(offerOf(c.Rng.Intn(nOffer)), i)
				}
				ans, err := e.Negotiate(o)
				hist = append(hist, fmt.Sprintf("%s -> %q %v", optionText(o), optionText(ans), err))
				// WITHOUT a reset in between: until an offer has been accepted every offer is judged on its own, as a
				// new negotiator would judge it (a refused or malformed one leaves nothing behind); afterwards every
				// permessage-deflate offer is declined
				if acceptedAlready {
					if optionText(ans) != "" || err != nil {
						c.Fail("no-reset/second-accept", fmt.Sprintf("an offer after the accepted one was answered %q, %v (at most one offer is accepted)", optionText(ans), err), map[string]interface{}{"config": fmt.Sprintf("%+v", cfg), "history": hist})
						return
					}
					continue
				}
				fresh := &wsflate.Extension{Parameters: cfg}
				fa, ferr := fresh.Negotiate(o)
				if optionText(ans) != optionText(fa) || fmt.Sprint(err) != fmt.Sprint(ferr) {
					c.Fail("no-reset/differs", fmt.Sprintf("offer %d of a negotiator that had not accepted anything yet was answered %q, %v; a new negotiator answers %q, %v", i, optionText(ans), err, optionText(fa), ferr), map[string]interface{}{"config": fmt.Sprintf("%+v", cfg), "history": hist})
					return
				}
				_, acceptedAlready = fresh.Accepted()
			}
			e.Reset()
			// what a new negotiator reports before it has seen anything - and after a handshake that offered
			// no permessage-deflate at all - is what a reset one reports
			{
				fresh := &wsflate.Extension{Parameters: cfg}
				if c.Rng.Intn(2) == 0 {
					foreign := httphead.Option{Name: []byte("x-foreign")}
					e.Negotiate(foreign)
					fresh.Negotiate(foreign)
				}
				p1, ok1 := e.Accepted()
				p2, ok2 := fresh.Accepted()
				if p1 != p2 || ok1 != ok2 {
					c.Fail("reset/accepted-before-offer", fmt.Sprintf("Accepted() of a reset negotiator reports %+v, %v before any new permessage-deflate offer; a new one reports %+v, %v", p1, ok1, p2, ok2), map[string]interface{}{"config": fmt.Sprintf("%+v", cfg), "history": hist})
					return
				}
			}
			for k := 0; k < 6; k++ {
				c.Count(1)
				of := offerOf(c.Rng.Intn(nOffer))
				if c.Rng.Intn(3) == 0 {
					// the application re-configures the (exported) Parameters of the negotiator it re-uses:
					// from now on it is a negotiator of the new configuration
					cfg = cfgOf(c.Rng.Intn(nCfg))
					e.Parameters = cfg
					hist = append(hist, fmt.Sprintf("Parameters = %+v", cfg))
				}
				fresh := &wsflate.Extension{Parameters: cfg}
				a1, e1 := e.Negotiate(optionOf(of, k))
				a2, e2 := fresh.Negotiate(optionOf(of, k))
				p1, ok1 := e.Accepted()
				p2, ok2 := fresh.Accepted()
				if optionText(a1) != optionText(a2) || fmt.Sprint(e1) != fmt.Sprint(e2) || p1 != p2 || ok1 != ok2 {
					c.Fail("reset/differs", "a negotiator after Reset answers differently from a new one", map[string]interface{}{"config": fmt.Sprintf("%+v", cfg), "history": hist, "offer": of.String(), "after_reset": optionText(a1), "fresh": optionText(a2)})
					return
				}
				e.Reset()
			}
			c.Classf("hist=%d", len(hist))
			c.Sample(map[string]interface{}{"config": fmt.Sprintf("%+v", cfg), "history": hist})
		},
	}
}

func main() {
	mon.Main(&mon.Spec{
		Property: "C14",
		Level:    "exploration",
		Rule: "exhaustive: the full grid of 324 server configurations (2x2x9x9) x 360 single offers (2x2x9x10) = 116640 negotiations by fresh negotiators, each accepted answer parsed and checked against RFC 7692 §7.1 legality (ref.PMCEIllegal); all malformed parameter lists (unknown names incl. near misses of the defined ones by letter case / separator / a trailing character, each parameter duplicated same/value-then-bare/bare-then-value/different, values {7,16,0,255,abc,'1 5',-8,8.0,10^20-1, valid+k*2^64/2^32/2^16/2^8, +8, 0xA, 1e1, '10.', 1_0, non-ASCII digits}, value on a flag, no value on server_max_window_bits) alone and embedded among valid parameters x 47 configurations must yield an error from Negotiate and Parse, and through the real ws.Upgrader header path (alone, followed / preceded by other extensions in the same or another header line) must fail the handshake without a 101; Parse/Option inverse for all 360 parameter sets through the wire text. " +
			"sampled: lists of up to 3 offers (+ non-deflate extensions in between) negotiated by one negotiator directly and through the real ws.Upgrader header path (single header and repeated headers, more header lines behind the offers, read buffers 64..512 and chunked delivery so that the read buffer is refilled after the offers were seen): at most one accepted, it is the first one a fresh negotiator accepts alone, its answer is legal, Accepted() reports it; negotiators after 1-4 negotiations (accept/decline/parse error/foreign extension) + Reset vs new ones. distinct = (config, offer class) etc.",
		Assumptions: []string{"parameter names are compared as written: RFC 7692 defines the four names in lower case and RFC 6455 gives extension parameters no case folding, so a name differing by letter case is an undefined parameter", "ref.PMCEIllegal transcribes RFC 7692 §7.1.1-7.1.2 / the clauses of the statement", "declining an acceptable offer is not a violation", "leading zeros in window values are left open"},
		Subs:        []mon.Sub{subGrid(), subLists(), subMalformed(), subInverse(), subReset()},
	})
}
