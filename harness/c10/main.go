// C10 — the client handshake sends a compliant request and accepts only a valid 101.
package main

import (
	"bufio"
	"bytes"
	"context"
	"errors"
	"fmt"
	"io"
	"math/rand"
	"net"
	"net/http"
	"net/url"
	"runtime"
	"strings"
	"time"

	"github.com/gobwas/httphead"
	"github.com/gobwas/ws"

	"verifharness/fakeconn"
	"verifharness/gen"
	"verifharness/mon"
	"verifharness/ref"
	"verifharness/xport"
)

// DCfg is a dialer configuration.
type DCfg struct {
	Protocols []string
	Exts      []string // option strings, e.g. "permessage-deflate; client_max_window_bits"
	Header    string   // nil|string|bytes|func|http
	Host      string
	RBuf      int
	WBuf      int
	// Callbacks: 0 none; 1 OnHeader (accepting) and OnStatusError recording what they are given;
	// 2 OnHeader vetoing the first header it is shown
	Callbacks int
}

func (d DCfg) String() string {
	return fmt.Sprintf("protocols=%v exts=%v header=%s host=%q rbuf=%d wbuf=%d callbacks=%d", d.Protocols, d.Exts, d.Header, d.Host, d.RBuf, d.WBuf, d.Callbacks)
}

var errVeto = errors.New("monitor: header vetoed by the application")

var technical = map[string]bool{"upgrade": true, "connection": true, "sec-websocket-accept": true, "sec-websocket-protocol": true, "sec-websocket-extensions": true}

var (
	protoLists = [][]string{nil, {"chat"}, {"chat", "superchat"}, {"json", "mqtt", "chat.v2"}}
	extLists   = [][]string{nil, {"permessage-deflate"}, {"permessage-deflate; client_max_window_bits; server_max_window_bits=10", "foo; a=1"}}
	hdrKinds   = []string{"nil", "string", "bytes", "func", "http", "http-hostile"}
	bufSizes   = []int{0, 16, 64, 4096}
	urls       = []string{"ws://example.com/", "ws://example.com", "ws://example.com:8080/chat", "ws://example.com/a/b?x=1&y=%20z", "ws://[::1]/v6", "ws://[2001:db8::1]:9000/v6?q=1",
		"wss://example.com/", "wss://secure.example.com:8443/p?q", "wss://[::1]/", "wss://[::1]:9443/x", "ws://10.0.0.1:81/?only=query", "ws://host-with-dash.example/ws/",
		// paths whose wire form differs from their decoded form (escapes net/url keeps, escapes it normalises, RawPath set or not), forced empty query
		"ws://example.com/chat%20room", "ws://example.com/caf%C3%A9/ws", "ws://example.com/a%2Fb/c", "ws://example.com/what%3Fnow?really=yes", "wss://example.com/say%22hi%22",
		"ws://example.com/p?", "ws://example.com//double//slash", "ws://example.com/a;b=c/d,e", "ws://example.com/?a=b%23c", "ws://example.com:8080/%25/%41?%3D=%26", "ws://example.com/ws/~user/(x)/a+b/a:b@c"}
)

// randURL assembles a ws/wss URL from path segments and queries in escaped and unescaped spellings.
func randURL(rng *rand.Rand) string {
	hosts := []string{"example.com", "example.com:8080", "[::1]", "[2001:db8::1]:9000", "10.0.0.1:81"}
	segs := []string{"a", "chat", "%20", "%2F", "%3F", "%23", "%C3%A9", "~", "-._", "(x)", "a+b", "a:b", "@", "%25", "%41", "x%20y", "", "é", "%e2%82%ac", "!$&'*"}
	qs := []string{"", "", "?", "?x=1", "?q=%20&r=%2F", "?a=b=c", "?%C3%A9", "?a+b"}
	u := []string{"ws://", "wss://"}[rng.Intn(2)] + hosts[rng.Intn(len(hosts))]
	for k := rng.Intn(4); k > 0; k-- {
		u += "/" + segs[rng.Intn(len(segs))]
	}
	if rng.Intn(3) == 0 {
		u += "/"
	}
	return u + qs[rng.Intn(len(qs))]
}

func extraHeader(kind string) ws.HandshakeHeader {
	const text = "X-Client: abc\r\nCookie: k=v; k2=v2\r\n"
	switch kind {
	case "string":
		return ws.HandshakeHeaderString(text)
	case "bytes":
		return ws.HandshakeHeaderBytes(text)
	case "func":
		return ws.HandshakeHeaderFunc(func(w io.Writer) (int64, error) { n, err := io.WriteString(w, text); return int64(n), err })
	case "http":
		return ws.HandshakeHeaderHTTP(http.Header{"X-Client": {"abc"}, "Cookie": {"k=v; k2=v2"}})
	case "http-hostile":
		// an http.Header filled from untrusted input: line breaks inside values, padding, a name that is
		// not a field name. Whatever the adapter makes of them, the request stays ONE well-formed head.
		return ws.HandshakeHeaderHTTP(http.Header{"X-Client": {"abc"}, "Cookie": {"k=v; k2=v2"},
			"X-Multi": {"a\nb", "x\r\nX-Injected: yes"}, "X-Tail": {" padded \r\n"}, "Bad Key": {"v"}})
	}
	return nil
}

func buildDialer(cfg DCfg) ws.Dialer {
	d := ws.Dialer{ReadBufferSize: cfg.RBuf, WriteBufferSize: cfg.WBuf, Protocols: cfg.Protocols, Host: cfg.Host, Header: extraHeader(cfg.Header)}
	for _, e := range cfg.Exts {
		opts, _ := httphead.ParseOptions([]byte(e), nil)
		d.Extensions = append(d.Extensions, opts...)
	}
	return d
}

// checkRequest validates the bytes the dialer wrote.
func checkRequest(c *mon.C, cfg DCfg, u *url.URL, written []byte, det map[string]interface{}) (info gen.ReqInfo, ok bool) {
	det["request"] = string(written)
	fail := func(sig, what string) (gen.ReqInfo, bool) {
		c.Fail("request/"+sig, what, det)
		return info, false
	}
	if !bytes.HasSuffix(written, []byte("\r\n\r\n")) {
		return fail("not-terminated", "request does not end with an empty CRLF line")
	}
	for i, b := range written {
		if b == '\n' && (i == 0 || written[i-1] != '\r') {
			return fail("bare-lf", "request contains a bare LF")
		}
	}
	rd := bytes.NewReader(written)
	br := bufio.NewReader(rd)
	req, err := http.ReadRequest(br)
	if err != nil {
		return fail("unparsable", "net/http cannot parse the request: "+err.Error())
	}
	if br.Buffered()+rd.Len() != 0 {
		return fail("trailing", "bytes follow the request head")
	}
	if req.Method != "GET" || req.Proto != "HTTP/1.1" {
		return fail("line", fmt.Sprintf("request line is %s %s", req.Method, req.Proto))
	}
	if req.RequestURI != u.RequestURI() {
		return fail("uri", fmt.Sprintf("request-URI %q, want %q", req.RequestURI, u.RequestURI()))
	}
	wantHost := u.Host
	if cfg.Host != "" {
		wantHost = cfg.Host
	}
	if req.Host != wantHost {
		return fail("host", fmt.Sprintf("Host %q, want %q", req.Host, wantHost))
	}
	one := func(name, want string, fold bool) bool {
		v := req.Header.Values(name)
		if len(v) != 1 {
			fail("header-count/"+name, fmt.Sprintf("%d %s headers", len(v), name))
			return false
		}
		if want != "" && v[0] != want && !(fold && strings.EqualFold(v[0], want)) {
			fail("header-value/"+name, fmt.Sprintf("%s: %q, want %q", name, v[0], want))
			return false
		}
		return true
	}
	if !one("Upgrade", "websocket", true) || !one("Connection", "Upgrade", true) || !one("Sec-Websocket-Version", "13", false) || !one("Sec-Websocket-Key", "", false) {
		return info, false
	}
	info.Key = req.Header.Get("Sec-Websocket-Key")
	if !ref.KeyIsBase64Of16(info.Key) {
		return fail("key", fmt.Sprintf("key %q is not the base64 form of 16 bytes", info.Key))
	}
	// subprotocols
	pv := req.Header.Values("Sec-Websocket-Protocol")
	if len(cfg.Protocols) == 0 {
		if len(pv) != 0 {
			return fail("protocols", "subprotocol header sent although none configured")
		}
	} else {
		var got []string
		for _, h := range pv {
			for _, t := range strings.Split(h, ",") {
				got = append(got, strings.TrimSpace(t))
			}
		}
		if strings.Join(got, "|") != strings.Join(cfg.Protocols, "|") {
			return fail("protocols", fmt.Sprintf("subprotocols sent %v, configured %v", got, cfg.Protocols))
		}
	}
	info.Protocols = cfg.Protocols
	// extensions
	var want, got []httphead.Option
	for _, e := range cfg.Exts {
		want, _ = httphead.ParseOptions([]byte(e), want)
	}
	for _, h := range req.Header.Values("Sec-Websocket-Extensions") {
		var pok bool
		got, pok = httphead.ParseOptions([]byte(h), got)
		if !pok {
			return fail("extensions", "extensions header does not parse")
		}
	}
	if len(got) != len(want) {
		return fail("extensions", fmt.Sprintf("%d extensions sent, %d configured", len(got), len(want)))
	}
	for i := range want {
		if !got[i].Equal(want[i]) {
			return fail("extensions", fmt.Sprintf("extension %s sent, %s configured", got[i], want[i]))
		}
		info.Extensions = append(info.Extensions, string(want[i].Name))
	}
	// extra headers
	nExtra := 0
	if cfg.Header != "nil" {
		if req.Header.Get("X-Client") != "abc" || req.Header.Get("Cookie") != "k=v; k2=v2" {
			return fail("extra-headers", "configured extra headers missing")
		}
		nExtra = 2
	}
	slack := 0
	if cfg.Header == "http-hostile" {
		if len(req.Header.Values("X-Injected")) != 0 {
			return fail("injected-header", "a line break inside a configured header value became a header of its own")
		}
		// (X-Multi and X-Tail may be sent sanitised or be left out)
		for _, n := range []string{"X-Multi", "X-Tail"} {
			if len(req.Header.Values(n)) > 0 {
				slack++
			}
		}
	}
	wantN := 4 + nExtra + slack
	if len(cfg.Protocols) > 0 {
		wantN++
	}
	if len(want) > 0 {
		wantN++
	}
	if n := len(req.Header); n != wantN {
		return fail("header-set", fmt.Sprintf("%d distinct headers sent, want exactly %d", n, wantN))
	}
	return info, true
}

var trailLens = []int{0, 1, 2, 100, -1, -2, -3, 70000} // negative: buffer-1, buffer, buffer+1

func trailing(c *mon.C, rbuf int, k int) []byte {
	n := trailLens[k%len(trailLens)]
	if rbuf == 0 {
		rbuf = 4096
	}
	switch n {
	case -1:
		n = rbuf - 1
	case -2:
		n = rbuf
	case -3:
		n = rbuf + 1
	}
	p := make([]byte, n)
	for i := range p {
		p[i] = byte(i*31 + 7)
	}
	return p
}

func pickURL(rng *rand.Rand) string {
	if rng.Intn(3) == 0 {
		return randURL(rng)
	}
	return urls[rng.Intn(len(urls))]
}

// tlsMark is what the TLSClient stub returns; countConn is the application's WrapConn wrapper.
type tlsMark struct{ net.Conn }

type countConn struct {
	net.Conn
	r, w    int
	overTLS bool
}

func (c *countConn) Read(p []byte) (int, error)  { n, err := c.Conn.Read(p); c.r += n; return n, err }
func (c *countConn) Write(p []byte) (int, error) { n, err := c.Conn.Write(p); c.w += n; return n, err }

// earlierServers: dials of the same goroutine that ended badly (whatever the dialer keeps between calls - pooled
// readers and writers, nonce buffers - must not carry over to the next dial).
func earlierServers(k int) {
	resps := []string{
		"HTTP/1.1 101 Switching Protocols\r\nUpgrade: websocket\r\nConnection: Upgrade\r\nSec-WebSocket-Protocol: stale-proto\r\nSec-WebSocket-Extensions: stale-ext; p=1\r\nX-Cut: in the middle of a li",
		"HTTP/1.1 403 Forbidden\r\nContent-Length: 4000\r\nX-Long: " + strings.Repeat("z", 3000) + "\r\n\r\n" + strings.Repeat("b", 4000),
		"HTTP/1.1 101 Switching Protocols\r\nUpgrade: websocket\r\nConnection: Upgrade\r\nSec-WebSocket-Accept: AAAAAAAAAAAAAAAAAAAAAAAAAAA=\r\nSec-WebSocket-Protocol: stale-proto\r\nSec-WebSocket-Extensions: stale-ext; p=1\r\n\r\nstale trailing bytes",
		"",
	}
	conn := &fakeconn.Script{Plan: xport.Plan{Kind: "fixed", K: 7}}
	conn.Respond = func([]byte) []byte { return []byte(resps[k%len(resps)]) }
	if k%5 == 0 {
		conn.WriteErrAt = 1
	}
	u, _ := url.ParseRequestURI("ws://earlier.example/stale")
	d := ws.Dialer{Protocols: []string{"stale-proto"}, Extensions: []httphead.Option{httphead.NewOption("stale-ext", map[string]string{"p": "1"})}}
	if br, _, _ := d.Upgrade(conn, u); br != nil {
		ws.PutReader(br)
	}
}

// exchange runs one Dialer.Upgrade against the scripted peer.
func exchange(c *mon.C, cfg DCfg, ustr string, choice map[string]string, trailK int, delivery int, viaDial bool, keys map[string]bool, base ...*ws.Dialer) bool {
	c.Count(1)
	u, err := url.ParseRequestURI(ustr)
	if err != nil {
		c.Inconclusive("bad url in generator")
		return true
	}
	if (trailK+delivery+len(ustr))%3 == 0 {
		// the process has dialed other servers before this one: a response that stopped inside a header line, a long
		// refusal, a 101 naming a subprotocol and extensions that were refused in the end
		earlierServers(trailK + delivery)
	}
	d := buildDialer(cfg)
	if len(base) > 0 {
		// the application's one Dialer value, used again: Dial / Upgrade have value receivers, the slices are shared
		d = *base[0]
	}
	var hdrSeen [][2]string
	var statusSeen []int
	if cfg.Callbacks > 0 {
		d.OnHeader = func(k, v []byte) error {
			hdrSeen = append(hdrSeen, [2]string{string(k), string(v)})
			if cfg.Callbacks == 2 {
				return errVeto
			}
			return nil
		}
		d.OnStatusError = func(status int, reason []byte, r io.Reader) { statusSeen = append(statusSeen, status) }
	}
	tr := trailing(c, cfg.RBuf, trailK)
	var resp *gen.Resp
	var info gen.ReqInfo
	det := map[string]interface{}{"config": cfg.String(), "url": ustr, "trailing_len": len(tr), "delivery": delivery, "via_dial": viaDial}
	reqOK := true
	var headLen int
	conn := &fakeconn.Script{}
	conn.Respond = func(written []byte) []byte {
		info, reqOK = checkRequest(c, cfg, u, written, det)
		if !reqOK {
			return nil
		}
		resp = gen.BuildResp(c.Rng, choice, info)
		head := resp.Head()
		headLen = len(head)
		return append(head, tr...)
	}
	plans := xport.Plans(c.Rng.Int63(), nil)
	switch delivery {
	case 0:
		conn.Plan = xport.Plan{Kind: "whole"} // trailing bytes arrive in the same read as the head
	case 1:
		conn.Plan = xport.Plan{Kind: "one"}
	default:
		conn.Plan = plans[(delivery+trailK)%len(plans)]
	}
	var br *bufio.Reader
	var hs ws.Handshake
	var dialAddr, tlsHost string
	var rc io.Reader = conn
	if viaDial {
		d.NetDial = func(ctx context.Context, network, addr string) (net.Conn, error) {
			dialAddr = network + "|" + addr
			return conn, nil
		}
		d.TLSClient = func(cn net.Conn, hostname string) net.Conn { tlsHost = hostname; return tlsMark{cn} }
		// half of the dials: the application wraps the connection (Dialer.WrapConn: "called after successful dial and
		// TLS initialization"): every byte of the handshake goes through the wrapper, and the wrapper is what it is
		// handed back
		var wrapped *countConn
		wrapCalls := 0
		if (trailK+delivery)%2 == 0 {
			d.WrapConn = func(cn net.Conn) net.Conn {
				wrapCalls++
				wrapped = &countConn{Conn: cn}
				_, wrapped.overTLS = cn.(tlsMark)
				return wrapped
			}
		}
		var nc net.Conn
		nc, br, hs, err = d.Dial(context.Background(), ustr)
		if nc != nil {
			rc = nc
		}
		if d.WrapConn != nil {
			det["wrapconn"] = fmt.Sprintf("calls=%d", wrapCalls)
			switch {
			case wrapCalls != 1:
				c.Fail("dial/wrapconn-calls", fmt.Sprintf("WrapConn called %d times for one dial", wrapCalls), det)
				return false
			case wrapped.overTLS != (u.Scheme == "wss"):
				c.Fail("dial/wrapconn-layer", fmt.Sprintf("WrapConn was handed the connection %s the TLS client (scheme %s)", map[bool]string{true: "above", false: "below / without"}[wrapped.overTLS], u.Scheme), det)
				return false
			case wrapped.w == 0 || (resp != nil && wrapped.r == 0):
				c.Fail("dial/wrapconn-bypassed", fmt.Sprintf("handshake I/O did not go through the application's wrapper (%d bytes written, %d read through it)", wrapped.w, wrapped.r), det)
				return false
			case err == nil && nc != net.Conn(wrapped):
				c.Fail("dial/wrapconn-returned", "Dial succeeded but the connection it returned is not the application's wrapper", det)
				return false
			}
		}
	} else {
		br, hs, err = d.Upgrade(conn, u)
	}
	if !reqOK {
		return false
	}
	if resp == nil {
		c.Fail("no-read", "the dialer never read the response", det)
		return false
	}
	if keys[info.Key] {
		c.Fail("request/key-reused", "the same Sec-WebSocket-Key was used for two dials", det)
		return false
	}
	keys[info.Key] = true
	for k, v := range resp.Describe() {
		det[k] = v
	}
	det["err"] = fmt.Sprint(err)
	det["handshake"] = fmt.Sprintf("protocol=%q extensions=%v", hs.Protocol, hs.Extensions)
	v := resp.Verdict
	factor := "canonical"
	for _, w := range v.Why {
		if strings.HasPrefix(w, "reject:") {
			factor = strings.TrimPrefix(w, "reject:")
			break
		}
	}
	if viaDial {
		host, port := u.Hostname(), u.Port()
		if port == "" {
			port = map[string]string{"ws": "80", "wss": "443"}[u.Scheme]
		}
		want := "tcp|" + net.JoinHostPort(host, port)
		if dialAddr != want {
			c.Fail("dial/address", fmt.Sprintf("NetDial called with %q, want %q", dialAddr, want), det)
			return false
		}
		if u.Scheme == "wss" && !strings.Contains(u.Host, "[") && tlsHost != u.Hostname() {
			c.Fail("dial/tls-hostname", fmt.Sprintf("TLSClient got hostname %q, want %q", tlsHost, u.Hostname()), det)
			return false
		}
		if u.Scheme == "ws" && tlsHost != "" {
			c.Fail("dial/tls-on-ws", "TLSClient invoked for a ws:// URL", det)
			return false
		}
	}
	// the application's callbacks: OnStatusError only for a refused status, OnHeader for the
	// non-technical headers only, in order, and its veto is the dial's error
	if cfg.Callbacks > 0 {
		det["on_header_calls"], det["on_status_error_calls"] = fmt.Sprint(hdrSeen), fmt.Sprint(statusSeen)
		if len(statusSeen) > 1 || (len(statusSeen) == 1 && (err == nil || statusSeen[0] == 101)) {
			c.Fail("callbacks/on-status-error", fmt.Sprintf("OnStatusError called %v; Dial returned %v", statusSeen, err), det)
			return false
		}
		if len(statusSeen) == 1 && len(hdrSeen) > 0 {
			c.Fail("callbacks/on-header-after-status-error", "OnHeader called for a response whose status was refused", det)
			return false
		}
		var extra [][2]string
		for _, h := range resp.Headers {
			if h.Raw == "" && !technical[strings.ToLower(h.Name)] {
				extra = append(extra, [2]string{h.Name, strings.Trim(h.Value, " \t")})
			}
		}
		for i, kv := range hdrSeen {
			if i >= len(extra) || !strings.EqualFold(kv[0], extra[i][0]) || kv[1] != extra[i][1] {
				c.Fail("callbacks/on-header-args", fmt.Sprintf("OnHeader call %d got %q: %q; the non-technical headers of the response are %v", i, kv[0], kv[1], extra), det)
				return false
			}
		}
		if err == nil && len(hdrSeen) != len(extra) {
			c.Fail("callbacks/on-header-count", fmt.Sprintf("OnHeader called %d times on a successful handshake whose response has %d non-technical headers", len(hdrSeen), len(extra)), det)
			return false
		}
		if cfg.Callbacks == 2 && len(hdrSeen) > 0 {
			if len(hdrSeen) > 1 {
				c.Fail("callbacks/veto-not-final", fmt.Sprintf("OnHeader was called %d more times after it returned an error", len(hdrSeen)-1), det)
				return false
			}
			if err != errVeto {
				c.Fail("callbacks/veto-ignored", fmt.Sprintf("OnHeader returned an error but Dial returned %v", err), det)
				return false
			}
			if br != nil {
				c.Fail("failure-returns-buffer", "a non-nil buffer was returned together with an error", det)
				return false
			}
			c.Classf("veto|%s", v.ClassName())
			return true
		}
	}
	switch {
	case err == nil && v.Class == ref.MustReject:
		c.Fail("accepts/"+factor, "the dialer reports success for a response that must be refused ("+strings.Join(v.Why, "; ")+")", det)
		return false
	case err != nil && v.Class == ref.MustAccept:
		c.Fail("rejects-valid", "the dialer refuses a valid 101 response: "+err.Error(), det)
		return false
	}
	if err != nil {
		if br != nil {
			c.Fail("failure-returns-buffer", "a non-nil buffer was returned together with an error", det)
			return false
		}
		c.Classf("fail|%s|%s", v.ClassName(), variantKey(resp))
		return true
	}
	// success: reported data is what the server sent
	if v.Class == ref.MustAccept {
		if hs.Protocol != resp.Protocol {
			c.Fail("success/protocol", fmt.Sprintf("reported subprotocol %q, server sent %q", hs.Protocol, resp.Protocol), det)
			return false
		}
		var sent []httphead.Option
		for _, e := range resp.ExtSent {
			sent, _ = httphead.ParseOptions([]byte(e), sent)
		}
		if len(sent) != len(hs.Extensions) {
			c.Fail("success/extensions-count", fmt.Sprintf("reported %d extensions, server sent %d", len(hs.Extensions), len(sent)), det)
			return false
		}
		for i := range sent {
			if !sent[i].Equal(hs.Extensions[i]) {
				c.Fail("success/extensions", fmt.Sprintf("reported extension %s, server sent %s", hs.Extensions[i], sent[i]), det)
				return false
			}
		}
	}
	// every byte after the head stays readable, once and in order: buffer first, then the connection
	var got []byte
	if br != nil {
		n := br.Buffered()
		if n == 0 {
			c.Fail("success/empty-buffer", "a buffer with nothing buffered was returned", det)
			return false
		}
		p := make([]byte, n)
		io.ReadFull(br, p)
		got = append(got, p...)
	}
	rest, _ := io.ReadAll(rc)
	got = append(got, rest...)
	if !bytes.Equal(got, tr) {
		det["post_handshake_got_len"] = len(got)
		det["first_diff"] = firstDiff(got, tr)
		det["head_len"] = headLen
		c.Fail("success/post-handshake-bytes", fmt.Sprintf("bytes sent after the response head are not readable once and in order: got %d bytes, sent %d (first difference at %d)", len(got), len(tr), firstDiff(got, tr)), det)
		return false
	}
	if viaDial {
		for _, e := range conn.Events {
			if e == "Close" {
				c.Fail("success/closed", "Dial succeeded but closed the connection", det)
				return false
			}
		}
	}
	c.Classf("ok|%s|%s|trail=%d|deliv=%d|proto=%d ext=%d", v.ClassName(), variantKey(resp), trailK%len(trailLens), delivery, len(cfg.Protocols), len(cfg.Exts))
	if c.WantSample() {
		c.Sample(det)
	}
	return true
}

func firstDiff(a, b []byte) int {
	for i := 0; i < len(a) && i < len(b); i++ {
		if a[i] != b[i] {
			return i
		}
	}
	if len(a) < len(b) {
		return len(a)
	}
	return len(b)
}

func variantKey(r *gen.Resp) string {
	var parts []string
	for _, f := range gen.RespFactors {
		if v := r.Variant[f]; v != gen.RespVariants[f][0] {
			parts = append(parts, f+"="+v)
		}
	}
	return strings.Join(parts, ",")
}

func randCfg(c *mon.C, simple bool) DCfg {
	cfg := DCfg{Protocols: protoLists[2], Exts: extLists[2], Header: "nil"}
	if !simple {
		cfg = DCfg{Protocols: protoLists[c.Rng.Intn(len(protoLists))], Exts: extLists[c.Rng.Intn(len(extLists))], Header: hdrKinds[c.Rng.Intn(len(hdrKinds))], Callbacks: []int{0, 0, 1, 1, 2}[c.Rng.Intn(5)],
			RBuf: bufSizes[c.Rng.Intn(len(bufSizes))], WBuf: bufSizes[c.Rng.Intn(len(bufSizes))]}
		if c.Rng.Intn(3) == 0 {
			cfg.Host = []string{"override.example.org", "other:1234"}[c.Rng.Intn(2)]
		}
	}
	return cfg
}

func subSingle() mon.Sub {
	type fv struct{ f, v string }
	var list []fv
	for _, f := range gen.RespFactors {
		for _, v := range gen.RespVariants[f] {
			list = append(list, fv{f, v})
		}
	}
	return mon.Sub{
		Name: "single-factor", Exhaustive: true, Required: true,
		N: func(string) int { return len(list) * 4 },
		Do: func(c *mon.C) {
			x := list[c.I%len(list)]
			rep := c.I / len(list)
			keys := map[string]bool{}
			for t := 0; t < 3; t++ {
				if !exchange(c, randCfg(c, rep == 0), urls[(c.I+t)%len(urls)], map[string]string{x.f: x.v}, c.I+t, (rep+t)%4, t == 2, keys) {
					return
				}
			}
		},
	}
}

func subPairs() mon.Sub {
	type fv struct{ f, v string }
	var list []fv
	for _, f := range gen.RespFactors {
		for _, v := range gen.RespVariants[f][1:] {
			list = append(list, fv{f, v})
		}
	}
	var pairs [][2]fv
	for i := range list {
		for j := i + 1; j < len(list); j++ {
			if list[i].f != list[j].f {
				pairs = append(pairs, [2]fv{list[i], list[j]})
			}
		}
	}
	return mon.Sub{
		Name: "factor-pairs", Exhaustive: true, Required: true,
		N: func(string) int { return len(pairs) },
		Do: func(c *mon.C) {
			p := pairs[c.I]
			exchange(c, randCfg(c, c.I%2 == 0), urls[c.I%len(urls)], map[string]string{p[0].f: p[0].v, p[1].f: p[1].v}, c.I, c.I%4, c.I%5 == 0, map[string]bool{})
		},
	}
}

func subTrailing() mon.Sub {
	// valid responses x every trailing length x every delivery x buffer sizes x configurations
	return mon.Sub{
		Name: "trailing-bytes", Exhaustive: true, Required: true,
		N: func(string) int { return len(trailLens) * 4 * len(bufSizes) * len(protoLists) * 2 },
		Do: func(c *mon.C) {
			i := c.I
			tk := i % len(trailLens)
			del := i / len(trailLens) % 4
			rb := bufSizes[i/len(trailLens)/4%len(bufSizes)]
			pl := i / len(trailLens) / 4 / len(bufSizes) % len(protoLists)
			via := i/len(trailLens)/4/len(bufSizes)/len(protoLists) == 1
			cfg := DCfg{Protocols: protoLists[pl], Exts: extLists[pl%len(extLists)], Header: hdrKinds[i%len(hdrKinds)], RBuf: rb, WBuf: bufSizes[i%len(bufSizes)]}
			choice := map[string]string{}
			if len(cfg.Protocols) > 0 {
				choice["protocol"] = []string{"first", "last", "none"}[i%3]
			}
			if len(cfg.Exts) > 0 {
				choice["extensions"] = []string{"first", "all", "first-with-params", "none"}[i%4]
			}
			choice["extra"] = []string{"none", "some", "long-value"}[i%3]
			exchange(c, cfg, urls[i%len(urls)], choice, tk, del, via, map[string]bool{})
		},
	}
}

// subReuse: ONE Dialer value (a package-level variable of the application, a reconnect loop) lives through several
// handshakes whose servers answer differently - other parameters for the accepted extension, another subprotocol, a
// refusal in between. Every request carries the CONFIGURED offer (checkRequest), and the configuration the
// application wrote down is what it still reads afterwards.
func subReuse() mon.Sub {
	reuseExts := [][]string{
		{"permessage-deflate; client_max_window_bits; server_max_window_bits=10", "foo; a=1"},
		{"permessage-deflate; client_max_window_bits=15; server_max_window_bits=12; client_no_context_takeover"},
		{"foo; a=1; b", "permessage-deflate"},
	}
	return mon.Sub{
		Name: "dialer-reuse", Required: true,
		N: func(t string) int {
			if t == "thorough" {
				return 6000
			}
			return 300
		},
		Do: func(c *mon.C) {
			cfg := DCfg{Protocols: protoLists[1+c.I%3], Exts: reuseExts[c.I%len(reuseExts)], Header: hdrKinds[c.I%5], RBuf: bufSizes[c.I%len(bufSizes)], WBuf: bufSizes[c.I/2%len(bufSizes)]}
			d := buildDialer(cfg)
			snap := fmt.Sprintf("%q %v", d.Protocols, d.Extensions)
			keys := map[string]bool{}
			answers := []string{"first-with-params", "first", "all", "none", "unoffered", "offered-then-unoffered"}
			for round := 0; round < 2+c.I%3; round++ {
				choice := map[string]string{"extensions": answers[(c.I+round*5)%len(answers)], "protocol": []string{"first", "last", "none"}[(c.I+round)%3]}
				if c.Rng.Intn(4) == 0 {
					f := gen.RespFactors[c.Rng.Intn(len(gen.RespFactors))]
					if f != "extensions" && f != "protocol" {
						vs := gen.RespVariants[f]
						choice[f] = vs[c.Rng.Intn(len(vs))]
					}
				}
				if !exchange(c, cfg, urls[(c.I+round)%len(urls)], choice, c.Rng.Intn(4), c.Rng.Intn(4), round%2 == 1, keys, &d) {
					return
				}
				if now := fmt.Sprintf("%q %v", d.Protocols, d.Extensions); now != snap {
					c.Fail("reuse/configuration-changed", fmt.Sprintf("after handshake %d the application's Dialer holds %s; it was configured as %s", round+1, now, snap), map[string]interface{}{"config": cfg.String(), "round": round, "answer": choice["extensions"]})
					return
				}
			}
		},
	}
}

// subRealDial: the package-level ws.Dial and a Dialer without NetDial go through the operating system's loopback
// interface to a scripted TCP peer: the address in the URL is the address connected to, the request is the compliant
// one, a valid 101 is accepted and what the server sends behind it is readable. URLs that are no ws/wss URL are
// refused without a connection.
func subRealDial() mon.Sub {
	return mon.Sub{
		Name: "real-dial",
		N: func(t string) int {
			if t == "thorough" {
				return 400
			}
			return 40
		},
		Do: func(c *mon.C) {
			c.Count(1)
			host := []string{"127.0.0.1", "[::1]", "localhost"}[c.I%3]
			laddr := map[string]string{"127.0.0.1": "127.0.0.1:0", "[::1]": "[::1]:0", "localhost": "127.0.0.1:0"}[host]
			l, err := net.Listen("tcp", laddr)
			if err != nil {
				c.Inconclusive("no loopback listener: " + err.Error())
				return
			}
			defer l.Close()
			_, port, _ := net.SplitHostPort(l.Addr().String())
			ustr := fmt.Sprintf("ws://%s:%s%s", host, port, []string{"/", "/chat?x=1", "", "/a%20b/c"}[c.I/3%4])
			tr := trailing(c, 4096, c.I)
			// how the dial context ends once Dial has returned: 0 it does not (Background + a far deadline); 1 the
			// caller cancels it (the defer cancel() of the function that dialled); 2 Dialer.Timeout is set (the derived
			// context is cancelled when Dial returns), the caller's context lives on. The connection is the caller's
			// by then: bytes the server sends afterwards are readable like any others.
			ctxEnd := c.I / 2 % 3
			early := len(tr)
			if ctxEnd != 0 || c.I%4 == 3 {
				early = len(tr) / 3
			}
			lateGo := make(chan struct{})
			type srvRes struct {
				req   []byte
				conns int
			}
			resCh := make(chan srvRes, 1)
			go func() {
				var r srvRes
				cn, err := l.Accept()
				if err != nil {
					resCh <- r
					return
				}
				r.conns = 1
				cn.SetDeadline(time.Now().Add(20 * time.Second))
				br := bufio.NewReader(cn)
				for !bytes.HasSuffix(r.req, []byte("\r\n\r\n")) {
					b, err := br.ReadByte()
					if err != nil {
						break
					}
					r.req = append(r.req, b)
				}
				if hr, err := http.ReadRequest(bufio.NewReader(bytes.NewReader(r.req))); err == nil {
					resp := "HTTP/1.1 101 Switching Protocols\r\nUpgrade: websocket\r\nConnection: Upgrade\r\nSec-WebSocket-Accept: " + ref.Accept(hr.Header.Get("Sec-Websocket-Key")) + "\r\n\r\n"
					cn.Write(append([]byte(resp), tr[:early]...))
					if early < len(tr) {
						// the rest is sent LATE: after Dial has returned and its context has ended
						select {
						case <-lateGo:
						case <-time.After(20 * time.Second):
						}
						cn.Write(tr[early:])
					}
				}
				cn.Close()
				resCh <- r
			}()
			mode := c.I / 12 % 3
			det := map[string]interface{}{"url": ustr, "mode": []string{"ws.Dial", "ws.Dialer{}.Dial", "bad url"}[mode], "trailing_len": len(tr)}
			ctx, cancel := context.WithTimeout(context.Background(), 30*time.Second)
			defer cancel()
			if mode == 2 {
				// not a ws/wss URL: an error, no connection (nothing was ever connected to)
				bad := []string{"http://" + host + ":" + port + "/", "https://" + host + ":" + port + "/", "/relative/path", "ws//" + host, "://x", host + ":" + port}[c.I%6]
				det["url"] = bad
				cn, br, _, err := ws.Dial(ctx, bad)
				l.Close()
				r := <-resCh
				if err == nil || cn != nil || br != nil {
					c.Fail("real-dial/bad-url-accepted", fmt.Sprintf("Dial(%q) returned err=%v conn=%v", bad, err, cn != nil), det)
					return
				}
				if r.conns != 0 {
					c.Fail("real-dial/bad-url-connected", "a connection was opened for a URL that is no ws/wss URL", det)
					return
				}
				c.Classf("real-dial|bad-url|%d", c.I%6)
				return
			}
			var (
				cn net.Conn
				br *bufio.Reader
			)
			det["dial_context_after_return"] = []string{"lives on", "cancelled by the caller", "Dialer.Timeout's derived context"}[ctxEnd]
			switch {
			case ctxEnd == 1:
				cctx, ccancel := context.WithCancel(ctx)
				if mode == 0 {
					cn, br, _, err = ws.Dial(cctx, ustr)
				} else {
					cn, br, _, err = ws.Dialer{ReadBufferSize: bufSizes[c.I%len(bufSizes)]}.Dial(cctx, ustr)
				}
				ccancel()
			case ctxEnd == 2:
				cn, br, _, err = ws.Dialer{ReadBufferSize: bufSizes[c.I%len(bufSizes)], Timeout: time.Minute}.Dial(ctx, ustr)
			case mode == 0:
				cn, br, _, err = ws.Dial(ctx, ustr)
			default:
				cn, br, _, err = ws.Dialer{ReadBufferSize: bufSizes[c.I%len(bufSizes)]}.Dial(ctx, ustr)
			}
			runtime.Gosched()
			close(lateGo)
			if err != nil {
				if host == "localhost" && strings.Contains(err.Error(), "lookup") {
					c.Inconclusive("localhost does not resolve here")
					return
				}
				c.Fail("real-dial/failed", "Dial over the loopback interface to a compliant peer failed: "+err.Error(), det)
				return
			}
			var got []byte
			if br != nil {
				p := make([]byte, br.Buffered())
				io.ReadFull(br, p)
				got = append(got, p...)
				ws.PutReader(br)
			}
			// (no deadline of the application's own on the connection: whatever state Dial left it in is what reads meet;
			// a hang is ended by closing it)
			guard := time.AfterFunc(20*time.Second, func() { cn.Close() })
			rest, rerr := io.ReadAll(cn)
			guard.Stop()
			det["read_error_after_dial"] = fmt.Sprint(rerr)
			got = append(got, rest...)
			cn.Close()
			r := <-resCh
			u, _ := url.ParseRequestURI(ustr)
			if _, ok := checkRequest(c, DCfg{Header: "nil"}, u, r.req, det); !ok {
				return
			}
			if !bytes.Equal(got, tr) {
				c.Fail("real-dial/post-handshake-bytes", fmt.Sprintf("bytes sent after the response head: got %d, sent %d (first difference at %d)", len(got), len(tr), firstDiff(got, tr)), det)
				return
			}
			c.Classf("real-dial|%s|%d|trail=%d", host, mode, c.I%len(trailLens))
			if c.WantSample() {
				c.Sample(det)
			}
		},
	}
}

// subDialFaults: the connection FAILS in the middle of the handshake - while the request is written, or after 0..n
// bytes of an otherwise valid 101 - with one of eight kinds of error (an expired deadline somebody else set on the
// connection and other net.Errors among them), through Upgrade and through Dial under contexts that are alive and
// stay alive. "The dialer reports success exactly when ..." a complete valid 101 was read: never here; and Dial closes
// the connection it obtained.
func subDialFaults() mon.Sub {
	return mon.Sub{
		Name: "dial-faults", Required: true,
		N: func(t string) int {
			if t == "thorough" {
				return 8000
			}
			return 400
		},
		Do: func(c *mon.C) {
			c.Count(1)
			fk := xport.FaultKinds[c.I%len(xport.FaultKinds)]
			mode := c.I / len(xport.FaultKinds) % 4 // 0 Upgrade, 1 Dial(Background), 2 Dial(WithCancel, live), 3 Dial(WithTimeout 1h, live)
			cfg := DCfg{Protocols: protoLists[c.I%len(protoLists)], Header: hdrKinds[c.I%5], RBuf: bufSizes[c.I%len(bufSizes)], WBuf: bufSizes[c.I/3%len(bufSizes)]}
			ustr := urls[c.I%6]
			u, _ := url.ParseRequestURI(ustr)
			d := buildDialer(cfg)
			writeFault := c.I/7%5 == 0
			conn := &fakeconn.Script{EndErr: fk.Err, WriteErr: fk.Err, Plan: xport.Plans(c.Rng.Int63(), nil)[c.Rng.Intn(8)]}
			if writeFault {
				conn.WriteErrAt = 1 + c.Rng.Intn(2)
			}
			cut, full := 0, 0
			conn.Respond = func(written []byte) []byte {
				hr, err := http.ReadRequest(bufio.NewReader(bytes.NewReader(written)))
				if err != nil {
					return nil
				}
				resp := "HTTP/1.1 101 Switching Protocols\r\nUpgrade: websocket\r\nConnection: Upgrade\r\nSec-WebSocket-Accept: " + ref.Accept(hr.Header.Get("Sec-Websocket-Key")) + "\r\n\r\n"
				full = len(resp)
				// cut places: nothing, inside the status line, after it, inside / after the headers, one byte short of the end
				cut = []int{0, 5, strings.Index(resp, "\r\n") + 2, full / 2, full - 4, full - 2, full - 1}[c.Rng.Intn(7)]
				return []byte(resp[:cut])
			}
			ctx, cancel := context.Background(), func() {}
			switch mode {
			case 2:
				ctx, cancel = context.WithCancel(context.Background())
			case 3:
				ctx, cancel = context.WithTimeout(context.Background(), time.Hour)
			}
			defer cancel()
			var (
				nc  net.Conn
				br  *bufio.Reader
				err error
			)
			if mode == 0 {
				br, _, err = d.Upgrade(conn, u)
			} else {
				d.NetDial = func(context.Context, string, string) (net.Conn, error) { return conn, nil }
				d.TLSClient = func(cn net.Conn, _ string) net.Conn { return cn }
				nc, br, _, err = d.Dial(ctx, ustr)
			}
			det := map[string]interface{}{"config": cfg.String(), "url": ustr, "error_kind": fk.Name, "error": fk.Err.Error(), "mode": []string{"Upgrade", "Dial(Background)", "Dial(WithCancel, alive)", "Dial(WithTimeout 1h, alive)"}[mode],
				"write_fails": writeFault, "response_bytes_delivered_before_the_failure": cut, "response_len": full, "err": fmt.Sprint(err)}
			if err == nil {
				c.Fail("dial-faults/success/"+fk.Name, fmt.Sprintf("the dialer reports success although the connection failed (%s) before a complete 101 had been read", fk.Name), det)
				return
			}
			if br != nil {
				c.Fail("dial-faults/buffer-with-error", "a buffer was returned together with an error", det)
				return
			}
			if mode != 0 {
				closed := false
				for _, e := range conn.Events {
					if e == "Close" {
						closed = true
					}
				}
				if !closed {
					c.Fail("dial-faults/not-closed", "Dial returned an error without closing the connection it obtained", det)
					return
				}
				_ = nc
			}
			c.Classf("dial-faults|%s|mode%d|write=%v", fk.Name, mode, writeFault)
		},
	}
}

func subRandom() mon.Sub {
	return mon.Sub{
		Name: "random", Required: true,
		N: func(t string) int {
			if t == "thorough" {
				return 2000000
			}
			return 40000
		},
		Do: func(c *mon.C) {
			choice := map[string]string{}
			for _, f := range gen.RespFactors {
				if c.Rng.Intn(5) == 0 {
					vs := gen.RespVariants[f]
					choice[f] = vs[c.Rng.Intn(len(vs))]
				}
			}
			tk := c.Rng.Intn(len(trailLens) - 1) // the 70000-byte tail is covered by trailing-bytes
			exchange(c, randCfg(c, false), pickURL(c.Rng), choice, tk, c.Rng.Intn(8), c.Rng.Intn(4) == 0, map[string]bool{})
		},
	}
}

func main() {
	mon.Main(&mon.Spec{
		Property: "C10",
		Level:    "exploration",
		Rule: "a scripted in-memory peer records the request the dialer writes (parsed by net/http: GET, request-URI, HTTP/1.1, Host or override, exactly the required headers, a fresh base64 key of 16 bytes, configured subprotocols/extensions/extra headers; NetDial address and TLS hostname for Dial) and answers with a grammar-generated response built from what it actually received (10 factors: version token, status token incl. non-digit and overflowing forms, reason, Upgrade, Connection, Sec-WebSocket-Accept, subprotocol, extensions, extra headers, line ends), followed by post-handshake bytes of length {0,1,2,100,buf-1,buf,buf+1,70000} delivered in the same read as the head, byte by byte, or under other chunk plans. " +
			"Cases: every single-factor variant x 4 configurations x 3 URLs, every pair of non-canonical variants, valid responses x all trailing lengths x deliveries x buffer sizes x protocol lists through Upgrade and Dial, seeded random derivations, and ONE Dialer value reused for 2-4 handshakes with differently answering servers (every request carries the configured offer, the configuration is unchanged). Oracle: three-valued verdict on the derivation; reported protocol/extensions == sent; buffer-then-connection yields exactly the trailing bytes. distinct = (outcome, verdict, non-canonical variants, trailing class, delivery, config sizes).",
		Assumptions: []string{"net/http.ReadRequest is the independent request parser", "OPEN: LF-only line ends, duplicated valid headers, Connection token list in a response, two subprotocol headers / empty / list values, version tokens HTTP/1.01 and http/1.1", "TLS hostname for IPv6 literals is not constrained"},
		Subs:        []mon.Sub{subSingle(), subPairs(), subTrailing(), subRandom(), subReuse(), subRealDial(), subDialFaults()},
	})
}
