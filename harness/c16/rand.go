package main

import "math/rand"

func newRand(seed int64) *rand.Rand { return rand.New(rand.NewSource(seed)) }
