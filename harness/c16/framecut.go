package main

import (
	"bytes"
	"fmt"
	"io"
	"strings"

	"github.com/gobwas/ws"

	"verifharness/drive"
	"verifharness/gen"
	"verifharness/mon"
	"verifharness/ref"
	"verifharness/xport"
)

// frameCut drives the frame-level decoders (ws.ReadFrame in a read-until-EOF
// loop; ws.ReadHeader followed by an exact payload read) over a stream cut at
// every offset. A clean io.EOF is only right at a FRAME boundary; everywhere
// else the loop must end with a non-EOF error, and every frame returned before
// that must be identical to the frame of the uncut stream.
func frameCut(c *mon.C, shapes []gen.Shape, side ref.Side, offsets []int, flavours []int) bool {
	frames := gen.Build(shapes, side, c.Rng, false)
	stream, starts, _ := gen.Encode(frames)
	isStart := map[int]bool{len(stream): true}
	for _, s := range starts {
		isStart[s] = true
	}
	plans := xport.Plans(c.Rng.Int63(), nil)
	for _, entry := range []string{"readframe", "readheader+payload"} {
		plan := plans[c.I%len(plans)]
		for _, off := range offsets {
			if off < 0 || off > len(stream) {
				continue
			}
			for _, fl := range flavours {
				c.Count(1)
				p := plan
				p.EOFWithData = false
				var endErr error = io.EOF
				switch fl {
				case 1:
					p.EOFWithData = true
				case 2:
					endErr = xport.ErrInjected
				}
				// the cut transport sits behind one of the kinds of io.Reader an application hands over
				// (plain, buffered, part-consumed buffered, Read-only): the verdicts do not depend on it
				wrap := drive.Wraps[(off+fl+c.I)%len(drive.Wraps)]
				ch := drive.WrapSource(xport.NewCutter(stream, p, off, endErr), wrap)
				if fl == 0 && (off+c.I)%2 == 0 {
					// the bytes received so far sit in memory (an application that accumulates what it reads and
					// parses afterwards): sources that know how much they hold - bytes.Reader, bytes.Buffer,
					// strings.Reader offer Len() - end like any other
					switch (off / 2) % 3 {
					case 0:
						ch, wrap = bytes.NewReader(stream[:off]), "bytes.Reader"
					case 1:
						ch, wrap = bytes.NewBuffer(append([]byte(nil), stream[:off]...)), "bytes.Buffer"
					case 2:
						ch, wrap = strings.NewReader(string(stream[:off])), "strings.Reader"
					}
				}
				var got []ref.Frame
				var err error
				for k := 0; k <= len(frames)+1; k++ {
					var f ws.Frame
					if entry == "readframe" {
						f, err = ws.ReadFrame(ch)
					} else {
						f.Header, err = ws.ReadHeader(ch)
						if err == nil && f.Header.Length > 0 {
							f.Payload = make([]byte, f.Header.Length)
							_, err = io.ReadFull(ch, f.Payload)
							if err == io.EOF {
								err = io.ErrUnexpectedEOF // the harness's own payload read, not the library's
							}
						}
					}
					if err != nil {
						break
					}
					pl := f.Payload
					if f.Header.Masked {
						pl = ref.Mask(pl, f.Header.Mask, 0)
					}
					got = append(got, ref.Frame{H: ref.Header{Fin: f.Header.Fin, Rsv: f.Header.Rsv, Op: byte(f.Header.OpCode), Masked: f.Header.Masked, Mask: f.Header.Mask, Length: f.Header.Length}, Payload: pl})
				}
				fi := 0
				for fi+1 < len(starts) && starts[fi+1] <= off {
					fi++
				}
				hl := ref.EncodedLen(ref.Header{Masked: frames[fi].H.Masked, Length: int64(len(frames[fi].Payload))})
				where := "payload"
				switch {
				case isStart[off]:
					where = "frame-boundary"
				case off-starts[fi] < hl:
					where = "header"
				case off-starts[fi] == hl:
					where = "header-end"
				}
				det := func() map[string]interface{} {
					return map[string]interface{}{"frames": gen.ShapesKey(shapes), "side": side, "entry": entry, "source": wrap, "plan": p.String(), "cut_offset": off, "stream_len": len(stream), "flavour": []string{"eof", "data+eof", "injected-error"}[fl], "cut_frame": fi, "cut_where": where, "err": fmt.Sprint(err), "frames_returned": len(got)}
				}
				cls := entry + "/" + where
				// whole frames before the cut
				whole := 0
				for whole < len(starts) {
					end := len(stream)
					if whole+1 < len(starts) {
						end = starts[whole+1]
					}
					if end > off {
						break
					}
					whole++
				}
				if len(got) > whole {
					c.Fail("framecut/frame-from-cut-bytes/"+cls, fmt.Sprintf("%d frames returned although only %d whole frames precede the cut", len(got), whole), det())
					return false
				}
				for k, g := range got {
					w := frames[k]
					if g.H.Fin != w.H.Fin || g.H.Rsv != w.H.Rsv || g.H.Op != w.H.Op || g.H.Masked != w.H.Masked || g.H.Mask != w.H.Mask || g.H.Length != int64(len(w.Payload)) || !bytes.Equal(g.Payload, w.Payload) {
						c.Fail("framecut/frame-differs/"+cls, fmt.Sprintf("frame %d returned before the cut differs from the frame sent", k), det())
						return false
					}
				}
				if err == nil {
					c.Fail("framecut/no-error/"+cls, "the read loop did not end with an error", det())
					return false
				}
				switch {
				case fl == 2:
					if err == io.EOF {
						c.Fail("framecut/transport-error-swallowed/"+cls, "the transport failed with an injected error but the loop ended with io.EOF", det())
						return false
					}
				case isStart[off]:
					if err != io.EOF || len(got) != whole {
						c.Fail("framecut/boundary-not-clean/"+cls, fmt.Sprintf("the stream ends on a frame boundary after %d frames but the loop returned %d frames and %v", whole, len(got), err), det())
						return false
					}
				default:
					if err == io.EOF {
						c.Fail("framecut/clean-end-inside-frame/"+cls, "the stream is cut inside a frame but the read-until-EOF loop ended with a clean io.EOF", det())
						return false
					}
				}
				c.Classf("%s|fl=%d|%s", cls, fl, gen.ShapeClass(shapes))
			}
		}
	}
	return true
}

func subFrameCutEnum() mon.Sub {
	return mon.Sub{
		Name: "frame-cut-enum", Exhaustive: true, Required: true,
		N: func(t string) int { return len(streams(t)) * 2 },
		Do: func(c *mon.C) {
			ss := streams(c.Tier)
			sh := ss[c.I%len(ss)]
			side := []ref.Side{ref.SideServer, ref.SideClient}[c.I/len(ss)]
			total := 0
			for _, s := range sh {
				total += s.Len + 14
			}
			offs := make([]int, 0, total)
			for o := 0; o <= total; o++ {
				offs = append(offs, o)
			}
			if frameCut(c, sh, side, offs, []int{0, 1, 2}) {
				c.Sample(map[string]interface{}{"frames": gen.ShapesKey(sh), "side": side, "offsets": "every byte offset", "entries": "ws.ReadFrame loop, ws.ReadHeader+payload loop"})
			}
		},
	}
}

func subFrameCutRandom() mon.Sub {
	return mon.Sub{
		Name: "frame-cut-random", Required: true,
		N: func(t string) int {
			if t == "thorough" {
				return 40000
			}
			return 1500
		},
		Do: func(c *mon.C) {
			sh := gen.RandomShapes(c.Rng, 8, []int{0, 1, 5, 125, 126, 127, 300, 4096, 65535, 65536, 70000})
			side := []ref.Side{ref.SideServer, ref.SideClient}[c.Rng.Intn(2)]
			frames := gen.Build(sh, side, c.Rng, false) // only for the offsets of interest (same lengths as the real build)
			stream, starts, _ := gen.Encode(frames)
			var offs []int
			for _, s := range starts { // around every header
				hl := ref.EncodedLen(ref.Header{Masked: side == ref.SideServer, Length: 0})
				for d := 0; d <= hl+9; d++ {
					offs = append(offs, s+d)
				}
			}
			for k := 0; k < 20; k++ {
				offs = append(offs, c.Rng.Intn(len(stream)+1))
			}
			offs = append(offs, len(stream)-1, len(stream))
			if frameCut(c, sh, side, offs, []int{c.Rng.Intn(3)}) {
				c.Sample(map[string]interface{}{"frames": gen.ShapesKey(sh), "side": side, "offsets": len(offs)})
			}
		},
	}
}

// subFrameCutLarge: frames above the 1 MiB threshold at which ws.ReadFrame
// switches to reading the payload incrementally, cut around the header, at
// both ends of the payload and around the 1 MiB mark.
func subFrameCutLarge() mon.Sub {
	sizes := []int{1 << 20, 1<<20 + 1, 1<<20 + 513, 2<<20 + 5}
	return mon.Sub{
		Name: "frame-cut-large", Exhaustive: true, Required: true,
		N: func(string) int { return len(sizes) * 2 * 2 },
		Do: func(c *mon.C) {
			size := sizes[c.I%len(sizes)]
			side := []ref.Side{ref.SideServer, ref.SideClient}[c.I/len(sizes)%2]
			// the big frame alone, or after a small one
			sh := []gen.Shape{{Op: ref.OpBinary, Fin: true, Len: size}}
			if c.I/(len(sizes)*2) == 1 {
				sh = []gen.Shape{{Op: ref.OpText, Fin: true, Len: 3}, {Op: ref.OpBinary, Fin: true, Len: size}, {Op: ref.OpPing, Fin: true, Len: 2}}
			}
			frames := gen.Build(sh, side, c.Rng, false)
			stream, starts, _ := gen.Encode(frames)
			var offs []int
			for _, st := range starts {
				for d := -1; d <= 16; d++ {
					offs = append(offs, st+d)
				}
			}
			big := starts[len(starts)-1]
			if len(sh) == 3 {
				big = starts[1]
			}
			for _, d := range []int{1<<20 - 1, 1 << 20, 1<<20 + 1, 1<<20 + 14, 1<<20 + 15, size / 2, size + 9, size + 10, size + 13, size + 14} {
				offs = append(offs, big+d)
			}
			offs = append(offs, len(stream)-1, len(stream))
			if frameCut(c, sh, side, offs, []int{0, 1, 2}) {
				c.Sample(map[string]interface{}{"frames": gen.ShapesKey(sh), "side": side, "offsets": len(offs)})
			}
		},
	}
}

// subReaderCutLarge: messages around 1 MiB (above ReadMessage's pre-allocation
// limit) cut at frame starts, header ends, the 1 MiB mark and the payload end,
// through all reader entry points.
func subReaderCutLarge() mon.Sub {
	const M = 1 << 20
	cases := [][]gen.Shape{
		{{Op: ref.OpBinary, Fin: true, Len: M + 1}},
		{{Op: ref.OpText, Fin: false, Len: 9}, {Op: ref.OpPing, Fin: true, Len: 4}, {Op: ref.OpCont, Fin: true, Len: M + 1}},
		{{Op: ref.OpBinary, Fin: false, Len: M + 700}, {Op: ref.OpCont, Fin: true, Len: 5}, {Op: ref.OpText, Fin: true, Len: 2}},
	}
	return mon.Sub{
		Name: "reader-cut-large", Required: true,
		N: func(t string) int {
			if t == "thorough" {
				return len(cases) * 2 * 3
			}
			return len(cases) * 2
		},
		Do: func(c *mon.C) {
			sh := cases[c.I%len(cases)]
			side := []ref.Side{ref.SideServer, ref.SideClient}[c.I/len(cases)%2]
			hl := 2
			if side == ref.SideServer {
				hl = 6
			}
			var offs []int
			pos := 0
			for _, s := range sh {
				h := hl
				if s.Len > 65535 {
					h += 8
				} else if s.Len > 125 {
					h += 2
				}
				offs = append(offs, pos+1, pos+h, pos+h+1, pos+h+s.Len-1, pos+h+s.Len)
				if s.Len > M {
					offs = append(offs, pos+h+M-1, pos+h+M, pos+h+M+1)
				}
				pos += h + s.Len
			}
			fl := c.I / (len(cases) * 2) % 3
			if cutStream(c, sh, side, offs, []int{fl}) {
				c.Sample(map[string]interface{}{"frames": gen.ShapesKey(sh), "side": side, "offsets": offs, "flavour": fl})
			}
		},
	}
}
