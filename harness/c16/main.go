// C16 — truncated or failing transports never yield a complete-looking message.
package main

import (
	"bufio"
	"bytes"
	"context"
	"fmt"
	"io"
	"net"
	"net/http"
	"net/url"
	"strings"
	"sync"
	"time"

	"github.com/gobwas/ws"
	"github.com/gobwas/ws/wsutil"

	"verifharness/drive"
	"verifharness/fakeconn"
	"verifharness/gen"
	"verifharness/mon"
	"verifharness/ref"
	"verifharness/wops"
	"verifharness/xport"
)

var (
	enumOnce sync.Once
	enumQ    [][]gen.Shape
	enumT    [][]gen.Shape
)

func streams(tier string) [][]gen.Shape {
	enumOnce.Do(func() {
		enumQ = gen.EnumShapes(3, []int{0, 3}, []int{0, 10}, true)
		enumT = gen.EnumShapes(4, []int{0, 1, 3}, []int{0, 10}, true)
	})
	if tier == "thorough" {
		return enumT
	}
	return enumQ
}

type entryCfg struct {
	name string
	o    drive.Opts
}

func entriesFor(side ref.Side) []entryCfg {
	return []entryCfg{
		{"reader", drive.Opts{Entry: "reader", Side: side, CheckUTF8: true}},
		{"reader-ctlhandler", drive.Opts{Entry: "reader", Side: side, Intermediate: 3, CheckUTF8: true}},
		{"readmessage", drive.Opts{Entry: "readmessage", Side: side}},
		{"readdata", drive.Opts{Entry: "readdata", Side: side}},
		{"nextreader", drive.Opts{Entry: "nextreader", Side: side}},
		// entry points that SKIP messages: Discard after one byte, and the helpers that drop the unwanted opcode
		{"reader-discard", drive.Opts{Entry: "reader", Side: side, Discard: discardAll}},
		{"readtext", drive.Opts{Entry: "readtext", Side: side}},
		{"readbinary", drive.Opts{Entry: "readbinary", Side: side}},
	}
}

var discardAll = func() map[int]int {
	m := map[int]int{}
	for i := 0; i < 64; i++ {
		m[i] = i % 2
	}
	return m
}()

func isPrefix(got, base []ref.Event) string {
	if len(got) > len(base) {
		return fmt.Sprintf("%d events observed, the uncut run has only %d; extra: %s", len(got), len(base), drive.EventString(got[len(base)]))
	}
	for i := range got {
		g, w := got[i], base[i]
		if g.Kind != w.Kind || g.Op != w.Op || !bytes.Equal(g.Payload, w.Payload) {
			return fmt.Sprintf("event %d is %s, the uncut run has %s", i, drive.EventString(g), drive.EventString(w))
		}
	}
	return ""
}

// cutStream runs a stream cut at offset o through every entry point.
func cutStream(c *mon.C, shapes []gen.Shape, side ref.Side, offsets []int, flavours []int) bool {
	frames := gen.Build(shapes, side, c.Rng, true)
	stream, starts, _ := gen.Encode(frames)
	bounds := ref.MessageBoundaries(frames)
	pings := drive.ExpectPongs(frames)
	plans := xport.Plans(c.Rng.Int63(), nil)
	for ei, e := range entriesFor(side) {
		plan := plans[(c.I+ei*3)%len(plans)]
		plan.EOFWithData = false
		o := e.o
		o.Buf = []int{1, 4, 64, 4096}[(c.I+ei)%4]
		base := drive.Run(xport.NewChunker(stream, plan), o)
		noBase := base.Err != io.EOF
		// ends of the data messages, from the reference (independent of what the uncut run does): a message may only be
		// reported once the stream holds all of it
		var msgEnds []int
		for i, f := range frames {
			if !ref.IsControl(f.H.Op) && f.H.Fin {
				end := len(stream)
				if i+1 < len(starts) {
					end = starts[i+1]
				}
				msgEnds = append(msgEnds, end)
			}
		}
		for _, off := range offsets {
			if off <= 0 || off >= len(stream) {
				continue
			}
			for _, fl := range flavours {
				c.Count(1)
				p := plan
				var endErr error = io.EOF
				switch fl {
				case 1:
					p.EOFWithData = true
				case 2:
					endErr = xport.ErrInjected
				}
				ch := xport.NewCutter(stream, p, off, endErr)
				o.Wrap = drive.Wraps[(off+fl)%len(drive.Wraps)] // the kind of io.Reader the library is handed varies too
				obs := drive.Run(ch, o)
				// which frame is cut?
				fi := 0
				for fi+1 < len(starts) && starts[fi+1] <= off {
					fi++
				}
				inHeader := off-starts[fi] < ref.EncodedLen(ref.Header{Masked: frames[fi].H.Masked, Length: int64(len(frames[fi].Payload))})
				where := "payload"
				if off == starts[fi] {
					where = "frame-start"
				} else if inHeader {
					where = "header"
				}
				kind := "data"
				if ref.IsControl(frames[fi].H.Op) {
					kind = "control"
				}
				det := func() map[string]interface{} {
					return map[string]interface{}{"frames": gen.ShapesKey(shapes), "side": side, "entry": e.name, "plan": p.String(), "buf": o.Buf, "cut_offset": off, "stream_len": len(stream), "flavour": []string{"eof", "data+eof", "injected-error"}[fl],
						"cut_frame": fi, "cut_where": where, "is_message_boundary": bounds[off], "err": fmt.Sprint(obs.Err), "events": drive.EventStrings(obs.Events), "uncut_events": drive.EventStrings(base.Events), "written": fmt.Sprintf("%x", obs.Written)}
				}
				cls := fmt.Sprintf("%s/%s-%s", e.name, kind, where)
				if obs.Spin {
					c.Fail("cut/spin/"+cls, "reader spins on a cut stream", det())
					return false
				}
				whole, reported := 0, 0
				for _, e := range msgEnds {
					if e <= off {
						whole++
					}
				}
				for _, ev := range obs.Events {
					if ev.Kind == "msg" && !ref.IsControl(ev.Op) {
						reported++
					}
				}
				if reported > whole && e.o.Discard == nil {
					c.Fail("cut/message-reported-before-its-end/"+cls, fmt.Sprintf("%d data message(s) reported as read, the cut stream holds %d whole one(s)", reported, whole), det())
					return false
				}
				if noBase {
					// (the uncut run of this stream does not end cleanly - C04's business -, so there is nothing to be a prefix of)
					c.Inconclusive("uncut run does not end cleanly: " + fmt.Sprint(base.Err))
					continue
				}
				if d := isPrefix(obs.Events, base.Events); d != "" {
					c.Fail("cut/not-a-prefix/"+cls, "events on the cut stream are not a prefix of the uncut run: "+d, det())
					return false
				}
				if len(obs.CtlShort) > 0 {
					c.Fail("cut/short-control-payload/"+cls, "a control handler completed successfully on a shortened payload: "+obs.CtlShort[0], det())
					return false
				}
				switch {
				case fl == 2:
					if obs.Err == nil || obs.Err == io.EOF {
						c.Fail("cut/transport-error-swallowed/"+cls, fmt.Sprintf("the transport failed but the run ended with %v", obs.Err), det())
						return false
					}
				case bounds[off]:
					if obs.Err != io.EOF {
						c.Fail("cut/boundary-not-clean/"+cls, fmt.Sprintf("the stream ends on a message boundary but the run ended with %v", obs.Err), det())
						return false
					}
				default:
					if obs.Err == nil || obs.Err == io.EOF {
						c.Fail("cut/clean-end-inside-message/"+cls, fmt.Sprintf("the stream is cut inside a frame or between fragments but the run ended with %v", obs.Err), det())
						return false
					}
				}
				// replies: every pong written carries a whole ping payload
				replies, consumed, bad := ref.ParseFrames(obs.Written)
				if bad != "" || consumed != len(obs.Written) {
					c.Fail("cut/reply-garbled/"+cls, "bytes written in reply do not parse as whole frames", det())
					return false
				}
				for k, rf := range replies {
					if k >= len(pings) || rf.H.Op != ref.OpPong || !bytes.Equal(rf.Payload, pings[k]) {
						want := "none"
						if k < len(pings) {
							want = fmt.Sprintf("%x", pings[k])
						}
						c.Fail("cut/short-pong/"+cls, fmt.Sprintf("reply %d is op=%x payload=%x, the %d-th ping carries %s", k, rf.H.Op, rf.Payload, k, want), det())
						return false
					}
				}
				c.Classf("%s|fl=%d|boundary=%v|%s", cls, fl, bounds[off], gen.ShapeClass(shapes))
			}
		}
	}
	return true
}

func subCutEnum() mon.Sub {
	return mon.Sub{
		Name: "reader-cut-enum", Exhaustive: true, Required: true,
		N: func(t string) int { return len(streams(t)) * 2 },
		Do: func(c *mon.C) {
			ss := streams(c.Tier)
			sh := ss[c.I%len(ss)]
			side := []ref.Side{ref.SideServer, ref.SideClient}[c.I/len(ss)]
			total := 0
			for _, s := range sh {
				total += s.Len + 14
			}
			offs := make([]int, 0, total)
			for o := 1; o < total; o++ {
				offs = append(offs, o)
			}
			if cutStream(c, sh, side, offs, []int{0, 1, 2}) {
				c.Sample(map[string]interface{}{"frames": gen.ShapesKey(sh), "side": side, "offsets": "every byte offset", "flavours": "EOF, data+EOF, injected error", "entries": 8})
			}
		},
	}
}

func subCutRandom() mon.Sub {
	return mon.Sub{
		Name: "reader-cut-random", Required: true,
		N: func(t string) int {
			if t == "thorough" {
				return 40000
			}
			return 1500
		},
		Do: func(c *mon.C) {
			sh := gen.RandomShapes(c.Rng, 12, []int{0, 1, 5, 125, 126, 300, 4096})
			side := []ref.Side{ref.SideServer, ref.SideClient}[c.Rng.Intn(2)]
			total := 0
			for _, s := range sh {
				total += s.Len + 14
			}
			var offs []int
			for k := 0; k < 40; k++ {
				offs = append(offs, 1+c.Rng.Intn(total))
			}
			if cutStream(c, sh, side, offs, []int{c.Rng.Intn(3)}) {
				c.Sample(map[string]interface{}{"frames": gen.ShapesKey(sh), "side": side, "offsets": offs})
			}
		},
	}
}

// ------------------------------------------------------------ handshakes

// a failing WRITE during the handshake must surface as an error too
func subHandshakeWriteFault() mon.Sub {
	return mon.Sub{
		Name: "handshake-write-fault", Exhaustive: true, Required: true,
		N: func(string) int { return 2 * 4 * 3 * 4 },
		Do: func(c *mon.C) {
			server := c.I%2 == 0
			wbuf := []int{0, 16, 64, 100}[c.I/2%4]
			mode := c.I / 8 % 3 // 0 error, 1 short write 1 + error, 2 sticky
			// the application's extra header reaches the buffered writer as a string, as one byte slice larger
			// than the buffer (default buffer included), through several Write calls of a header function, or
			// from an http.Header: which of the buffered writer's paths takes it must not matter
			hkind := c.I / 24
			var extra ws.HandshakeHeader
			switch hkind {
			case 0:
				extra = ws.HandshakeHeaderString("X-Long: " + strings.Repeat("h", 150) + "\r\n")
			case 1:
				extra = ws.HandshakeHeaderBytes("X-Long: " + strings.Repeat("h", 6000) + "\r\n")
			case 2:
				extra = ws.HandshakeHeaderFunc(func(w io.Writer) (int64, error) {
					var n int64
					for _, part := range []string{"X-A: 1\r\n", "X-Long: " + strings.Repeat("h", 5000) + "\r\n", "X-B: 2\r\n", "X-Longer: " + strings.Repeat("g", 9000) + "\r\n"} {
						m, err := w.Write([]byte(part))
						n += int64(m)
						if err != nil {
							return n, err
						}
					}
					return n, nil
				})
			default:
				extra = ws.HandshakeHeaderHTTP(http.Header{"X-Long": {strings.Repeat("h", 5000)}, "X-Short": {"1"}})
			}
			req := gen.BuildReq(c.Rng, map[string]string{"extra": "some"}, []string{"chat"}, nil)
			// count the destination calls of a healthy run first
			healthy := func(rec *xport.Rec) error {
				if server {
					u := ws.Upgrader{WriteBufferSize: wbuf, Protocol: func([]byte) bool { return true }, Header: extra}
					_, err := u.Upgrade(xport.RW{Reader: bytes.NewReader(req.Bytes()), Writer: rec})
					return err
				}
				u, _ := url.ParseRequestURI("ws://fault.example/x")
				d := ws.Dialer{WriteBufferSize: wbuf, Protocols: []string{"chat"}, Header: extra}
				rw := &cutRW{build: func(reqb []byte) []byte {
					key := ""
					for _, l := range strings.Split(string(reqb), "\r\n") {
						if strings.HasPrefix(l, "Sec-WebSocket-Key: ") {
							key = strings.TrimPrefix(l, "Sec-WebSocket-Key: ")
						}
					}
					return gen.BuildResp(newRand(1), nil, gen.ReqInfo{Key: key, Protocols: []string{"chat"}}).Head()
				}, plan: xport.Plan{Kind: "whole"}, off: 1 << 20, endErr: io.EOF}
				_, _, err := d.Upgrade(failW{rw, rec}, u)
				return err
			}
			rec0 := xport.NewRec()
			if err := healthy(rec0); err != nil {
				c.Fail("handshake/healthy-run-failed", "handshake over a healthy transport failed: "+err.Error(), nil)
				return
			}
			for j := 0; j < len(rec0.Calls); j++ {
				c.Count(1)
				rec := xport.NewRec()
				rec.FailAt = j
				rec.Err = xport.FaultKinds[(c.I+j)%len(xport.FaultKinds)].Err
				if mode == 1 {
					rec.ShortN = 1
				}
				rec.Sticky = mode == 2
				err := healthy(rec)
				if err == nil {
					c.Fail(fmt.Sprintf("handshake/write-fault-swallowed/%s", map[bool]string{true: "upgrader", false: "dialer"}[server]),
						fmt.Sprintf("destination write call %d of %d failed during the handshake but nil was returned", j, len(rec0.Calls)), map[string]interface{}{"server": server, "write_buffer": wbuf, "mode": mode, "failing_call": j, "extra_header_given_as": hkinds[hkind]})
					return
				}
			}
			c.Classf("server=%v wbuf=%d mode=%d calls=%d hdr=%s", server, wbuf, mode, len(rec0.Calls), hkinds[hkind])
			c.Sample(map[string]interface{}{"server": server, "write_buffer": wbuf, "destination_calls": len(rec0.Calls), "mode": mode})
		},
	}
}

var hkinds = []string{"string", "bytes larger than the buffer", "function with several writes", "http.Header"}

// failW routes reads to rw and writes to both rw (so that the scripted peer sees the request) and rec (which may fail).
type failW struct {
	rw  *cutRW
	rec *xport.Rec
}

func (f failW) Read(p []byte) (int, error) { return f.rw.Read(p) }
func (f failW) Write(p []byte) (int, error) {
	n, err := f.rec.Write(p)
	if n > 0 {
		f.rw.Write(p[:n])
	}
	return n, err
}

func subHandshakeCut() mon.Sub {
	return mon.Sub{
		Name: "handshake-cut", Required: true,
		N: func(t string) int {
			if t == "thorough" {
				return 400
			}
			return 60
		},
		Do: func(c *mon.C) {
			plans := xport.Plans(c.Rng.Int63(), nil)
			if c.I%2 == 0 {
				// request cut before the end of the head
				choice := map[string]string{}
				if c.I%4 == 2 {
					choice["extra"] = "some"
					choice["eol"] = []string{"crlf", "lf"}[c.I/4%2]
				}
				req := gen.BuildReq(c.Rng, choice, [][]string{nil, {"chat, json"}}[c.I/2%2], [][]string{nil, {"permessage-deflate; client_max_window_bits"}}[c.I/2%2])
				data := req.Bytes()
				for off := 0; off < len(data); off++ {
					for fl := 0; fl < 3; fl++ {
						c.Count(1)
						p := plans[(off+fl)%len(plans)]
						p.EOFWithData = fl == 1
						var endErr error = io.EOF
						if fl == 2 {
							endErr = xport.ErrInjected
						}
						rec := xport.NewRec()
						u := ws.Upgrader{Protocol: func([]byte) bool { return true }, ReadBufferSize: []int{0, 16, 64}[off%3]}
						_, err := u.Upgrade(xport.RW{Reader: xport.NewCutter(data, p, off, endErr), Writer: rec})
						det := map[string]interface{}{"request": string(data), "cut_offset": off, "flavour": fl, "plan": p.String(), "err": fmt.Sprint(err), "written": string(rec.Bytes())}
						if err == nil {
							c.Fail("handshake/request-cut-accepted", fmt.Sprintf("Upgrade returned nil for a request cut at byte %d of %d", off, len(data)), det)
							return
						}
						if bytes.Contains(rec.Bytes(), []byte(" 101 ")) {
							c.Fail("handshake/request-cut-101", "a 101 response was written for a cut request", det)
							return
						}
					}
				}
				c.Classf("request|%v", choice)
				c.Sample(map[string]interface{}{"request_len": len(data), "offsets": "all", "flavours": 3})
				return
			}
			// response cut before the end of the head
			u, _ := url.ParseRequestURI("ws://cut.example/x")
			choice := map[string]string{"protocol": []string{"none", "first"}[c.I/2%2], "extensions": []string{"none", "first-with-params"}[c.I/4%2]}
			var headLen int
			for off := 0; ; off++ {
				stop := false
				for fl := 0; fl < 5; fl++ {
					c.Count(1)
					p := plans[(off+fl)%len(plans)]
					var endErr error = io.EOF
					if fl == 2 {
						endErr = xport.ErrInjected
					}
					if fl >= 3 {
						// flavours 3, 4: the transport ends the response with a TIMEOUT of its own (a deadline set by a
						// layer below, a stalled peer) and the handshake runs through Dial under a context that is
						// still alive afterwards - Background, or a cancellable one
						endErr = xport.ErrTimeout
					}
					conn := &fakeconn.Script{}
					conn.Respond = func(written []byte) []byte { return nil }
					var full []byte
					d := ws.Dialer{Protocols: []string{"chat"}, ReadBufferSize: []int{0, 16, 64}[off%3]}
					// a two-stage script: learn the key, build the response, cut it
					rw := &cutRW{build: func(req []byte) []byte {
						key := ""
						for _, l := range strings.Split(string(req), "\r\n") {
							if strings.HasPrefix(l, "Sec-WebSocket-Key: ") {
								key = strings.TrimPrefix(l, "Sec-WebSocket-Key: ")
							}
						}
						r := gen.BuildResp(newRand(int64(c.I)), choice, gen.ReqInfo{Key: key, Protocols: []string{"chat"}, Extensions: []string{"permessage-deflate"}})
						full = r.Head()
						return full
					}, plan: p, off: off, endErr: endErr, eofWithData: fl == 1}
					var br *bufio.Reader
					var err error
					if fl >= 3 {
						cc := &cutConn{cutRW: rw}
						d.NetDial = func(ctx context.Context, network, addr string) (net.Conn, error) { return cc, nil }
						ctx := context.Background()
						if fl == 4 {
							var cancel context.CancelFunc
							ctx, cancel = context.WithCancel(ctx)
							defer cancel()
						}
						_, br, _, err = d.Dial(ctx, "ws://cut.example/x")
						if err != nil && off < len(full) && !cc.closed {
							c.Fail("handshake/response-cut-not-closed", fmt.Sprintf("Dial failed (%v) for a response cut at byte %d and left the connection open", err, off), nil)
							return
						}
					} else {
						br, _, err = d.Upgrade(rw, u)
					}
					headLen = len(full)
					if off >= headLen {
						stop = true
						break
					}
					det := map[string]interface{}{"response": string(full), "cut_offset": off, "flavour": fl, "err": fmt.Sprint(err)}
					if err == nil {
						c.Fail("handshake/response-cut-accepted", fmt.Sprintf("the dialer returned nil for a response cut at byte %d of %d", off, headLen), det)
						return
					}
					if br != nil {
						c.Fail("handshake/response-cut-buffer", "a buffer was returned together with an error", det)
						return
					}
				}
				if stop {
					break
				}
			}
			c.Classf("response|%v", choice)
			c.Sample(map[string]interface{}{"response_len": headLen, "offsets": "all", "flavours": 3})
		},
	}
}

// cutConn makes a net.Conn of a cutRW (for Dialer.NetDial); deadlines are accepted and have no effect.
type cutConn struct {
	*cutRW
	closed bool
}

func (c *cutConn) Close() error                     { c.closed = true; return nil }
func (c *cutConn) LocalAddr() net.Addr              { return &net.TCPAddr{} }
func (c *cutConn) RemoteAddr() net.Addr             { return &net.TCPAddr{} }
func (c *cutConn) SetDeadline(time.Time) error      { return nil }
func (c *cutConn) SetReadDeadline(time.Time) error  { return nil }
func (c *cutConn) SetWriteDeadline(time.Time) error { return nil }

type cutRW struct {
	build       func(req []byte) []byte
	req         bytes.Buffer
	ch          *xport.Chunker
	plan        xport.Plan
	off         int
	endErr      error
	eofWithData bool
}

func (c *cutRW) Write(p []byte) (int, error) { c.req.Write(p); return len(p), nil }
func (c *cutRW) Read(p []byte) (int, error) {
	if c.ch == nil {
		data := c.build(c.req.Bytes())
		pl := c.plan
		pl.EOFWithData = c.eofWithData
		off := c.off
		if off > len(data) {
			off = len(data)
		}
		c.ch = xport.NewCutter(data, pl, off, c.endErr)
	}
	return c.ch.Read(p)
}

// ------------------------------------------------------------ writer

func subWriterFail() mon.Sub {
	alpha := wops.Alphabet()
	type wc struct {
		client  bool
		size    int
		noFlush bool
	}
	cfgs := []wc{{false, 16, false}, {true, 20, false}, {false, 126, false}, {true, 16, true}}
	followups := []wops.Op{{Kind: wops.Write, Sel: 1}, {Kind: wops.Write, Sel: 6}, {Kind: wops.WriteThrough, Sel: 1}, {Kind: wops.FlushFragment}, {Kind: wops.Flush}, {Kind: wops.ReadFrom, Sel: 5}, {Kind: wops.Write, Sel: 0}}
	return mon.Sub{
		Name: "writer-failure", Exhaustive: true, Required: true,
		N: func(t string) int {
			if t == "thorough" {
				return len(cfgs) * len(alpha) * len(alpha) * len(alpha)
			}
			return len(cfgs) * len(alpha) * len(alpha)
		},
		Do: func(c *mon.C) {
			na := len(alpha)
			cfg := cfgs[c.I%len(cfgs)]
			x := c.I / len(cfgs)
			ops := []wops.Op{alpha[x%na], alpha[x/na%na]}
			if c.Tier == "thorough" {
				ops = append(ops, alpha[x/na/na%na])
			}
			ops = append(ops, wops.Op{Kind: wops.Flush})
			st := ws.StateServerSide
			if cfg.client {
				st = ws.StateClientSide
			}
			mk := func(rec *xport.Rec) *wsutil.Writer {
				w := wsutil.NewWriterSize(rec, st, ws.OpBinary, cfg.size)
				if cfg.noFlush {
					w.DisableFlush()
				}
				return w
			}
			// healthy run: how many destination calls does the history make?
			rec0 := xport.NewRec()
			w0 := mk(rec0)
			f0 := &wops.Feed{}
			for _, op := range ops {
				wops.Apply(w0, op, f0, 7)
			}
			ncalls := len(rec0.Calls)
			for j := 0; j < ncalls; j++ {
				for _, short := range []int{-1, 0, 1, 3} {
					c.Count(1)
					rec := xport.NewRec()
					rec.FailAt, rec.ShortN = j, short
					// (a failed write is a failed write whatever kind of error reports it)
					fk := xport.FaultKinds[(c.I+j+short+1)%len(xport.FaultKinds)]
					rec.Err = fk.Err
					w := mk(rec)
					feed := &wops.Feed{}
					var trace []string
					failedAt := -1
					for i, op := range ops {
						r := wops.Apply(w, op, feed, 7)
						trace = append(trace, fmt.Sprintf("%s -> n=%d err=%v", r.Op, r.N, r.Err))
						if len(rec.Calls) > j && failedAt < 0 {
							failedAt = i
						}
					}
					if failedAt < 0 {
						continue // the failing call index was not reached with this history (lengths depend on earlier errors)
					}
					callsAtFailure := j + 1
					det := map[string]interface{}{"config": fmt.Sprintf("%+v", cfg), "ops": trace, "failing_dest_call": j, "short_write": short, "dest_calls_seen": len(rec.Calls), "error_kind": fk.Name, "error": fk.Err.Error()}
					if len(rec.Calls) > callsAtFailure {
						c.Fail("writer/sends-after-failure/history", fmt.Sprintf("destination call %d failed but %d more calls followed during the same history", j, len(rec.Calls)-callsAtFailure), det)
						return
					}
					// (the follow-ups start at a different operation from case to case: what comes FIRST
					// after the failure - a flush with nothing new written, say - matters)
					rot := (c.I + j + short + 1) % len(followups)
					for fi := range followups {
						fu := followups[(fi+rot)%len(followups)]
						before := len(rec.Calls)
						r := wops.Apply(w, fu, feed, 9)
						trace = append(trace, fmt.Sprintf("follow-up %s -> n=%d err=%v", r.Op, r.N, r.Err))
						det["ops"] = trace
						if len(rec.Calls) > before {
							c.Fail("writer/sends-after-failure/"+kindName(fu), fmt.Sprintf("%s after a failed destination write sent more bytes", r.Op), det)
							return
						}
						if r.Err == nil && fu.Kind != wops.ReadFrom && fu.Kind != wops.ReadFromErr && fu.Kind != wops.ReadFromStall {
							c.Fail("writer/error-not-sticky/"+kindName(fu), fmt.Sprintf("%s after a failed destination write returned nil", r.Op), det)
							return
						}
					}
					// ResetOp moves on to the next message on the SAME destination (the documented quick reset keeps
					// everything but the unflushed fragments): the broken destination is still broken
					w.ResetOp(ws.OpBinary)
					after := []wops.Op{{Kind: wops.Write, Sel: 1}, {Kind: wops.Write, Sel: 6}, {Kind: wops.Flush}}
					if rot%2 == 1 {
						after = []wops.Op{{Kind: wops.Flush}, {Kind: wops.FlushFragment}, {Kind: wops.Write, Sel: 1}, {Kind: wops.Flush}}
					}
					for _, fu := range after {
						before := len(rec.Calls)
						r := wops.Apply(w, fu, feed, 9)
						trace = append(trace, fmt.Sprintf("after ResetOp: %s -> n=%d err=%v", r.Op, r.N, r.Err))
						det["ops"] = trace
						if len(rec.Calls) > before {
							c.Fail("writer/sends-after-failure/ResetOp+"+kindName(fu), fmt.Sprintf("%s after a failed destination write and ResetOp sent more bytes to the same destination", r.Op), det)
							return
						}
						if r.Err == nil {
							c.Fail("writer/error-not-sticky/ResetOp+"+kindName(fu), fmt.Sprintf("%s after a failed destination write and ResetOp returned nil", r.Op), det)
							return
						}
					}
					c.Classf("cfg=%v|fail=%d|short=%d|%s|%s,%s", cfg, j, short, fk.Name, ops[0], ops[1])
				}
			}
			if c.WantSample() {
				var s []string
				for _, o := range ops {
					s = append(s, o.String())
				}
				c.Sample(map[string]interface{}{"config": fmt.Sprintf("%+v", cfg), "history": s, "destination_calls": ncalls, "failure_modes": "error, short write 0/1/3 + error", "followups": len(followups)})
			}
		},
	}
}

func kindName(o wops.Op) string {
	return wops.KindName(o.Kind)
}

func main() {
	mon.Main(&mon.Spec{
		Property: "C16",
		Level:    "fault_enumeration",
		Rule: "fault enumeration: (a) every valid complete frame stream up to depth 3 (quick) / 4 (thorough) on both sides, cut at EVERY byte offset in three flavours (EOF, final data together with EOF, injected transport error) through Reader, Reader+ControlFrameHandler, Reader+Discard, ReadMessage, ReadData, Read*Text, Read*Binary and NextReader, plus random longer streams at 40 random offsets, plus three stream shapes with messages above 1 MiB cut at frame starts, header ends, the 1 MiB mark and payload ends; oracle = the uncut run of the same stream (events must be a prefix), the message-boundary set of the reference reassembly (clean EOF only there), control payloads never shortened (callbacks, collected messages, pongs on the wire); " +
			"(a') the same streams (and random ones with payloads up to 70000 bytes, and frames of 1 MiB .. 2 MiB+5 cut around the header, the 1 MiB mark and the payload end) cut at every offset through the frame-level decoders: a ws.ReadFrame read-until-EOF loop and a ws.ReadHeader + exact payload read loop: frames returned are exactly the whole frames before the cut, io.EOF only on a frame boundary, an injected error never turns into io.EOF; " +
			"(b) upgrade requests and 101 responses cut at every offset of the head in the three flavours: error, no 101, no buffer; every destination write call of the handshake (request or response, write buffers 16..default) failing as error / short write / sticky: error returned; (c) every writer history of depth 2 (quick) / 3 (thorough) over the 30-op alphabet + Flush for 4 configurations with the destination failing at every call index as error or short write (0/1/3 bytes) + error - eight kinds of error: plain, expired write deadline, net.Error timeout / temporary, io.ErrShortWrite, io.EOF, EPIPE, net.ErrClosed -, then 7 follow-up operations (starting at a different one from case to case, so that each kind also comes first after the failure), then ResetOp (same destination) + Write/Write/Flush or Flush/FlushFragment/Write/Flush: each returns the error (ReadFrom's return is left open) and the destination sees no further call. distinct = (entry, cut frame kind/position, flavour, boundary, stream shape) / (config, failing call, mode, history).",
		Assumptions: []string{"the uncut run itself is checked by C04", "ReadFrom's return value after a failure is OPEN (the statement names writes and flushes); 'no further bytes' is enforced for it too"},
		Subs:        []mon.Sub{subCutEnum(), subCutRandom(), subFrameCutEnum(), subFrameCutRandom(), subFrameCutLarge(), subReaderCutLarge(), subHandshakeCut(), subHandshakeWriteFault(), subWriterFail()},
	})
}
