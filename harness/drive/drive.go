// Package drive holds the consumer drivers: the ways an application pulls
// messages out of the library (manual Reader, NextReader, ReadMessage, the
// ReadData family), each turned into an observed event list that monitors
// compare with the reference reassembly.
package drive

import (
	"bufio"
	"bytes"
	"errors"
	"fmt"
	"io"
	"net"
	"strings"

	"github.com/gobwas/ws"
	"github.com/gobwas/ws/wsutil"

	"verifharness/ref"
	"verifharness/wsx"
)

// Opts selects an entry point and its configuration.
type Opts struct {
	Entry    string // reader | nextreader | readmessage | readdata | readtext | readbinary
	Side     ref.Side
	Extended bool
	Buf      int // caller read buffer size
	// reader entry only:
	CheckUTF8    bool
	SkipCheck    bool
	MaxFrameSize int64
	Extensions   []wsutil.RecvExtension
	// Discard: message ordinal -> number of bytes to read before Discard().
	Discard map[int]int
	// Intermediate: 0 read whole payload in OnIntermediate, 1 read nothing,
	// 2 no handler installed, 3 use wsutil.ControlFrameHandler(dst).
	Intermediate int
	// OnHeader is called with every header NextFrame returned (reader entry).
	OnHeader func(h ws.Header, rd *wsutil.Reader)
	// MaxEvents stops the driver after that many events (0 = until error).
	MaxEvents int
	// ContRead: the OnContinuation handler reads the body of every continuation frame itself (what a
	// FrameHandlerFunc is for) and hands it to the consumer; Read then finds those frames drained.
	ContRead bool
	// Wrap puts the transport behind another kind of io.Reader before the library
	// sees it (see Wraps); "" = as given.
	Wrap string
	// ExactRead: an unfragmented message is taken with one io.ReadFull of exactly Header.Length bytes and no
	// further Read (how wsutil.ReadMessage and many applications consume a frame whose size they know): the
	// Reader never gets to report the end of that message.
	ExactRead bool
	// Retry: the consumer is a deadline-driven read loop - a NextFrame or Read that fails with a timeout
	// (net.Error, Timeout() true) is simply called again (reader entry).
	Retry bool
}

func isTimeout(err error) bool {
	ne, ok := err.(net.Error)
	return ok && ne.Timeout()
}

// Wraps are the kinds of source an application may hand to the readers: what
// they deliver must not depend on the concrete type (or the optional
// interfaces) of the source.
var Wraps = []string{"", "bufio16", "bufio4096", "bufio37-used", "read-only"}

type readOnly struct{ r io.Reader }

func (r readOnly) Read(p []byte) (int, error) { return r.r.Read(p) }

// WrapSource applies a Wraps kind to src.
func WrapSource(src io.Reader, kind string) io.Reader {
	switch kind {
	case "bufio16":
		return bufio.NewReaderSize(src, 16)
	case "bufio4096":
		return bufio.NewReaderSize(src, 4096)
	case "bufio37-used":
		// a buffered reader whose buffer is part-consumed when the first frame comes
		br := bufio.NewReaderSize(io.MultiReader(strings.NewReader("0123456789ab"), src), 37)
		io.ReadFull(br, make([]byte, 12))
		return br
	case "read-only":
		return readOnly{src}
	}
	return src
}

// Obs is what the consumer observed.
type Obs struct {
	Events []ref.Event
	// Err is the error that ended the run (io.EOF for a clean end of stream).
	Err error
	// Partial holds message bytes delivered by reads that preceded Err for the
	// message that was being read when Err happened.
	Partial   []byte
	PartialOp byte
	InMessage bool
	// Written is everything the library wrote to the destination.
	Written []byte
	// ContCalls counts OnContinuation invocations.
	ContCalls int
	// Spin is set when a reader returned (0, nil) a million times in a row.
	Spin bool
	// CtlShort records control handler invocations that saw fewer bytes than
	// the header announced without an error.
	CtlShort []string
	// Retried counts the calls repeated after a timeout (Opts.Retry).
	Retried int
}

var errSpin = errors.New("drive: reader spins returning (0, nil)")

// CopyBuf is the caller buffer size that stands for "the consumer uses io.Copy"
// (32 KiB internal buffer, and whatever io.WriterTo fast path the reader offers).
const CopyBuf = 32768

func readAll(r io.Reader, buf []byte, into *[]byte) error {
	if len(buf) == CopyBuf {
		var b bytes.Buffer
		_, err := io.Copy(&b, r)
		*into = append(*into, b.Bytes()...)
		return err
	}
	empty := 0
	for {
		n, err := r.Read(buf)
		if n < 0 || n > len(buf) {
			return fmt.Errorf("drive: io.Reader contract broken: Read returned n=%d for a %d-byte buffer (err=%v)", n, len(buf), err)
		}
		*into = append(*into, buf[:n]...)
		if err == io.EOF {
			return nil
		}
		if err != nil {
			return err
		}
		if n == 0 {
			empty++
			if empty > 1000000 {
				return errSpin
			}
		} else {
			empty = 0
		}
	}
}

type sink struct{ b []byte }

func (s *sink) Write(p []byte) (int, error) { s.b = append(s.b, p...); return len(p), nil }

// Run drives src through the chosen entry point until an error ends it.
func Run(src io.Reader, o Opts) (obs Obs) {
	src = WrapSource(src, o.Wrap)
	if o.Buf <= 0 {
		o.Buf = 4096
	}
	st := wsx.State(o.Side, o.Extended, false)
	dst := &sink{}
	defer func() { obs.Written = dst.b }()
	buf := make([]byte, o.Buf)
	full := func() bool { return o.MaxEvents > 0 && len(obs.Events) >= o.MaxEvents }

	switch o.Entry {
	case "reader":
		// (the Reader comes from a struct literal or from one of the three constructors, options set afterwards)
		var rd *wsutil.Reader
		switch k := (o.Buf + len(o.Wrap)) % 3; {
		case k == 0:
			rd = &wsutil.Reader{Source: src, State: st}
		case k == 1 && st == ws.StateServerSide:
			rd = wsutil.NewServerSideReader(src)
		case k == 1 && st == ws.StateClientSide:
			rd = wsutil.NewClientSideReader(src)
		default:
			rd = wsutil.NewReader(src, st)
		}
		rd.CheckUTF8, rd.SkipHeaderCheck, rd.MaxFrameSize, rd.Extensions = o.CheckUTF8, o.SkipCheck, o.MaxFrameSize, o.Extensions
		var ctlh wsutil.FrameHandlerFunc
		switch o.Intermediate {
		case 0:
			rd.OnIntermediate = func(h ws.Header, r io.Reader) error {
				var p []byte
				if err := readAll(r, make([]byte, o.Buf), &p); err != nil {
					return err
				}
				if int64(len(p)) != h.Length {
					obs.CtlShort = append(obs.CtlShort, fmt.Sprintf("intermediate op=%x announced=%d seen=%d", h.OpCode, h.Length, len(p)))
				}
				obs.Events = append(obs.Events, ref.Event{Kind: "ctl", Op: byte(h.OpCode), Payload: p, Intermediate: true})
				return nil
			}
		case 1:
			rd.OnIntermediate = func(h ws.Header, r io.Reader) error {
				obs.Events = append(obs.Events, ref.Event{Kind: "ctl", Op: byte(h.OpCode), Payload: nil, Intermediate: true})
				return nil
			}
		case 3:
			ctlh = wsutil.ControlFrameHandler(dst, st)
			rd.OnIntermediate = ctlh
		}
		var cur *[]byte // the message being read (nil: none, or one that is being thrown away)
		rd.OnContinuation = func(h ws.Header, r io.Reader) error {
			obs.ContCalls++
			if !o.ContRead {
				return nil
			}
			var body []byte
			if err := readAll(r, make([]byte, 1+o.Buf%7), &body); err != nil {
				return err
			}
			if cur != nil {
				*cur = append(*cur, body...)
			}
			return nil
		}
		if o.ContRead && len(buf) == CopyBuf {
			buf = make([]byte, 4096) // (io.Copy collects its bytes apart: the handler's bytes would come out of order)
		}
		retries := 0
		for ord := 0; !full(); {
			h, err := rd.NextFrame()
			if err != nil && o.Retry && isTimeout(err) && retries < 16 {
				retries++
				obs.Retried++
				continue
			}
			if err != nil {
				obs.Err = err
				return
			}
			if o.OnHeader != nil {
				o.OnHeader(h, rd)
			}
			if h.OpCode.IsControl() {
				if ctlh != nil {
					if err := ctlh(h, rd); err != nil {
						obs.Err = err
						return
					}
					continue
				}
				var p []byte
				if err := readAll(rd, buf, &p); err != nil {
					obs.Err = err
					obs.Spin = err == errSpin
					return
				}
				obs.Events = append(obs.Events, ref.Event{Kind: "ctl", Op: byte(h.OpCode), Payload: p})
				continue
			}
			if j, ok := o.Discard[ord]; ok {
				p := make([]byte, j)
				for got, empty := 0, 0; got < j; {
					n, err := rd.Read(p[got:])
					got += n
					if err != nil && o.Retry && isTimeout(err) && retries < 16 {
						retries++
						obs.Retried++
						continue
					}
					if err == io.EOF {
						break // message shorter than j: Discard below is a no-op
					}
					if n == 0 {
						if empty++; empty > 1000000 {
							err = errSpin
						}
					}
					if err != nil {
						obs.Err, obs.Partial, obs.PartialOp, obs.InMessage = err, p[:got], byte(h.OpCode), true
						obs.Spin = err == errSpin
						return
					}
				}
				err := rd.Discard()
				for err != nil && o.Retry && isTimeout(err) && retries < 16 {
					// (a deadline expired while the message was being skipped: the application calls Discard again)
					retries++
					obs.Retried++
					err = rd.Discard()
				}
				if err != nil {
					obs.Err = err
					return
				}
				ord++
				continue
			}
			if o.ExactRead && h.Fin && h.OpCode != ws.OpContinuation {
				p := make([]byte, h.Length)
				if _, err := io.ReadFull(rd, p); err != nil {
					obs.Err, obs.Partial, obs.PartialOp, obs.InMessage = err, nil, byte(h.OpCode), true
					return
				}
				obs.Events = append(obs.Events, ref.Event{Kind: "msg", Op: byte(h.OpCode), Payload: p})
				ord++
				continue
			}
			var p []byte
			obs.InMessage, obs.PartialOp = true, byte(h.OpCode)
			cur = &p
			err = readAll(rd, buf, &p)
			for err != nil && o.Retry && isTimeout(err) && retries < 16 {
				retries++
				obs.Retried++
				err = readAll(rd, buf, &p)
				if err == wsutil.ErrNoFrameAdvance {
					// "every new Read must be preceded by NextFrame": the consumer, which knows that its message has
					// not ended, asks for the next frame and goes on reading
					var h2 ws.Header
					if h2, err = rd.NextFrame(); err == nil {
						_ = h2
						err = readAll(rd, buf, &p)
					}
				}
			}
			cur = nil
			if err != nil {
				obs.Err = err
				obs.Partial = p
				obs.Spin = err == errSpin
				return
			}
			obs.InMessage = false
			obs.Events = append(obs.Events, ref.Event{Kind: "msg", Op: byte(h.OpCode), Payload: p})
			ord++
		}

	case "nextreader":
		for !full() {
			h, r, err := wsutil.NextReader(src, st)
			if err != nil {
				obs.Err = err
				return
			}
			var p []byte
			obs.InMessage, obs.PartialOp = true, byte(h.OpCode)
			if err := readAll(r, buf, &p); err != nil {
				obs.Err = err
				obs.Partial = p
				obs.Spin = err == errSpin
				return
			}
			obs.InMessage = false
			kind := "msg"
			if h.OpCode.IsControl() {
				kind = "ctl"
			}
			obs.Events = append(obs.Events, ref.Event{Kind: kind, Op: byte(h.OpCode), Payload: p})
		}

	case "readmessage":
		for !full() {
			var ms []wsutil.Message
			var err error
			switch {
			case o.Side == ref.SideServer && !o.Extended:
				ms, err = wsutil.ReadClientMessage(src, nil)
			case o.Side == ref.SideClient && !o.Extended:
				ms, err = wsutil.ReadServerMessage(src, nil)
			default:
				ms, err = wsutil.ReadMessage(src, st, nil)
			}
			if err != nil {
				// messages collected before the error are intermediates only
				for _, m := range ms {
					obs.Events = append(obs.Events, ref.Event{Kind: "ctl", Op: byte(m.OpCode), Payload: m.Payload, Intermediate: true})
				}
				obs.Err = err
				return
			}
			for k, m := range ms {
				if m.OpCode.IsControl() {
					obs.Events = append(obs.Events, ref.Event{Kind: "ctl", Op: byte(m.OpCode), Payload: m.Payload, Intermediate: k < len(ms)-1})
				} else {
					obs.Events = append(obs.Events, ref.Event{Kind: "msg", Op: byte(m.OpCode), Payload: m.Payload})
				}
			}
		}

	case "readdata", "readtext", "readbinary":
		rw := struct {
			io.Reader
			io.Writer
		}{src, dst}
		for !full() {
			var p []byte
			var op ws.OpCode
			var err error
			switch {
			case o.Entry == "readdata" && o.Side == ref.SideServer && !o.Extended:
				p, op, err = wsutil.ReadClientData(rw)
			case o.Entry == "readdata" && o.Side == ref.SideClient && !o.Extended:
				p, op, err = wsutil.ReadServerData(rw)
			case o.Entry == "readdata":
				p, op, err = wsutil.ReadData(rw, st)
			case o.Entry == "readtext" && o.Side == ref.SideServer:
				p, err = wsutil.ReadClientText(rw)
				op = ws.OpText
			case o.Entry == "readtext":
				p, err = wsutil.ReadServerText(rw)
				op = ws.OpText
			case o.Entry == "readbinary" && o.Side == ref.SideServer:
				p, err = wsutil.ReadClientBinary(rw)
				op = ws.OpBinary
			default:
				p, err = wsutil.ReadServerBinary(rw)
				op = ws.OpBinary
			}
			if err != nil {
				obs.Err = err
				obs.Partial = p
				obs.InMessage = len(p) > 0
				return
			}
			obs.Events = append(obs.Events, ref.Event{Kind: "msg", Op: byte(op), Payload: p})
		}
	}
	return
}

// EventString renders an event compactly.
func EventString(e ref.Event) string {
	p := e.Payload
	s := fmt.Sprintf("%x", p)
	if len(p) > 24 {
		s = fmt.Sprintf("%x..(%d bytes, fnv %x)", p[:16], len(p), fnv(p))
	}
	i := ""
	if e.Intermediate {
		i = ":I"
	}
	return fmt.Sprintf("%s:%x%s:%s", e.Kind, e.Op, i, s)
}

func fnv(p []byte) uint32 {
	h := uint32(2166136261)
	for _, b := range p {
		h = (h ^ uint32(b)) * 16777619
	}
	return h
}

// EventStrings renders a list.
func EventStrings(es []ref.Event) []string {
	out := make([]string, len(es))
	for i, e := range es {
		out[i] = EventString(e)
	}
	return out
}

// Diff returns "" when the lists are equal (Intermediate flags compared only
// when strictI), else a description of the first difference.
func Diff(got, want []ref.Event, strictI bool) string {
	for i := 0; i < len(got) || i < len(want); i++ {
		if i >= len(got) {
			return fmt.Sprintf("event %d missing: want %s (got %d events, want %d)", i, EventString(want[i]), len(got), len(want))
		}
		if i >= len(want) {
			return fmt.Sprintf("extra event %d: %s (want %d events)", i, EventString(got[i]), len(want))
		}
		g, w := got[i], want[i]
		if g.Kind != w.Kind || g.Op != w.Op || string(g.Payload) != string(w.Payload) || (strictI && g.Intermediate != w.Intermediate) {
			return fmt.Sprintf("event %d: got %s want %s", i, EventString(g), EventString(w))
		}
	}
	return ""
}

// Expect computes what an entry point must observe for a valid, complete
// frame sequence, given the documented behaviour of that entry point.
func Expect(frames []ref.Frame, o Opts) []ref.Event {
	evs, _ := ref.Reassemble(frames)
	var out []ref.Event
	ord := 0
	for _, e := range evs {
		if e.Kind == "msg" {
			_, discarded := o.Discard[ord]
			ord++
			if discarded && o.Entry == "reader" {
				continue
			}
		}
		switch o.Entry {
		case "reader":
			if e.Kind == "ctl" {
				if e.Intermediate && o.Intermediate == 2 {
					continue // no handler: dropped
				}
				if o.Intermediate == 3 {
					continue // handled by the control handler (replies checked separately)
				}
				if e.Intermediate && o.Intermediate == 1 {
					e.Payload = nil
				}
			}
			out = append(out, e)
		case "nextreader":
			if e.Kind == "ctl" && e.Intermediate {
				continue
			}
			out = append(out, e)
		case "readmessage":
			out = append(out, e)
		case "readdata":
			if e.Kind == "msg" {
				out = append(out, e)
			}
		case "readtext":
			if e.Kind == "msg" && e.Op == ref.OpText {
				out = append(out, e)
			}
		case "readbinary":
			if e.Kind == "msg" && e.Op == ref.OpBinary {
				out = append(out, e)
			}
		}
	}
	return out
}

// ExpectPongs returns the pong payloads the built-in control handler must
// write for the pings of a valid frame sequence, in order.
func ExpectPongs(frames []ref.Frame) [][]byte {
	var out [][]byte
	for _, f := range frames {
		if f.H.Op == ref.OpPing {
			out = append(out, f.Payload)
		}
	}
	return out
}

// Prelude is "another connection's unfinished business": a connection of the same process that ends its life in the
// MIDDLE of a text message - a close frame between the fragments after a fragment that stopped inside a multi-byte
// character, the transport cut inside a character, a message that is not UTF-8 - read through the one-call helpers.
// What the helpers return for it is judged elsewhere (C07, C08, C16); here it only has to have happened, on the same
// goroutine, right before a valid stream is read: whatever the helpers keep between calls must not carry over.
func Prelude(kind int) {
	side := ref.Side(ref.SideServer)
	if kind%2 == 1 {
		side = ref.SideClient
	}
	var frames []ref.Frame
	switch kind / 2 % 4 {
	case 0:
		frames = []ref.Frame{{H: ref.Header{Op: ref.OpText}, Payload: []byte("ab\xe2\x82")}, {H: ref.Header{Fin: true, Op: ref.OpClose}, Payload: []byte{0x03, 0xe9, 'b', 'y', 'e'}}}
	case 1:
		frames = []ref.Frame{{H: ref.Header{Op: ref.OpText}, Payload: []byte("\xf0\x9f")}} // and the stream ends
	case 2:
		frames = []ref.Frame{{H: ref.Header{Fin: true, Op: ref.OpText}, Payload: []byte("ok\xff\xfe")}}
	case 3:
		frames = []ref.Frame{{H: ref.Header{Op: ref.OpText}, Payload: []byte("\xc3")}, {H: ref.Header{Fin: true, Op: ref.OpPing}, Payload: []byte("p")}, {H: ref.Header{Fin: true, Op: ref.OpClose}}}
	}
	var stream []byte
	for _, f := range frames {
		if side == ref.SideServer {
			f.H.Masked = true
			f.H.Mask = [4]byte{0x11, 0x22, 0x33, byte(kind)}
		}
		stream = append(stream, f.Encode()...)
	}
	st := ws.StateServerSide
	if side == ref.SideClient {
		st = ws.StateClientSide
	}
	rw := func() io.ReadWriter {
		return struct {
			io.Reader
			io.Writer
		}{bytes.NewReader(stream), io.Discard}
	}
	switch kind / 8 % 3 {
	case 0:
		if side == ref.SideServer {
			wsutil.ReadClientData(rw())
			wsutil.ReadClientText(rw())
		} else {
			wsutil.ReadServerData(rw())
			wsutil.ReadServerText(rw())
		}
	case 1:
		wsutil.ReadMessage(bytes.NewReader(stream), st, nil)
		wsutil.ReadData(rw(), st)
	case 2:
		if _, r, err := wsutil.NextReader(bytes.NewReader(stream), st); err == nil {
			io.Copy(io.Discard, r)
		}
		wsutil.ReadData(rw(), st)
	}
}
