package main

import (
	"fmt"

	"github.com/gobwas/ws"
	"github.com/gobwas/ws/wsflate"

	"verifharness/mon"
)

// subBitHelpers: the frame-level shortcuts SetBit / UnsetBit / IsCompressed
// for every opcode x RSV pattern x Fin: RSV1 is reported (and cleared, RSV2/3
// untouched) on the first frame of a data message, it is an error on a
// continuation or control frame, and IsCompressed is UnsetBit without the
// header.
func subBitHelpers() mon.Sub {
	return mon.Sub{
		Name: "bit-helpers", Exhaustive: true, Required: true,
		N: func(string) int { return 16 * 8 * 2 },
		Do: func(c *mon.C) {
			op := ws.OpCode(c.I % 16)
			rsv := byte(c.I / 16 % 8)
			fin := c.I/128 == 1
			if op.IsReserved() {
				// reserved opcodes never pass the header check; what the helpers say about them is open
				c.Classf("reserved")
				return
			}
			h := ws.Header{Fin: fin, Rsv: rsv, OpCode: op, Length: 3}
			r1, r2, r3 := ws.RsvBits(rsv)
			first := op == ws.OpText || op == ws.OpBinary
			det := map[string]interface{}{"opcode": int(op), "rsv": rsv, "fin": fin}
			c.Count(1)
			uh, was, uerr := wsflate.UnsetBit(h)
			ic, ierr := wsflate.IsCompressed(h)
			switch {
			case first:
				want := h
				want.Rsv = ws.Rsv(false, r2, r3)
				if uerr != nil || was != r1 || uh != want {
					c.Fail("helpers/unsetbit/first-frame", fmt.Sprintf("UnsetBit(first data frame, rsv=%03b) = (%+v, %v, %v)", rsv, uh, was, uerr), det)
					return
				}
				if ierr != nil || ic != r1 {
					c.Fail("helpers/iscompressed/first-frame", fmt.Sprintf("IsCompressed(first data frame, rsv=%03b) = (%v, %v)", rsv, ic, ierr), det)
					return
				}
			case r1:
				if uerr == nil {
					c.Fail("helpers/unsetbit/accepts-rsv1", "UnsetBit accepts RSV1 on a continuation or control frame", det)
					return
				}
				if ierr == nil {
					c.Fail("helpers/iscompressed/accepts-rsv1", fmt.Sprintf("IsCompressed reports (%v, nil) for RSV1 on a continuation or control frame", ic), det)
					return
				}
			default:
				if uerr != nil || was || uh != h || ierr != nil || ic {
					c.Fail("helpers/plain-later-frame", fmt.Sprintf("a continuation/control frame without RSV1: UnsetBit=(%+v,%v,%v) IsCompressed=(%v,%v)", uh, was, uerr, ic, ierr), det)
					return
				}
			}
			// SetBit: marks the first frame of a data message, leaves the other frames alone, refuses a header that has RSV1 already
			sh, serr := wsflate.SetBit(h)
			switch {
			case r1:
				if serr == nil {
					c.Fail("helpers/setbit/rsv1-already-set", "SetBit accepts a header that already has RSV1", det)
					return
				}
			case first:
				want := h
				want.Rsv = ws.Rsv(true, r2, r3)
				if serr != nil || sh != want {
					c.Fail("helpers/setbit/first-frame", fmt.Sprintf("SetBit(first data frame) = (%+v, %v)", sh, serr), det)
					return
				}
			default:
				if serr != nil || sh != h {
					c.Fail("helpers/setbit/later-frame", fmt.Sprintf("SetBit(continuation/control frame) = (%+v, %v), want the header unchanged", sh, serr), det)
					return
				}
			}
			c.Classf("op=%x first=%v r1=%v", int(op), first, r1)
		},
	}
}
