// C13 — the compression bit RSV1 is set and accepted only on the first frame of a message.
package main

import (
	"bytes"
	"compress/flate"
	"fmt"
	"io"
	"sync"

	"github.com/gobwas/ws"
	"github.com/gobwas/ws/wsflate"
	"github.com/gobwas/ws/wsutil"

	"verifharness/gen"
	"verifharness/mon"
	"verifharness/ref"
	"verifharness/wsx"
	"verifharness/xport"
)

// ------------------------------------------------------------------ send side

type sendMsg struct {
	compressed bool
	size       int
	op         byte
	bare       bool  // written after a Reset that was not followed by SetExtensions
	ops        []int // per chunk: 0 Write, 1 WriteThrough (if buffer empty) , 2 Write+FlushFragment
}

func subSend() mon.Sub {
	bufsz := []int{8, 16, 125, 126, 4096}
	sizes := []int{0, 1, 200, 70000}
	return mon.Sub{
		Name: "send", Required: true,
		N: func(t string) int {
			if t == "thorough" {
				return 200000
			}
			return 8000
		},
		Do: func(c *mon.C) {
			side := []ref.Side{ref.SideServer, ref.SideClient, ref.SideNone}[c.Rng.Intn(3)]
			var st ws.State
			switch side {
			case ref.SideServer:
				st = ws.StateServerSide
			case ref.SideClient:
				st = ws.StateClientSide
			}
			bs := bufsz[c.Rng.Intn(len(bufsz))]
			other := c.Rng.Intn(3) // 0 no other extension, 1 RSV3-setter before, 2 after
			resetOp := c.Rng.Intn(2) == 0
			reattach := c.Rng.Intn(3) // with ResetOp: 0 attach once, 1 re-attach the same state per message, 2 a fresh state per message
			dst := xport.NewRec()
			ms := &wsflate.MessageState{}
			rsv3 := wsutil.SendExtensionFunc(func(h ws.Header) (ws.Header, error) {
				h.Rsv |= ws.Rsv(false, false, true)
				return h, nil
			})
			w := wsutil.NewWriterSize(dst, st, ws.OpText, bs)
			// half of the cases attach the state through the function adapter with a method value
			// (wsutil.SendExtensionFunc(state.SetBits)) instead of the state itself: it is the same state either way
			viaFunc := c.I/5%2 == 1
			// the application keeps its extension list in ONE slice and spreads it into SetExtensions every time (half of
			// the cases; the other half passes fresh arguments): the list is the application's, before and after a Reset
			var kept []wsutil.SendExtension
			var keptFor *wsflate.MessageState
			attach := func(ms *wsflate.MessageState) {
				var x wsutil.SendExtension = ms
				if viaFunc {
					x = wsutil.SendExtensionFunc(ms.SetBits)
				}
				var list []wsutil.SendExtension
				switch other {
				case 0:
					list = []wsutil.SendExtension{x}
				case 1:
					list = []wsutil.SendExtension{rsv3, x}
				case 2:
					list = []wsutil.SendExtension{x, rsv3}
				}
				if c.I/3%2 == 0 {
					if kept == nil || keptFor != ms {
						kept, keptFor = list, ms
					}
					list = kept
				}
				w.SetExtensions(list...)
			}
			attach(ms)
			nmsg := 1 + c.Rng.Intn(6)
			var msgs []sendMsg
			var plain [][]byte
			ctr := 0
			for i := 0; i < nmsg; i++ {
				m := sendMsg{compressed: c.Rng.Intn(2) == 0, size: sizes[c.Rng.Intn(len(sizes))], op: []byte{ref.OpText, ref.OpBinary, ref.OpPing}[c.Rng.Intn(3)]}
				if m.op == ref.OpPing {
					m.size = c.Rng.Intn(100)
					if bs < 125 {
						m.size = c.Rng.Intn(bs) // a control frame must fit one frame
					}
				}
				if m.size == 70000 && c.Rng.Intn(3) != 0 {
					m.size = 300
				}
				// one message in eight is cut into MANY frames (several hundred; now and then more than 2^16):
				// whatever counts the fragments of a message must not run over
				many := m.op != ref.OpPing && c.Rng.Intn(8) == 0
				if many {
					m.size = 3000 + c.Rng.Intn(3000)
					if c.Rng.Intn(12) == 0 {
						m.size = 66000 + c.Rng.Intn(500)
					}
				}
				msgs = append(msgs, m)
				p := make([]byte, m.size)
				for j := range p {
					ctr++
					p[j] = byte(ctr*7 + ctr>>8)
				}
				plain = append(plain, p)
				ms.SetCompressed(m.compressed)
				if resetOp {
					w.ResetOp(ws.OpCode(m.op))
					if reattach > 0 {
						// the application attaches the state before every message (ResetOp keeps the list, and
						// SetExtensions SETS it): the same state again, or a fresh per-message state
						if reattach == 2 {
							ms = &wsflate.MessageState{}
							ms.SetCompressed(m.compressed)
						}
						attach(ms)
					}
				} else {
					w.Reset(dst, st, ws.OpCode(m.op))
					// one Reset in four is for a connection without extensions: nothing is attached again,
					// and nothing of what was attached before may show
					if c.Rng.Intn(4) == 0 {
						msgs[len(msgs)-1].bare = true
					} else {
						attach(ms)
					}
				}
				// write in chunks with mixed operations
				rest := p
				for len(rest) > 0 && m.op != ref.OpPing {
					k := 1 + c.Rng.Intn(len(rest))
					if c.Rng.Intn(2) == 0 && k > 50 {
						k = 1 + c.Rng.Intn(50)
					}
					if many {
						k = 1 + c.Rng.Intn(8)
						if m.size > 60000 {
							k = 1
						}
						if k > len(rest) {
							k = len(rest)
						}
					}
					chunk := rest[:k]
					rest = rest[k:]
					mode := c.Rng.Intn(4)
					if many {
						mode = 1 + c.Rng.Intn(2) // every chunk leaves as a frame of its own
					}
					switch mode {
					case 1:
						if w.Buffered() == 0 {
							if _, err := w.WriteThrough(chunk); err != nil {
								c.Fail("send/error", "WriteThrough: "+err.Error(), nil)
								return
							}
							continue
						}
						fallthrough
					default:
						if _, err := w.Write(chunk); err != nil {
							c.Fail("send/error", "Write: "+err.Error(), nil)
							return
						}
					case 2:
						w.Write(chunk)
						if err := w.FlushFragment(); err != nil {
							c.Fail("send/error", "FlushFragment: "+err.Error(), nil)
							return
						}
					}
				}
				if m.op == ref.OpPing || m.size == 0 {
					w.Write(p) // an empty Write still opens a message
				}
				if err := w.Flush(); err != nil {
					c.Fail("send/error", "Flush: "+err.Error(), nil)
					return
				}
			}
			c.Count(1)
			frames, consumed, bad := ref.ParseFrames(dst.Bytes())
			det := map[string]interface{}{"side": side, "buffer": bs, "other_extension": other, "reset_op": resetOp, "messages": fmt.Sprintf("%+v", msgs)}
			if bad != "" || consumed != dst.Len() {
				c.Fail("send/parse", "output does not parse as whole frames", det)
				return
			}
			// group frames into messages
			mi := 0
			first := true
			var cur []byte
			nfr := 0
			for _, f := range frames {
				if mi >= len(msgs) {
					c.Fail("send/extra-frames", "more messages on the wire than written", det)
					return
				}
				m := msgs[mi]
				isData := m.op != ref.OpPing
				wantRsv := byte(0)
				if first && isData && m.compressed {
					wantRsv |= 4
				}
				if other != 0 {
					wantRsv |= 1
				}
				if m.bare {
					wantRsv = 0 // written after a Reset with no extension attached again
				}
				det["frame"] = fmt.Sprintf("message %d frame %d: op=%x fin=%v rsv=%d len=%d", mi, nfr, f.H.Op, f.H.Fin, f.H.Rsv, len(f.Payload))
				if f.H.Rsv != wantRsv {
					kind := "later-frame"
					switch {
					case !isData:
						kind = "control-frame"
					case first && m.compressed:
						kind = "first-frame-compressed"
					case first:
						kind = "first-frame-uncompressed"
					}
					c.Fail("send/rsv/"+kind, fmt.Sprintf("rsv=%d on %s, want %d", f.H.Rsv, kind, wantRsv), det)
					return
				}
				cur = append(cur, f.Payload...)
				nfr++
				first = false
				if f.H.Fin {
					if !bytes.Equal(cur, plain[mi]) {
						c.Fail("send/payload", "message payload corrupted", det)
						return
					}
					mi++
					first, cur, nfr = true, nil, 0
				}
			}
			if mi != len(msgs) {
				c.Fail("send/missing", "fewer messages on the wire than written", det)
				return
			}
			c.Classf("side=%d buf=%d other=%d reset=%v n=%d frames=%d", side, bs, other, resetOp, nmsg, min(len(frames), 12))
			c.Sample(det)
		},
	}
}

// --------------------------------------------------------------- receive side

var (
	enumOnce sync.Once
	shapesQ  [][]gen.Shape
	shapesT  [][]gen.Shape
)

func shapes(tier string) [][]gen.Shape {
	enumOnce.Do(func() {
		shapesQ = gen.EnumShapes(3, []int{2}, []int{1}, true)
		shapesT = gen.EnumShapes(4, []int{0, 2}, []int{1}, true)
	})
	if tier == "thorough" {
		return shapesT
	}
	return shapesQ
}

func isProto(err error) bool { _, ok := err.(ws.ProtocolError); return ok }

// receive runs a frame sequence with the given RSV assignment through a Reader
// with MessageState attached and checks every clause.
// consume: 0 the message is read to its end, 1 thrown away with Discard at once, 2 after one byte.
// mode: 0 an extended reader with the RFC header checks on; 1 the same with SkipHeaderCheck; 2 SkipHeaderCheck and a
// State holding the side bit only - the attached message state is then all there is between the wire and the application.
func receive(c *mon.C, sh []gen.Shape, rsvs []byte, side ref.Side, plan xport.Plan, consume int, mode int) bool {
	c.Count(1)
	withRsv := make([]gen.Shape, len(sh))
	copy(withRsv, sh)
	for i := range withRsv {
		withRsv[i].Rsv = rsvs[i]
	}
	frames := gen.Build(withRsv, side, c.Rng, false)
	stream, _, _ := gen.Encode(frames)
	ms := &wsflate.MessageState{}
	var interHdrs []ws.Header
	// the message state is one of possibly several negotiated extensions: alone, in front of / behind one that leaves
	// the header as it is, in front of one that owns RSV2 (it sees, and passes on, that bit only)
	same := wsutil.RecvExtensionFunc(func(h ws.Header) (ws.Header, error) { return h, nil })
	chain := (mode/3 + len(sh) + int(rsvs[0])) % 4
	mode %= 3
	// (the state itself, or - every other case - its UnsetBits method behind the function adapter)
	var msx wsutil.RecvExtension = ms
	if (len(stream)+int(rsvs[len(rsvs)-1]))%2 == 1 {
		msx = wsutil.RecvExtensionFunc(ms.UnsetBits)
	}
	exts := [][]wsutil.RecvExtension{{msx}, {msx, same}, {same, msx}, {msx, same, same}}[chain]
	rd := &wsutil.Reader{Source: xport.NewChunker(stream, plan), State: wsx.State(side, mode != 2, false), SkipHeaderCheck: mode != 0, Extensions: exts}
	rd.OnIntermediate = func(h ws.Header, r io.Reader) error {
		interHdrs = append(interHdrs, h)
		_, err := io.Copy(io.Discard, r)
		return err
	}
	det := map[string]interface{}{"frames": gen.ShapesKey(withRsv), "side": side, "plan": plan.String(), "consume": []string{"read", "discard", "read1+discard"}[consume], "reader": []string{"extended", "extended+SkipHeaderCheck", "SkipHeaderCheck, side bit only"}[mode], "extension_chain": []string{"state", "state, identity", "identity, state", "state, identity, identity"}[chain]}
	// reference walk
	fi := 0 // index of the next frame the main loop will see
	for {
		// find the first offending frame index (RSV1 on continuation or control) from fi on, within this message
		h, err := rd.NextFrame()
		if fi >= len(frames) {
			if err != io.EOF {
				c.Fail("recv/end", fmt.Sprintf("stream exhausted but NextFrame returned %v", err), det)
				return false
			}
			break
		}
		f := frames[fi]
		offending := f.H.Rsv&4 != 0 && (ref.IsControl(f.H.Op) || f.H.Op == ref.OpCont)
		det["at_frame"] = fi
		if offending {
			if !isProto(err) {
				c.Fail("recv/accepts-rsv1/"+kindOf(f.H.Op), fmt.Sprintf("RSV1 on a %s frame was not rejected as a protocol error (err=%v)", kindOf(f.H.Op), err), det)
				return false
			}
			c.Classf("reject|%s|%s", gen.ShapeClass(sh), kindOf(f.H.Op))
			return true
		}
		if err != nil {
			c.Fail("recv/rejects-valid", fmt.Sprintf("valid frame %d rejected: %v", fi, err), det)
			return false
		}
		if want := f.H.Rsv &^ 4; h.Rsv != want {
			c.Fail("recv/header-rsv", fmt.Sprintf("header handed to the application has rsv=%d, frame had %d (want %d)", h.Rsv, f.H.Rsv, want), det)
			return false
		}
		if ref.IsControl(f.H.Op) {
			// standalone control frame: does not touch the message state
			io.Copy(io.Discard, rd)
			fi++
			continue
		}
		wantCompressed := f.H.Rsv&4 != 0
		if ms.IsCompressed() != wantCompressed {
			c.Fail("recv/state-first-frame", fmt.Sprintf("after the first frame (rsv=%d) IsCompressed()=%v", f.H.Rsv, ms.IsCompressed()), det)
			return false
		}
		// read the message; continuation / intermediate frames are consumed inside Read
		var payload []byte
		buf := make([]byte, 3)
		var rerr error
		discarded := false
		if consume > 0 {
			// the application does not want this message: the frames it skips are still the peer's frames, and an
			// illegal compression bit on one of them is still a protocol error
			if consume == 2 {
				var n int
				n, rerr = rd.Read(buf[:1])
				payload = append(payload, buf[:n]...)
			}
			if rerr == nil {
				discarded = true
				if rerr = rd.Discard(); rerr == nil {
					rerr = io.EOF
				}
			}
		}
		for rerr == nil {
			n, e := rd.Read(buf)
			payload = append(payload, buf[:n]...)
			if e != nil {
				rerr = e
				break
			}
		}
		// walk the reference to the end of this message or to the first offending frame
		var wantPayload []byte
		wantPayload = append(wantPayload, f.Payload...)
		fin := f.H.Fin
		j := fi + 1
		bad := -1
		nInter := 0
		for !fin && j < len(frames) {
			g := frames[j]
			if g.H.Rsv&4 != 0 {
				bad = j
				break
			}
			if ref.IsControl(g.H.Op) {
				nInter++
			} else {
				wantPayload = append(wantPayload, g.Payload...)
				fin = g.H.Fin
			}
			j++
		}
		if bad >= 0 {
			det["at_frame"] = bad
			if !isProto(rerr) {
				c.Fail("recv/accepts-rsv1/"+kindOf(frames[bad].H.Op), fmt.Sprintf("RSV1 on a %s frame inside a message was not rejected as a protocol error (err=%v)", kindOf(frames[bad].H.Op), rerr), det)
				return false
			}
			if ms.IsCompressed() != wantCompressed {
				c.Fail("recv/state-disturbed", "message state changed by a later frame", det)
				return false
			}
			c.Classf("reject-inside|%s|%s", gen.ShapeClass(sh), kindOf(frames[bad].H.Op))
			return true
		}
		if rerr != io.EOF || (!discarded && !bytes.Equal(payload, wantPayload)) {
			c.Fail("recv/message", fmt.Sprintf("message not delivered intact (err=%v, %d vs %d bytes)", rerr, len(payload), len(wantPayload)), det)
			return false
		}
		if ms.IsCompressed() != wantCompressed {
			c.Fail("recv/state-disturbed", fmt.Sprintf("IsCompressed()=%v at the end of a message whose first frame had rsv=%d (control frames or continuations disturbed it)", ms.IsCompressed(), f.H.Rsv), det)
			return false
		}
		fi = j
	}
	for _, h := range interHdrs {
		if h.Rsv&4 != 0 {
			c.Fail("recv/intermediate-header", "intermediate control header still carries RSV1", det)
			return false
		}
	}
	c.Classf("ok|%s|side%d|mode%d|chain%d", gen.ShapeClass(sh), side, mode, chain)
	return true
}

func kindOf(op byte) string {
	if ref.IsControl(op) {
		return "control"
	}
	if op == ref.OpCont {
		return "continuation"
	}
	return "first"
}

func subReceive() mon.Sub {
	return mon.Sub{
		Name: "receive-enum", Exhaustive: true, Required: true,
		N: func(t string) int { return len(shapes(t)) * 2 },
		Do: func(c *mon.C) {
			ss := shapes(c.Tier)
			sh := ss[c.I%len(ss)]
			side := []ref.Side{ref.SideServer, ref.SideClient}[c.I/len(ss)]
			n := len(sh)
			total := 1
			for i := 0; i < n; i++ {
				total *= 8
			}
			plans := xport.Plans(c.Rng.Int63(), nil)
			rsvs := make([]byte, n)
			for x := 0; x < total; x++ {
				y := x
				for i := 0; i < n; i++ {
					rsvs[i] = byte(y % 8)
					y /= 8
				}
				if !receive(c, sh, rsvs, side, plans[(x+c.I)%len(plans)], (x+c.I)%3, (x/3+c.I)%12) {
					return
				}
			}
			c.Sample(map[string]interface{}{"frames": gen.ShapesKey(sh), "side": side, "rsv_assignments": total})
		},
	}
}

func subReceiveRandom() mon.Sub {
	return mon.Sub{
		Name: "receive-random", Required: true,
		N: func(t string) int {
			if t == "thorough" {
				return 300000
			}
			return 10000
		},
		Do: func(c *mon.C) {
			sh := gen.RandomShapes(c.Rng, 12, []int{0, 1, 5, 126, 300})
			rsvs := make([]byte, len(sh))
			for i := range rsvs {
				switch c.Rng.Intn(4) {
				case 0:
					rsvs[i] = byte(c.Rng.Intn(8))
				case 1:
					rsvs[i] = byte(c.Rng.Intn(4)) // RSV1 clear
				default:
					if !ref.IsControl(sh[i].Op) && sh[i].Op != ref.OpCont {
						rsvs[i] = 4 * byte(c.Rng.Intn(2))
					}
				}
			}
			plans := xport.Plans(c.Rng.Int63(), nil)
			receive(c, sh, rsvs, []ref.Side{ref.SideServer, ref.SideClient}[c.Rng.Intn(2)], plans[c.Rng.Intn(len(plans))], c.Rng.Intn(3), c.Rng.Intn(12))
		},
	}
}

// ----------------------------------------------------------------- end to end

func subEndToEnd() mon.Sub {
	return mon.Sub{
		Name: "end-to-end", Required: true,
		N: func(t string) int {
			if t == "thorough" {
				return 40000
			}
			return 1500
		},
		Do: func(c *mon.C) {
			nmsg := 1 + c.Rng.Intn(5)
			bs := []int{8, 16, 125, 126, 4096}[c.Rng.Intn(5)]
			var wire bytes.Buffer
			wms := &wsflate.MessageState{}
			w := wsutil.NewWriterSize(&wire, ws.StateClientSide, ws.OpText, bs)
			w.SetExtensions(wms)
			fw := wsflate.NewWriter(nil, func(w io.Writer) wsflate.Compressor { f, _ := flate.NewWriter(w, 6); return f })
			type m struct {
				compressed bool
				data       []byte
				op         ws.OpCode
			}
			var msgs []m
			for i := 0; i < nmsg; i++ {
				n := []int{0, 1, 200, 5000, 70000}[c.Rng.Intn(5)]
				if n == 70000 && c.Rng.Intn(3) != 0 {
					n = 900
				}
				d := make([]byte, n)
				for j := range d {
					d[j] = "abcdefghij klmnop"[(j+i+j/13)%17]
				}
				if c.Rng.Intn(3) == 0 {
					c.Rng.Read(d)
				}
				mm := m{compressed: c.Rng.Intn(3) != 0, data: d, op: []ws.OpCode{ws.OpText, ws.OpBinary}[c.Rng.Intn(2)]}
				msgs = append(msgs, mm)
				w.ResetOp(mm.op)
				wms.SetCompressed(mm.compressed)
				if mm.compressed {
					fw.Reset(w)
					for _, p := range [][]byte{d[:len(d)/2], d[len(d)/2:]} {
						if _, err := fw.Write(p); err != nil {
							c.Fail("e2e/write", err.Error(), nil)
							return
						}
					}
					if err := fw.Flush(); err != nil {
						c.Fail("e2e/flush", err.Error(), nil)
						return
					}
				} else {
					w.Write(d)
				}
				if err := w.Flush(); err != nil {
					c.Fail("e2e/flush", err.Error(), nil)
					return
				}
				if c.Rng.Intn(3) == 0 {
					// a masked ping between messages
					wsutil.WriteClientMessage(&wire, ws.OpPing, []byte("p"))
				}
			}
			c.Count(1)
			plans := xport.Plans(c.Rng.Int63(), nil)
			plan := plans[c.Rng.Intn(len(plans))]
			rms := &wsflate.MessageState{}
			rd := &wsutil.Reader{Source: xport.NewChunker(wire.Bytes(), plan), State: ws.StateServerSide | ws.StateExtended, Extensions: []wsutil.RecvExtension{rms}}
			rd.OnIntermediate = func(h ws.Header, r io.Reader) error { _, e := io.Copy(io.Discard, r); return e }
			fr := wsflate.NewReader(nil, func(r io.Reader) wsflate.Decompressor { return flate.NewReader(r) })
			det := map[string]interface{}{"messages": nmsg, "writer_buffer": bs, "plan": plan.String(), "wire_len": wire.Len()}
			for i, mm := range msgs {
				var h ws.Header
				var err error
				for {
					h, err = rd.NextFrame()
					if err != nil {
						c.Fail("e2e/nextframe", fmt.Sprintf("message %d: %v", i, err), det)
						return
					}
					if h.OpCode.IsControl() {
						io.Copy(io.Discard, rd)
						continue
					}
					break
				}
				if rms.IsCompressed() != mm.compressed {
					c.Fail("e2e/state", fmt.Sprintf("message %d written compressed=%v read as compressed=%v", i, mm.compressed, rms.IsCompressed()), det)
					return
				}
				var got []byte
				if rms.IsCompressed() {
					fr.Reset(rd)
					got, err = io.ReadAll(fr)
				} else {
					got, err = io.ReadAll(rd)
				}
				if err != nil || !bytes.Equal(got, mm.data) || h.OpCode != mm.op {
					det["message"] = i
					c.Fail("e2e/roundtrip", fmt.Sprintf("message %d (compressed=%v, %d bytes) read back as %d bytes, err=%v", i, mm.compressed, len(mm.data), len(got), err), det)
					return
				}
			}
			c.Classf("n=%d buf=%d plan=%s", nmsg, bs, plan.Kind)
			c.Sample(det)
		},
	}
}

func main() {
	mon.Main(&mon.Spec{
		Property: "C13",
		Level:    "exploration",
		Rule: "(send) random sequences of 1-6 messages (compressed or not, text/binary/ping, payload {0,1,200,70000}) written through wsutil.Writer with wsflate.MessageState attached (alone, or together with another extension setting RSV3, in either order), buffer sizes {8,16,125,126,4096}, Write/WriteThrough/FlushFragment mixed, Reset or ResetOp between messages, all three sides; the output is parsed by the reference parser and every frame's RSV is compared with the model. " +
			"(receive) every valid frame sequence up to depth 3 (quick) / 4 (thorough) x EVERY RSV pattern 0..7 on every frame x both sides through wsutil.Reader{Extensions: MessageState}, plus random sequences: IsCompressed after the first frame and at message end, header RSV1 cleared with RSV2/3 untouched, RSV1 on continuation/control rejected as ws.ProtocolError. (end to end) compressed+fragmented+masked messages through wsflate.Writer -> wsutil.Writer -> wsutil.Reader -> wsflate.Reader. distinct = configuration / (shape, outcome) classes.",
		Assumptions: []string{"reference frame parser/encoder", "Go's compress/flate as codec in the end-to-end path"},
		Subs:        []mon.Sub{subSend(), subReceive(), subReceiveRandom(), subEndToEnd(), subBitHelpers()},
	})
}
