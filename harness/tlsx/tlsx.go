// Package tlsx makes throw-away certificates for monitors that need a real
// crypto/tls peer on an in-memory connection.
package tlsx

import (
	"crypto/ecdsa"
	"crypto/elliptic"
	"crypto/rand"
	"crypto/tls"
	"crypto/x509"
	"crypto/x509/pkix"
	"math/big"
	"sync"
	"time"
)

var (
	once sync.Once
	cert tls.Certificate
)

// SelfSigned returns a process-wide self-signed server certificate for
// *.example names (clients use InsecureSkipVerify).
func SelfSigned() tls.Certificate {
	once.Do(func() {
		key, err := ecdsa.GenerateKey(elliptic.P256(), rand.Reader)
		if err != nil {
			panic(err)
		}
		now := time.Now()
		tpl := &x509.Certificate{SerialNumber: big.NewInt(7), Subject: pkix.Name{CommonName: "dbg.example"}, DNSNames: []string{"dbg.example"},
			NotBefore: now.Add(-time.Hour), NotAfter: now.Add(72 * time.Hour), KeyUsage: x509.KeyUsageDigitalSignature, ExtKeyUsage: []x509.ExtKeyUsage{x509.ExtKeyUsageServerAuth}}
		der, err := x509.CreateCertificate(rand.Reader, tpl, tpl, &key.PublicKey, key)
		if err != nil {
			panic(err)
		}
		cert = tls.Certificate{Certificate: [][]byte{der}, PrivateKey: key}
	})
	return cert
}
