package xport

import "io"

// RichDst puts a recording destination behind the optional interfaces a real
// destination may have (a *net.TCPConn has ReadFrom, a *bufio.Writer has
// WriteString and ReadFrom): whichever of them a writer picks, the bytes that
// arrive are the same. Every call is recorded as one Write on Rec.
type RichDst struct{ Rec *Rec }

func (d RichDst) Write(p []byte) (int, error)       { return d.Rec.Write(p) }
func (d RichDst) WriteString(s string) (int, error) { return d.Rec.Write([]byte(s)) }
func (d RichDst) ReadFrom(r io.Reader) (int64, error) {
	b, err := io.ReadAll(r)
	if len(b) > 0 {
		if _, werr := d.Rec.Write(b); werr != nil {
			return 0, werr
		}
	}
	return int64(len(b)), err
}
