// Package xport holds instrumented transports: readers that deliver a byte
// string under a chunk plan (and count what was consumed), cutters that end a
// stream at an offset with EOF or an injected error, and recording writers
// that keep call boundaries and can fail at a chosen call.
package xport

import (
	"bytes"
	"errors"
	"fmt"
	"io"
	"math/rand"
	"net"
	"os"
	"syscall"
)

// Plan describes how a Chunker splits its data across Read calls.
type Plan struct {
	Kind string // "whole" | "one" | "fixed" | "random" | "marks"
	K    int    // chunk size for "fixed"
	Seed int64  // for "random"
	// Marks are absolute offsets at which a read must stop ("marks").
	Marks []int
	// EOFWithData: deliver the final chunk together with io.EOF.
	EOFWithData bool
	// Hiccup: every n-th Read returns (0, nil) once (n > 0).
	Hiccup int
}

func (p Plan) String() string {
	s := p.Kind
	if p.Kind == "fixed" {
		s += fmt.Sprint(p.K)
	}
	if p.EOFWithData {
		s += "+eofdata"
	}
	if p.Hiccup > 0 {
		s += fmt.Sprintf("+hiccup%d", p.Hiccup)
	}
	return s
}

// ErrInjected is the transport error used by cutters.
var ErrInjected = errors.New("xport: injected transport error")

// Chunker is an io.Reader over Data following Plan. If End >= 0 the stream
// ends at that offset with EndErr (io.EOF or an injected error).
type Chunker struct {
	Data []byte
	Plan Plan
	// End is the cut offset (-1 = len(Data)); EndErr the error reported there.
	End    int
	EndErr error

	Pos           int // bytes delivered so far
	Reads         int // Read calls
	ReadsAfterEnd int // Read calls after the end error was first returned
	ended         bool
	rng           *rand.Rand
	mark          int
}

// NewChunker delivers all of data under plan, then io.EOF.
func NewChunker(data []byte, plan Plan) *Chunker {
	return &Chunker{Data: data, Plan: plan, End: -1, EndErr: io.EOF}
}

// NewCutter delivers data[:end] under plan, then err.
func NewCutter(data []byte, plan Plan, end int, err error) *Chunker {
	return &Chunker{Data: data, Plan: plan, End: end, EndErr: err}
}

func (c *Chunker) limit() int {
	if c.End >= 0 && c.End < len(c.Data) {
		return c.End
	}
	return len(c.Data)
}

// Remaining returns the bytes not yet delivered (up to the end/cut).
func (c *Chunker) Remaining() []byte { return c.Data[c.Pos:c.limit()] }

func (c *Chunker) Read(p []byte) (int, error) {
	c.Reads++
	if c.ended {
		c.ReadsAfterEnd++
		return 0, c.EndErr
	}
	if len(p) == 0 {
		return 0, nil
	}
	lim := c.limit()
	if c.Pos >= lim {
		c.ended = true
		return 0, c.EndErr
	}
	if c.Plan.Hiccup > 0 && c.Reads%c.Plan.Hiccup == 0 {
		return 0, nil
	}
	n := lim - c.Pos
	switch c.Plan.Kind {
	case "one":
		n = 1
	case "fixed":
		if c.Plan.K > 0 && n > c.Plan.K {
			n = c.Plan.K
		}
	case "random":
		if c.rng == nil {
			c.rng = rand.New(rand.NewSource(c.Plan.Seed))
		}
		switch c.rng.Intn(4) {
		case 0:
			n = 1
		case 1:
			if n > 1 {
				n = 1 + c.rng.Intn(min(n, 7))
			}
		case 2:
			if n > 1 {
				n = 1 + c.rng.Intn(n)
			}
		}
	case "marks":
		for c.mark < len(c.Plan.Marks) && c.Plan.Marks[c.mark] <= c.Pos {
			c.mark++
		}
		if c.mark < len(c.Plan.Marks) && c.Plan.Marks[c.mark]-c.Pos < n {
			n = c.Plan.Marks[c.mark] - c.Pos
		}
	}
	if n > len(p) {
		n = len(p)
	}
	copy(p, c.Data[c.Pos:c.Pos+n])
	c.Pos += n
	if c.Plan.EOFWithData && c.Pos >= lim {
		c.ended = true
		return n, c.EndErr
	}
	return n, nil
}

// ByteChunker is a Chunker that also implements io.ByteReader.
type ByteChunker struct{ *Chunker }

func (b ByteChunker) ReadByte() (byte, error) {
	var p [1]byte
	for {
		n, err := b.Chunker.Read(p[:])
		if n == 1 {
			return p[0], nil
		}
		if err != nil {
			return 0, err
		}
	}
}

// Call is one Write call seen by a Rec.
type Call struct {
	Data []byte // copy taken at call time
	N    int    // bytes accepted
	Err  error
}

// Rec is a recording io.Writer.
type Rec struct {
	Calls []Call
	// FailAt: the call with this index (0-based) fails (-1 = never). When
	// ShortN >= 0 that call accepts min(ShortN, len(p)) bytes before failing.
	FailAt int
	ShortN int
	Err    error
	// Sticky: every call after FailAt fails too (a broken connection).
	Sticky bool
	// Scribble: overwrite the caller's slice after copying it (to catch a
	// destination-side alias) — only used by aliasing monitors.
	Limit int // if > 0, panic when more than Limit calls arrive (runaway guard)
	// Watch, when set, runs at the start of every Write: what another goroutine using the same payload (a
	// broadcast to several connections) would see while this destination is busy.
	Watch func()
}

func NewRec() *Rec { return &Rec{FailAt: -1, ShortN: -1} }

func (r *Rec) Write(p []byte) (int, error) {
	idx := len(r.Calls)
	if r.Limit > 0 && idx > r.Limit {
		panic("xport.Rec: runaway writer")
	}
	if r.Watch != nil {
		r.Watch()
	}
	c := Call{Data: append([]byte(nil), p...), N: len(p)}
	if r.FailAt >= 0 && (idx == r.FailAt || (r.Sticky && idx > r.FailAt)) {
		c.Err = r.Err
		if c.Err == nil {
			c.Err = ErrInjected
		}
		c.N = 0
		if r.ShortN >= 0 && idx == r.FailAt {
			c.N = min(r.ShortN, len(p))
		}
	}
	r.Calls = append(r.Calls, c)
	return c.N, c.Err
}

// Bytes returns everything accepted so far.
func (r *Rec) Bytes() []byte {
	var b []byte
	for _, c := range r.Calls {
		b = append(b, c.Data[:c.N]...)
	}
	return b
}

// Len returns the number of bytes accepted so far.
func (r *Rec) Len() int {
	n := 0
	for _, c := range r.Calls {
		n += c.N
	}
	return n
}

// RW glues a reader and a writer into an io.ReadWriter.
type RW struct {
	io.Reader
	io.Writer
}

// Plans returns a standard family of chunk plans for a stream; marks are
// interesting offsets (e.g. header interiors).
func Plans(seed int64, marks []int) []Plan {
	return []Plan{
		{Kind: "whole"},
		{Kind: "one"},
		{Kind: "fixed", K: 2},
		{Kind: "fixed", K: 3},
		{Kind: "fixed", K: 5},
		{Kind: "fixed", K: 13},
		{Kind: "random", Seed: seed},
		{Kind: "random", Seed: seed + 1, EOFWithData: true},
		{Kind: "marks", Marks: marks},
		{Kind: "whole", EOFWithData: true},
		{Kind: "fixed", K: 7, Hiccup: 3},
	}
}

// FaultKinds are the errors a failing destination / transport may answer with: a failed write is a failed write
// whatever the error's type or the predicates it offers - a plain error, an expired write deadline (net.Error with
// Timeout() true), a "temporary" network error, the io package's sentinel values, a broken pipe.
type netErr struct {
	msg                string
	timeout, temporary bool
}

func (e *netErr) Error() string   { return e.msg }
func (e *netErr) Timeout() bool   { return e.timeout }
func (e *netErr) Temporary() bool { return e.temporary }

var FaultKinds = []struct {
	Name string
	Err  error
}{
	{"plain", ErrInjected},
	{"deadline", &net.OpError{Op: "write", Net: "tcp", Err: os.ErrDeadlineExceeded}},
	{"timeout", &netErr{"injected i/o timeout", true, true}},
	{"temporary", &netErr{"injected temporary failure", false, true}},
	{"short-write", io.ErrShortWrite},
	{"eof", io.EOF},
	{"epipe", &net.OpError{Op: "write", Net: "tcp", Err: syscall.EPIPE}},
	{"closed", net.ErrClosed},
}

// Arena places p in the middle of a larger buffer, as a message cut out of a receive buffer is: the returned view has
// len(p) bytes and SPARE CAPACITY behind it (the bytes that follow it in the buffer - the next message), canaries on
// both sides. intact reports "" while the view still holds p and the neighbours hold their canaries.
func Arena(p []byte) (view []byte, intact func() string) {
	view, intact, _ = Arena3(p)
	return
}

// Arena3 is Arena with a third result that looks at the NEIGHBOURS only (for callers that overwrite the view
// themselves afterwards).
func Arena3(p []byte) (view []byte, intact, neighbours func() string) {
	const pad = 48
	buf := make([]byte, pad+len(p)+pad)
	for i := range buf {
		buf[i] = byte(0xC3 ^ i*5)
	}
	copy(buf[pad:], p)
	want := append([]byte(nil), buf...)
	view = buf[pad : pad+len(p)] // cap(view) = len(p)+pad
	neighbours = func() string {
		switch {
		case !bytes.Equal(buf[:pad], want[:pad]):
			return "the bytes in front of the slice changed"
		case !bytes.Equal(buf[pad+len(p):], want[pad+len(p):]):
			return "the bytes that follow the slice in its buffer (its spare capacity) changed"
		}
		return ""
	}
	intact = func() string {
		if w := neighbours(); w != "" {
			return w
		}
		if !bytes.Equal(buf[pad:pad+len(p)], want[pad:pad+len(p)]) {
			return "the slice itself changed"
		}
		return ""
	}
	return
}

// Transient puts ONE fault that consumes nothing in front of byte At of a stream: the Read that would deliver that
// byte returns (0, Err) instead - an expired read deadline, say - and the next Read goes on as if nothing had
// happened. Reads never cross At, so the fault falls exactly there.
type Transient struct {
	R     io.Reader
	At    int
	Err   error
	pos   int
	Fired bool
}

func (t *Transient) Read(p []byte) (int, error) {
	if !t.Fired && t.pos == t.At {
		t.Fired = true
		return 0, t.Err
	}
	if !t.Fired && t.pos < t.At && t.pos+len(p) > t.At {
		p = p[:t.At-t.pos]
	}
	n, err := t.R.Read(p)
	t.pos += n
	return n, err
}

// ErrTimeout is a net.Error whose Timeout() is true (what a read past its deadline returns).
var ErrTimeout error = &netErr{"injected i/o timeout", true, true}
