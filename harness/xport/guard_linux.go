package xport

import "syscall"

// ReadOnly places p in memory the process may read but not write (whole pages, mmap + mprotect): the sanitizer-style
// form of "this API does not modify the caller's bytes". Any store into the view - even a temporary one that is undone
// before the call returns - is a fault, which debug.SetPanicOnFault turns into a panic of the calling goroutine.
// free releases the pages.
func ReadOnly(p []byte) (view []byte, free func(), err error) {
	ps := syscall.Getpagesize()
	n := (len(p)/ps + 1) * ps
	mem, err := syscall.Mmap(-1, 0, n, syscall.PROT_READ|syscall.PROT_WRITE, syscall.MAP_ANON|syscall.MAP_PRIVATE)
	if err != nil {
		return nil, nil, err
	}
	// the view ENDS at the end of the mapping, so that reading past it faults as well (nothing is mapped behind it,
	// or something unrelated is)
	off := n - len(p)
	copy(mem[off:], p)
	if err := syscall.Mprotect(mem, syscall.PROT_READ); err != nil {
		syscall.Munmap(mem)
		return nil, nil, err
	}
	return mem[off:n:n], func() { syscall.Munmap(mem) }, nil
}
