package ref

import "fmt"

// PMCE describes a permessage-deflate parameter list (offer or response).
// Window values: 0 = absent, 1 = present without value, 8..15 = value.
type PMCE struct {
	ServerNoContextTakeover bool
	ClientNoContextTakeover bool
	ServerMaxWindowBits     int
	ClientMaxWindowBits     int
}

func (p PMCE) String() string {
	return fmt.Sprintf("{snct=%v cnct=%v smwb=%d cmwb=%d}", p.ServerNoContextTakeover, p.ClientNoContextTakeover, p.ServerMaxWindowBits, p.ClientMaxWindowBits)
}

// PMCEIllegal returns why `answer` is not a legal response to `offer` under
// RFC 7692 §7.1.1-§7.1.2 (empty = legal).
func PMCEIllegal(offer, answer PMCE) []string {
	var why []string
	// §7.1.1.1
	if offer.ServerNoContextTakeover && !answer.ServerNoContextTakeover {
		why = append(why, "server_no_context_takeover requested but absent from the response")
	}
	// §7.1.2.1
	switch {
	case answer.ServerMaxWindowBits == 1:
		why = append(why, "server_max_window_bits without a value in a response")
	case answer.ServerMaxWindowBits != 0 && (answer.ServerMaxWindowBits < 8 || answer.ServerMaxWindowBits > 15):
		why = append(why, fmt.Sprintf("server_max_window_bits=%d outside 8..15", answer.ServerMaxWindowBits))
	}
	if offer.ServerMaxWindowBits >= 8 {
		switch {
		case answer.ServerMaxWindowBits == 0:
			why = append(why, fmt.Sprintf("client requested server_max_window_bits=%d but the response has none", offer.ServerMaxWindowBits))
		case answer.ServerMaxWindowBits > offer.ServerMaxWindowBits:
			why = append(why, fmt.Sprintf("response server_max_window_bits=%d larger than the requested %d", answer.ServerMaxWindowBits, offer.ServerMaxWindowBits))
		}
	}
	// §7.1.2.2
	if answer.ClientMaxWindowBits != 0 {
		switch {
		case offer.ClientMaxWindowBits == 0:
			why = append(why, "client_max_window_bits in the response although the client did not offer it")
		case answer.ClientMaxWindowBits == 1:
			why = append(why, "client_max_window_bits without a value in a response")
		case answer.ClientMaxWindowBits < 8 || answer.ClientMaxWindowBits > 15:
			why = append(why, fmt.Sprintf("client_max_window_bits=%d outside 8..15", answer.ClientMaxWindowBits))
		case offer.ClientMaxWindowBits >= 8 && answer.ClientMaxWindowBits > offer.ClientMaxWindowBits:
			why = append(why, fmt.Sprintf("response client_max_window_bits=%d larger than the offered %d", answer.ClientMaxWindowBits, offer.ClientMaxWindowBits))
		}
	}
	return why
}
