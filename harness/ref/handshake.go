package ref

import (
	"crypto/sha1"
	"encoding/base64"
)

// Accept computes Sec-WebSocket-Accept for a key: base64(SHA-1(key + GUID)).
func Accept(key string) string {
	h := sha1.Sum([]byte(key + "258EAFA5-E914-47DA-95CA-C5AB0DC85B11"))
	return base64.StdEncoding.EncodeToString(h[:])
}

// KeyIsBase64Of16 reports whether key is the base64 form of 16 bytes.
func KeyIsBase64Of16(key string) bool {
	b, err := base64.StdEncoding.DecodeString(key)
	return err == nil && len(b) == 16
}

// Verdict classes of the handshake oracles.
const (
	MustAccept = iota
	MustReject
	Open
)

// Verdict is a three-valued handshake verdict. For MustReject, Statuses lists
// the HTTP statuses any of which is an acceptable answer; NoResponseOK says the
// peer may also write nothing (request line never parsed).
type Verdict struct {
	Class        int
	Statuses     map[int]bool
	NoResponseOK bool
	Why          []string // reject / open factors, for the replay file
}

func (v *Verdict) Reject(why string, statuses ...int) {
	v.Class = MustReject
	if v.Statuses == nil {
		v.Statuses = map[int]bool{}
	}
	for _, s := range statuses {
		v.Statuses[s] = true
	}
	v.Why = append(v.Why, "reject:"+why)
}

func (v *Verdict) MarkOpen(why string) {
	if v.Class == MustAccept {
		v.Class = Open
	}
	v.Why = append(v.Why, "open:"+why)
}

func (v Verdict) ClassName() string {
	return [...]string{"MUST_ACCEPT", "MUST_REJECT", "OPEN"}[v.Class]
}
