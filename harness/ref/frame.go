// Package ref holds reference implementations written from the RFC text
// (RFC 6455 framing/masking/validity, RFC 7692 negotiation legality). It must
// not import github.com/gobwas/ws: an error in the library must not be
// mirrored in the oracle.
package ref

import (
	"encoding/binary"
	"fmt"
)

// Opcodes.
const (
	OpCont   = 0x0
	OpText   = 0x1
	OpBinary = 0x2
	OpClose  = 0x8
	OpPing   = 0x9
	OpPong   = 0xa
)

// Header is an RFC 6455 §5.2 frame header.
type Header struct {
	Fin    bool
	Rsv    byte // 3 bits: RSV1=4, RSV2=2, RSV3=1
	Op     byte // 4 bits
	Masked bool
	Mask   [4]byte
	Length int64
}

func (h Header) String() string {
	return fmt.Sprintf("{fin=%v rsv=%d op=%#x masked=%v mask=%x len=%d}", h.Fin, h.Rsv, h.Op, h.Masked, h.Mask, h.Length)
}

// EncodeHeader emits the §5.2 layout with the minimal length form.
func EncodeHeader(h Header) []byte {
	var b []byte
	b0 := h.Op & 0x0f
	b0 |= (h.Rsv & 7) << 4
	if h.Fin {
		b0 |= 0x80
	}
	b = append(b, b0)
	var m byte
	if h.Masked {
		m = 0x80
	}
	switch {
	case h.Length <= 125:
		b = append(b, m|byte(h.Length))
	case h.Length <= 0xffff:
		b = append(b, m|126, byte(h.Length>>8), byte(h.Length))
	default:
		b = append(b, m|127)
		var l [8]byte
		binary.BigEndian.PutUint64(l[:], uint64(h.Length))
		b = append(b, l[:]...)
	}
	if h.Masked {
		b = append(b, h.Mask[:]...)
	}
	return b
}

// EncodedLen is the size of the minimal encoding.
func EncodedLen(h Header) int {
	n := 2
	switch {
	case h.Length <= 125:
	case h.Length <= 0xffff:
		n += 2
	default:
		n += 8
	}
	if h.Masked {
		n += 4
	}
	return n
}

// DecodeStatus classifies a byte string presented to a header decoder.
type DecodeStatus int

const (
	DecOK         DecodeStatus = iota // complete, minimal
	DecIncomplete                     // fewer bytes than the header needs
	DecMSB                            // 64-bit length with top bit set
	DecNonMinimal                     // complete, but 126/127 form used for a smaller value (OPEN)
)

func (s DecodeStatus) String() string {
	return [...]string{"ok", "incomplete", "msb", "nonminimal"}[s]
}

// DecodeHeader decodes a header at the start of b and reports how many bytes it
// spans. For DecMSB, n is the number of bytes up to and including the 8 length
// bytes (what a decoder may legitimately have consumed is left open).
func DecodeHeader(b []byte) (h Header, n int, st DecodeStatus) {
	if len(b) < 2 {
		return h, 0, DecIncomplete
	}
	h.Fin = b[0]&0x80 != 0
	h.Rsv = (b[0] >> 4) & 7
	h.Op = b[0] & 0x0f
	h.Masked = b[1]&0x80 != 0
	l7 := b[1] & 0x7f
	n = 2
	st = DecOK
	switch {
	case l7 <= 125:
		h.Length = int64(l7)
	case l7 == 126:
		if len(b) < 4 {
			return h, 0, DecIncomplete
		}
		h.Length = int64(binary.BigEndian.Uint16(b[2:4]))
		n = 4
		if h.Length <= 125 {
			st = DecNonMinimal
		}
	default:
		// A decoder may read the extension and the mask in one go, so the
		// header is incomplete unless all of it is there.
		need := 10
		if h.Masked {
			need += 4
		}
		if len(b) < need {
			return h, 0, DecIncomplete
		}
		u := binary.BigEndian.Uint64(b[2:10])
		n = 10
		if u>>63 != 0 {
			return h, n, DecMSB
		}
		h.Length = int64(u)
		if h.Length <= 0xffff {
			st = DecNonMinimal
		}
	}
	if h.Masked {
		if len(b) < n+4 {
			return h, 0, DecIncomplete
		}
		copy(h.Mask[:], b[n:n+4])
		n += 4
	}
	return h, n, st
}

// Mask is the §5.3 transformation: byte i becomes p[i] XOR key[(off+i) mod 4].
// It returns a new slice.
func Mask(p []byte, key [4]byte, off int) []byte {
	out := make([]byte, len(p))
	for i := range p {
		out[i] = p[i] ^ key[(off+i)%4]
	}
	return out
}

// Frame is a frame with its PLAINTEXT payload; Encode applies the mask.
type Frame struct {
	H       Header
	Payload []byte
}

// Encode serialises the frame (masking the payload when H.Masked).
func (f Frame) Encode() []byte {
	h := f.H
	h.Length = int64(len(f.Payload))
	b := EncodeHeader(h)
	if h.Masked {
		return append(b, Mask(f.Payload, h.Mask, 0)...)
	}
	return append(b, f.Payload...)
}

// ParseFrames strictly parses a byte stream into frames (payloads unmasked).
// It returns the frames, the number of bytes consumed by whole frames, and an
// error string when a header is non-minimal or has the MSB set ("" otherwise).
// A trailing partial frame is reported through consumed < len(stream).
func ParseFrames(stream []byte) (frames []Frame, consumed int, bad string) {
	for consumed < len(stream) {
		h, n, st := DecodeHeader(stream[consumed:])
		switch st {
		case DecIncomplete:
			return frames, consumed, ""
		case DecMSB:
			return frames, consumed, "length MSB set"
		case DecNonMinimal:
			return frames, consumed, "non-minimal length form"
		}
		if int64(len(stream)-consumed-n) < h.Length {
			return frames, consumed, ""
		}
		p := stream[consumed+n : consumed+n+int(h.Length)]
		if h.Masked {
			p = Mask(p, h.Mask, 0)
		} else {
			p = append([]byte(nil), p...)
		}
		frames = append(frames, Frame{H: h, Payload: p})
		consumed += n + int(h.Length)
	}
	return frames, consumed, ""
}

// ------------------------------------------------------------ validity rules

// Rule names a framing rule of RFC 6455 §5 owned by the header check.
type Rule string

const (
	RuleReservedOp         Rule = "reserved-opcode"
	RuleControlTooLong     Rule = "control-too-long"
	RuleControlNotFinal    Rule = "control-not-final"
	RuleRsv                Rule = "rsv-without-extension"
	RuleMaskRequired       Rule = "server-got-unmasked"
	RuleMaskUnexpected     Rule = "client-got-masked"
	RuleContinuationWanted Rule = "data-frame-while-fragmented"
	RuleContinuationStray  Rule = "continuation-while-not-fragmented"
)

// Side of the endpoint that RECEIVES the frame.
type Side int

const (
	SideNone Side = iota
	SideServer
	SideClient
)

func IsControl(op byte) bool  { return op&0x8 != 0 }
func IsReserved(op byte) bool { return (op >= 3 && op <= 7) || (op >= 0xb && op <= 0xf) }

// BrokenRules returns the set of rules a header breaks for a receiving
// endpoint in the given state.
func BrokenRules(h Header, side Side, extended, fragmented bool) map[Rule]bool {
	br := map[Rule]bool{}
	if IsReserved(h.Op) {
		br[RuleReservedOp] = true
	}
	if IsControl(h.Op) {
		if h.Length > 125 {
			br[RuleControlTooLong] = true
		}
		if !h.Fin {
			br[RuleControlNotFinal] = true
		}
	}
	if h.Rsv != 0 && !extended {
		br[RuleRsv] = true
	}
	if side == SideServer && !h.Masked {
		br[RuleMaskRequired] = true
	}
	if side == SideClient && h.Masked {
		br[RuleMaskUnexpected] = true
	}
	if fragmented && !IsControl(h.Op) && h.Op != OpCont {
		br[RuleContinuationWanted] = true
	}
	if !fragmented && h.Op == OpCont {
		br[RuleContinuationStray] = true
	}
	return br
}

// CodeClass classifies a close status code per the statement of C03.
type CodeClass int

const (
	CodeAccept CodeClass = iota
	CodeRefuse
	CodeOpen
)

func CloseCodeClass(code uint16) CodeClass {
	switch {
	case code >= 1000 && code <= 1003, code >= 1007 && code <= 1011, code >= 3000 && code <= 4999:
		return CodeAccept
	case code >= 1012 && code <= 1014, code >= 5000:
		return CodeOpen
	default:
		return CodeRefuse
	}
}

// ------------------------------------------------------------ reassembly

// Event is what a consumer of a frame stream observes.
type Event struct {
	Kind    string // "msg" | "ctl"
	Op      byte
	Payload []byte
	// Intermediate is true for a control frame that arrived between the
	// fragments of a message.
	Intermediate bool
	// FirstRsv is the RSV of the first frame of a message.
	FirstRsv byte
}

// Reassemble turns a valid frame sequence into the ordered consumer events:
// control frames in stream order, each data message at the position of its
// final fragment. open reports whether a message was left unfinished.
func Reassemble(frames []Frame) (evs []Event, open bool) {
	var cur *Event
	for _, f := range frames {
		switch {
		case IsControl(f.H.Op):
			evs = append(evs, Event{Kind: "ctl", Op: f.H.Op, Payload: f.Payload, Intermediate: cur != nil})
		case f.H.Op == OpCont:
			if cur == nil {
				continue
			}
			cur.Payload = append(cur.Payload, f.Payload...)
			if f.H.Fin {
				evs = append(evs, *cur)
				cur = nil
			}
		default:
			e := Event{Kind: "msg", Op: f.H.Op, Payload: append([]byte(nil), f.Payload...), FirstRsv: f.H.Rsv}
			if f.H.Fin {
				evs = append(evs, e)
			} else {
				cur = &e
			}
		}
	}
	return evs, cur != nil
}

// MessageBoundaries returns the byte offsets (into the concatenated encoding
// of frames) at which no message is open and no frame is cut: 0 and the end of
// every frame after which no fragmented message is pending.
func MessageBoundaries(frames []Frame) map[int]bool {
	b := map[int]bool{0: true}
	off := 0
	open := false
	for _, f := range frames {
		off += len(f.Encode())
		if !IsControl(f.H.Op) {
			open = !f.H.Fin
		}
		if !open {
			b[off] = true
		}
	}
	return b
}
