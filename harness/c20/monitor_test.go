// C20 — Dial honours cancellation at any moment without poisoning or leaking the conn.
//
// This monitor lives in a test binary because testing/synctest (virtual time,
// "all goroutines durably blocked" detection) needs a *testing.T. It is built
// with go1.26.8 and -race.
package c20

import (
	"bufio"
	"bytes"
	"context"
	"errors"
	"fmt"
	"io"
	"net"
	"net/http"
	"runtime"
	"strings"
	"sync"
	"sync/atomic"
	"testing"
	"testing/synctest"
	"time"

	"crypto/tls"

	"github.com/gobwas/ws"

	"verifharness/fakeconn"
	"verifharness/mon"
	"verifharness/ref"
)

type scen struct {
	CtxKind     string        // background | todo | withvalue | withcancel | withdeadline
	CtxDeadline time.Duration // withdeadline only
	Timeout     time.Duration // Dialer.Timeout
	Event       string        // none | cancel
	Place       string        // before:i | after:i | blocked | dialphase | afterreturn | ""
	CancelAt    time.Duration // dialphase: when cancel fires
	Peer        string        // responsive | silent:j | non101
	Chunks      int
	ChunkDelay  time.Duration
	WBuf        int
	TLS         bool
	DialDelay   time.Duration
	LastOp      int  // index of the last I/O op of an undisturbed handshake (filled from the dry run)
	RealTLS     bool // wss through the library's own crypto/tls client against a real crypto/tls server peer
	TLS12       bool // RealTLS: cap the server at TLS 1.2 (different flights than 1.3)
	HeaderLen   int  // > 0: Dialer.Header of that many bytes (several header lines), so that connection writes happen inside the user's header writer
	NoDeadlines bool // the connection refuses every SetDeadline call (no deadline support)
	WrapConn    bool // Dialer.WrapConn is set (an identity wrapper; wsutil.DebugDialer always sets one)
	CloseFails  bool // the connection's Close() returns an error (the connection is closed all the same)
	Layer       bool // Dialer.WrapConn returns a protocol layer that OWNS its deadlines (SetDeadline is not forwarded to the transport)
}

func (s scen) String() string {
	return fmt.Sprintf("ctx=%s(deadline=%v) timeout=%v event=%s place=%s cancelAt=%v peer=%s chunks=%d delay=%v wbuf=%d tls=%v dialDelay=%v lastOp=%d realtls=%v tls12=%v headerLen=%d",
		s.CtxKind, s.CtxDeadline, s.Timeout, s.Event, s.Place, s.CancelAt, s.Peer, s.Chunks, s.ChunkDelay, s.WBuf, s.TLS, s.DialDelay, s.LastOp, s.RealTLS, s.TLS12, s.HeaderLen) + fmt.Sprintf(" nodeadlines=%v wrapconn=%v layer=%v closefails=%v", s.NoDeadlines, s.WrapConn, s.Layer, s.CloseFails)
}

type ctxKey struct{}

var (
	errShutdown = errors.New("application: shutting down")
	errBudget   = errors.New("application: request budget spent")
)

// deadlineKind: the context kinds that end by themselves after CtxDeadline.
func deadlineKind(k string) bool { return k == "withdeadline" || k == "timeoutcause" }

func makeCtx(kind string, dl time.Duration) (context.Context, context.CancelFunc) {
	switch kind {
	case "background":
		return context.Background(), func() {}
	case "todo":
		return context.TODO(), func() {}
	case "withvalue":
		return context.WithValue(context.Background(), ctxKey{}, 1), func() {}
	case "withcancel":
		return context.WithCancel(context.Background())
	case "withdeadline":
		return context.WithTimeout(context.Background(), dl)
	case "cancelcause":
		// a context cancelled WITH A CAUSE (an application saying why it shuts down): ctx.Err() is still
		// context.Canceled, context.Cause(ctx) is the application's own error
		ctx, cancel := context.WithCancelCause(context.Background())
		return ctx, func() { cancel(errShutdown) }
	case "timeoutcause":
		return context.WithTimeoutCause(context.Background(), dl, errBudget)
	case "foreign":
		// a context type of the application's own (merged contexts, a context bound to a shutdown signal): the
		// context package cannot see through it, so every context derived from it needs a goroutine of its
		// own until its cancel function is called
		inner, cancel := context.WithCancel(context.Background())
		return foreignCtx{inner}, cancel
	}
	panic("ctx kind")
}

// bubbleGoroutines counts the goroutines of the calling goroutine's synctest bubble (the process has others
// that come and go) and returns their stacks.
func bubbleGoroutines() (int, string) {
	buf := make([]byte, 1<<18)
	dump := string(buf[:runtime.Stack(buf, true)])
	blocks := strings.Split(dump, "\n\n")
	tag := ""
	if i := strings.Index(blocks[0], "synctest bubble "); i >= 0 {
		tag = blocks[0][i:]
		tag = tag[:strings.IndexByte(tag, ']')+1]
	}
	if tag == "" {
		return 0, ""
	}
	n := 0
	var mine []string
	for _, b := range blocks {
		if head, _, _ := strings.Cut(b, "\n"); strings.Contains(head, tag) {
			n++
			mine = append(mine, b)
		}
	}
	return n, strings.Join(mine, "\n\n")
}

type foreignCtx struct{ context.Context }

func (f foreignCtx) Value(key interface{}) interface{} { return nil }

type tlsWrap struct{ net.Conn }

// appWrap is the application's Dialer.WrapConn wrapper (it forwards everything).
type appWrap struct{ net.Conn }

// ownDeadlineLayer is what the WrapConn documentation suggests: a protocol layer (end-to-end encryption, a
// multiplexer) between the library and the transport. The library talks to one end of an in-memory pipe; two pump
// goroutines move bytes between the other end and the transport. Deadlines set on the layer are the LAYER's: they
// end its own blocked reads and writes and are not forwarded to the transport. Closing the layer closes the transport.
type ownDeadlineLayer struct {
	net.Conn // the library's end of the pipe
	far      net.Conn
	under    net.Conn
}

func newOwnDeadlineLayer(under net.Conn) net.Conn {
	near, far := net.Pipe()
	l := &ownDeadlineLayer{Conn: near, far: far, under: under}
	go func() { io.Copy(under, far) }()
	go func() {
		io.Copy(far, under)
		far.Close() // the transport has failed or ended: the layer reports the end of the stream
	}()
	return l
}

func (l *ownDeadlineLayer) Close() error {
	l.Conn.Close()
	l.far.Close()
	return l.under.Close()
}

type result struct {
	conn       net.Conn
	br         *bufio.Reader
	err        error
	returnedAt time.Duration
	snap       snapshot
}

type outcome struct {
	res           result
	notReturned   bool
	ops           int
	log           []string
	bubblePanic   string
	lateEvents    []string
	ctxErr        error
	obtainedConn  bool
	gDump         string
	gBase, gAfter int // goroutines before Dial was started / after it returned (bubble idle both times)
	// insd scenarios: the watcher was parked inside SetDeadline / Dial returned while it was still there
	watcherParked bool
	earlyReturn   bool
	gateParked    bool // before:/after: places: the gated I/O operation was reached
	peerWrites    int
	spun          bool // Dial kept retrying reads on an expired deadline
}

// peerScript installs the scripted server on c.
func peerScript(c *vconn, s scen) {
	if s.Peer == "silent:-1" {
		c.stallWrites = true // silent from the very start: not even the request is taken
	}
	answered := false
	c.onWritten = func(c *vconn) {
		if answered || !bytes.Contains(c.written, []byte("\r\n\r\n")) {
			return
		}
		answered = true
		req, err := http.ReadRequest(bufio.NewReader(bytes.NewReader(c.written)))
		if err != nil {
			return
		}
		var resp string
		if s.Peer == "non101" {
			resp = "HTTP/1.1 403 Forbidden\r\nContent-Length: 0\r\n\r\n"
		} else {
			resp = "HTTP/1.1 101 Switching Protocols\r\nUpgrade: websocket\r\nConnection: Upgrade\r\nSec-WebSocket-Accept: " + ref.Accept(req.Header.Get("Sec-Websocket-Key")) + "\r\nX-Pad: " + strings.Repeat("p", 40) + "\r\n\r\n"
		}
		n := s.Chunks
		if n < 1 {
			n = 1
		}
		var chunks [][]byte
		per := (len(resp) + n - 1) / n
		for off := 0; off < len(resp); off += per {
			end := off + per
			if end > len(resp) {
				end = len(resp)
			}
			chunks = append(chunks, []byte(resp[off:end]))
		}
		silentFrom := len(chunks)
		if strings.HasPrefix(s.Peer, "silent:") {
			fmt.Sscanf(s.Peer, "silent:%d", &silentFrom)
		}
		for j, ch := range chunks {
			if j >= silentFrom {
				break
			}
			if s.ChunkDelay == 0 {
				c.deliver(ch)
				continue
			}
			ch := ch
			time.AfterFunc(time.Duration(j+1)*s.ChunkDelay, func() {
				c.mu.Lock()
				c.deliver(ch)
				c.mu.Unlock()
			})
		}
	}
}

// runScenario executes one scenario inside a synctest bubble.
func runScenario(t *testing.T, s scen) (o outcome) {
	// When the root goroutine of the bubble returns while another goroutine of
	// the bubble is still durably blocked (a leaked watcher), synctest.Test
	// panics ("deadlock: ... blocked goroutines remain"): that is the
	// goroutine-leak detector, decided by the runtime, not by counting.
	defer func() {
		if p := recover(); p != nil {
			o.bubblePanic = fmt.Sprint(p)
		}
	}()
	synctest.Test(t, func(t *testing.T) {
		start := time.Now()
		ctx, cancel := makeCtx(s.CtxKind, s.CtxDeadline)
		defer cancel()
		c := newVconn()
		c.noDeadlines = s.NoDeadlines
		c.closeFails = s.CloseFails
		if s.RealTLS {
			tlsPeer(c, s)
		} else {
			peerScript(c, s)
		}
		gate := ""
		if strings.HasPrefix(s.Place, "before:") || strings.HasPrefix(s.Place, "after:") { // (not the insd- places: they install their own gates)
			gate = s.Place
			c.gate(gate)
		}
		var obtained atomic.Bool
		d := ws.Dialer{Timeout: s.Timeout, WriteBufferSize: s.WBuf,
			NetDial: func(dctx context.Context, network, addr string) (net.Conn, error) {
				if s.DialDelay > 0 {
					tm := time.NewTimer(s.DialDelay)
					defer tm.Stop()
					select {
					case <-dctx.Done():
						return nil, dctx.Err()
					case <-tm.C:
					}
				}
				obtained.Store(true)
				return c, nil
			},
			TLSClient: func(cn net.Conn, host string) net.Conn { return tlsWrap{cn} },
		}
		if s.HeaderLen > 0 {
			var hb strings.Builder
			for hb.Len() < s.HeaderLen {
				fmt.Fprintf(&hb, "X-Extra-%d: %s\r\n", hb.Len(), strings.Repeat("v", 70))
			}
			switch s.HeaderLen % 3 {
			case 0:
				d.Header = ws.HandshakeHeaderString(hb.String())
			case 1:
				d.Header = ws.HandshakeHeaderBytes(hb.String())
			default:
				text := hb.String()
				d.Header = ws.HandshakeHeaderFunc(func(w io.Writer) (int64, error) { n, err := io.WriteString(w, text); return int64(n), err })
			}
		}
		if s.RealTLS {
			d.TLSClient = nil
			d.TLSConfig = &tls.Config{InsecureSkipVerify: true}
		}
		if s.WrapConn {
			d.WrapConn = func(cn net.Conn) net.Conn { return appWrap{cn} }
		}
		if s.Layer {
			d.WrapConn = newOwnDeadlineLayer
		}
		url := "ws://c20.example/x"
		if s.TLS || s.RealTLS {
			url = "wss://c20.example/x"
		}
		resCh := make(chan result, 1)
		synctest.Wait()
		o.gBase, _ = bubbleGoroutines()
		go func() {
			cn, br, _, err := d.Dial(ctx, url)
			resCh <- result{conn: cn, br: br, err: err, returnedAt: time.Since(start), snap: c.snap()}
		}()
		// ---- fire the event at the forced place
		var early *result
		switch {
		case strings.HasPrefix(s.Place, "insd-"):
			// third order: the watcher is INSIDE SetDeadline(past) - a slow system call - while the
			// handshake I/O runs to its end (success, or a complete non-101 answer). Dial has to wait for it.
			iogate := strings.TrimPrefix(s.Place, "insd-")
			c.gate(iogate)
			c.gate("sd")
			synctest.Wait()
			if c.isParked(iogate) {
				cancel()
				synctest.Wait()
				o.watcherParked = c.isParked("sd")
				c.release(iogate)
				synctest.Wait() // everything that can run has run: Dial is waiting for the watcher, or has (wrongly) returned
				if o.watcherParked {
					select {
					case r := <-resCh:
						early = &r
						o.earlyReturn = true
					default:
					}
				}
			}
			c.release("sd")
			c.release(iogate)
		case gate != "":
			synctest.Wait()
			if c.isParked(gate) {
				o.gateParked = true
				if s.Event == "cancel" {
					cancel()
					synctest.Wait() // the watcher runs to completion
				}
				c.release(gate)
			}
		case s.Place == "sd0":
			// fourth order: a deadline call of Dial's own goroutine that is not the poison (clearing the deadlines,
			// arming Dialer.Timeout) is slow; the context is cancelled meanwhile, the watcher poisons the connection
			// and finishes; only then does the slow call take effect. If the library makes no such call, this is
			// "cancel while blocked on the silent peer".
			c.gate("sd0")
			synctest.Wait()
			o.gateParked = c.isParked("sd0")
			cancel()
			synctest.Wait()
			c.release("sd0")
		case s.Place == "blocked":
			synctest.Wait() // Dial is durably blocked on the silent peer
			if s.Event == "cancel" {
				cancel()
			}
		case s.Place == "dialphase":
			if s.Event == "cancel" {
				time.Sleep(s.CancelAt)
				cancel()
			}
		}
		// ---- wait for Dial under a virtual-time bound
		limit := 2 * time.Hour
		if early != nil {
			resCh <- *early
		}
		select {
		case o.res = <-resCh:
		case <-time.After(limit):
			o.notReturned = true
			c.forceClose()
			cancel()
			o.res = <-resCh
		}
		if !o.notReturned {
			synctest.Wait()
			o.gAfter, o.gDump = bubbleGoroutines()
			if o.gAfter <= o.gBase {
				o.gDump = ""
			}
		}
		if s.Place == "afterreturn" && s.Event == "cancel" {
			cancel()
		}
		o.ctxErr = ctx.Err()
		o.obtainedConn = obtained.Load()
		if o.res.br != nil {
			ws.PutReader(o.res.br)
		}
		// ---- let virtual time pass: nothing may touch the connection any more
		time.Sleep(3 * time.Hour)
		synctest.Wait()
		after := c.snap()
		all := c.logStrings()
		if after.events > o.res.snap.events {
			o.lateEvents = all[o.res.snap.events:]
		}
		o.log = all
		o.ops = after.ops
		o.peerWrites = after.peerWrites
		o.spun = after.spun
		if s.RealTLS {
			c.forceClose() // lets the TLS server goroutine of the peer end
		}
		cancel()
		synctest.Wait()
	})
	return o
}

// ------------------------------------------------------------------ oracle

func judge(c *mon.C, s scen, o outcome) bool {
	det := func() map[string]interface{} {
		return map[string]interface{}{"scenario": s.String(), "err": fmt.Sprint(o.res.err), "returned_at_virtual": o.res.returnedAt.String(), "conn_log": o.log, "late_events": o.lateEvents, "ctx_err": fmt.Sprint(o.ctxErr)}
	}
	cls := fmt.Sprintf("%s/%s/%s", s.CtxKind, s.Event+placeKind(s.Place), peerKind(s.Peer))
	if s.Timeout != 0 {
		cls += "/timeout"
	}
	if s.NoDeadlines {
		cls += "/nodeadlines"
	}
	if o.bubblePanic != "" && !strings.Contains(o.bubblePanic, "deadlock") {
		c.Fail("bubble-panic/"+cls, "panic inside the scenario: "+o.bubblePanic, det())
		return false
	}
	if o.spun {
		c.Fail("spins-on-expired-deadline/"+cls, "Dial kept retrying reads that fail with a timeout (2000 in a row) instead of returning", det())
		return false
	}
	if o.notReturned {
		c.Fail("not-returned/"+cls, "Dial did not return within 2 virtual hours (the bubble was durably blocked with Dial still inside)", det())
		return false
	}
	err := o.res.err
	// R1: success => live connection with cleared deadlines
	if err == nil {
		if o.res.conn == nil {
			c.Fail("success/nil-conn/"+cls, "nil error but no connection", det())
			return false
		}
		if o.res.snap.closedByDial {
			c.Fail("success/closed/"+cls, "Dial returned nil but closed the connection", det())
			return false
		}
		if !o.res.snap.rdl.IsZero() || !o.res.snap.wdl.IsZero() {
			c.Fail("success/deadline-left/"+cls, "Dial returned nil but left a deadline set on the connection", det())
			return false
		}
	} else if o.obtainedConn && !o.res.snap.closedByDial {
		c.Fail("failure/not-closed/"+cls, "Dial returned an error without closing the connection it obtained: "+err.Error(), det())
		return false
	}
	// R5': Dial does not return while the watcher goroutine is still inside a call on the connection
	if o.earlyReturn {
		c.Fail("returned-while-watcher-running/"+cls, fmt.Sprintf("Dial returned (err=%v) while the context watcher was still inside SetDeadline on the connection", err), det())
		return false
	}
	// R2: never touched again
	if s.Layer {
		// (the layer's own pump goroutine was inside a transport Read when Dial closed the layer: that call ENDING
		// with "closed" after the return is the layer's business, not a use of the connection by the library)
		var kept []string
		for _, e := range o.lateEvents {
			if !(strings.Contains(e, " end ") && strings.Contains(e, "closed pipe")) {
				kept = append(kept, e)
			}
		}
		o.lateEvents = kept
	}
	if len(o.lateEvents) > 0 {
		c.Fail("touched-after-return/"+cls, "the connection was used after Dial returned: "+o.lateEvents[0], det())
		return false
	}
	// R3: forced order "context ended before the handshake I/O finished"
	forcedBefore := false
	switch {
	case s.Event == "cancel" && (s.Place == "blocked" || s.Place == "sd0"), s.Event == "cancel" && s.Place == "dialphase" && s.CancelAt < s.DialDelay:
		forcedBefore = true
	case s.Event == "cancel" && s.Place == "dialphase" && s.NoDeadlines && s.ChunkDelay > 0 && s.CancelAt < s.DialDelay+time.Duration(s.Chunks)*s.ChunkDelay && s.CancelAt%s.ChunkDelay != 0:
		// cancelled strictly between two instalments of the response: the handshake I/O had not finished
		forcedBefore = true
	case s.Event == "cancel" && (strings.HasPrefix(s.Place, "before:") || strings.HasPrefix(s.Place, "after:")):
		var i int
		fmt.Sscanf(s.Place[strings.Index(s.Place, ":")+1:], "%d", &i)
		if strings.HasPrefix(s.Place, "before:") {
			forcedBefore = i <= s.LastOp
		} else {
			forcedBefore = i < s.LastOp
		}
		if !o.gateParked {
			forcedBefore = false // the operation was never reached, so nothing was cancelled
		}
	}
	silent := strings.HasPrefix(s.Peer, "silent:")
	// a negative Dialer.Timeout (a caller passing its remaining budget after it is spent) has elapsed when Dial starts
	to := s.Timeout
	if to < 0 {
		to = 0
	}
	hsDone := time.Duration(s.Chunks) * s.ChunkDelay // virtual completion time of an undisturbed handshake (after the dial phase)
	if deadlineKind(s.CtxKind) && s.Event != "cancel" && (silent || s.CtxDeadline < s.DialDelay+hsDone) && (s.Timeout == 0 || s.CtxDeadline < s.Timeout) {
		forcedBefore = true
	}
	if forcedBefore {
		wantErr := context.Canceled
		if s.Event != "cancel" {
			wantErr = context.DeadlineExceeded
		}
		if err == nil || !errors.Is(err, wantErr) {
			c.Fail("wrong-error/"+cls, fmt.Sprintf("the context ended before the handshake I/O finished but Dial returned %v, want %v", err, wantErr), det())
			return false
		}
	}
	// R4: bounded return on a silent or slow peer
	bound := time.Duration(-1)
	if silent || s.ChunkDelay > 0 || s.DialDelay > 0 {
		if deadlineKind(s.CtxKind) {
			bound = s.CtxDeadline
		}
		if s.Timeout != 0 && (bound < 0 || to < bound) {
			bound = to
		}
		if s.Event == "cancel" {
			if s.Place == "dialphase" {
				if bound < 0 || s.CancelAt < bound {
					bound = s.CancelAt
				}
			} else {
				bound = 0
			}
		}
		done := s.DialDelay + hsDone
		if !silent && (bound < 0 || done < bound) {
			bound = done
		}
		if s.NoDeadlines && !silent {
			// "on a connection that honours deadlines Dial returns once the context ends": this one does not, so
			// the bound is the end of the handshake I/O
			bound = done
		}
	}
	if bound >= 0 && o.res.returnedAt > bound {
		what := "context end"
		if s.Timeout != 0 && bound == to {
			what = "Dialer.Timeout"
		}
		c.Fail("late-return/"+cls, fmt.Sprintf("Dial returned at virtual time %v, the %s was at %v", o.res.returnedAt, what, bound), det())
		return false
	}
	// a handshake that can finish before any limit must succeed
	if !silent && s.Event == "none" && s.Peer == "responsive" {
		lim := time.Duration(-1)
		if deadlineKind(s.CtxKind) {
			lim = s.CtxDeadline
		}
		if s.Timeout != 0 && (lim < 0 || to < lim) {
			lim = to
		}
		if (lim < 0 || s.DialDelay+hsDone < lim) && err != nil {
			c.Fail("spurious-failure/"+cls, "nothing expired before the handshake could finish but Dial failed: "+err.Error(), det())
			return false
		}
	}
	// R5: the watcher goroutine is gone (see runScenario)
	if !s.RealTLS && !o.notReturned && o.gAfter > o.gBase {
		c.Fail("goroutine-left/"+cls, fmt.Sprintf("%d goroutine(s) more than before exist after Dial returned (the caller's context is still live: nothing Dial started may go on waiting for it)", o.gAfter-o.gBase)+"\n"+o.gDump, det())
		return false
	}
	if o.bubblePanic != "" {
		c.Fail("goroutine-leak/"+cls, "the bubble could not finish after Dial returned (a goroutine started by Dial is still blocked): "+o.bubblePanic, det())
		return false
	}
	c.Class(cls + fmt.Sprintf("/err=%v", err != nil))
	return true
}

func placeKind(p string) string {
	if i := strings.Index(p, ":"); i >= 0 {
		return "@" + p[:i]
	}
	if p == "" {
		return ""
	}
	return "@" + p
}

func peerKind(p string) string {
	if strings.HasPrefix(p, "silent") {
		return "silent"
	}
	return p
}

// ------------------------------------------------------------ scenario list

var (
	scenOnce sync.Once
	scenList []scen
)

func buildScenarios(t *testing.T) []scen {
	scenOnce.Do(func() {
		ctxAll := []string{"background", "todo", "withvalue", "withcancel", "withdeadline", "foreign"}
		far := time.Hour
		for _, wbuf := range []int{4096, 100, 60} {
			for _, chunks := range []int{1, 2, 5} {
				for _, tls := range []bool{false, true} {
					base := scen{CtxKind: "withcancel", Event: "none", Peer: "responsive", Chunks: chunks, WBuf: wbuf, TLS: tls}
					dry := runScenario(t, base)
					k := dry.ops
					base.LastOp = k - 1
					// F: no event, every context kind, with and without a generous Timeout
					for _, ck := range ctxAll {
						for _, to := range []time.Duration{0, far} {
							s := base
							s.CtxKind, s.CtxDeadline, s.Timeout = ck, 2*far, to
							scenList = append(scenList, s)
						}
					}
					if tls && wbuf != 4096 {
						continue
					}
					// A: cancel forced before / after every I/O operation
					for _, ck := range []string{"withcancel", "withdeadline"} {
						for i := 0; i < k; i++ {
							for _, pl := range []string{"before", "after"} {
								s := base
								s.CtxKind, s.CtxDeadline, s.Event, s.Place = ck, far, "cancel", fmt.Sprintf("%s:%d", pl, i)
								scenList = append(scenList, s)
							}
						}
						// E: handshake finished and Dial returned, then cancel
						s := base
						s.CtxKind, s.CtxDeadline, s.Event, s.Place = ck, far, "cancel", "afterreturn"
						scenList = append(scenList, s)
					}
					// B: silent peer (j = -1: a peer that does not even drain the request, so Dial blocks in a WRITE)
					for j := -1; j < chunks; j++ {
						sil := base
						sil.Peer = fmt.Sprintf("silent:%d", j)
						for _, ck := range []string{"withcancel", "withdeadline"} {
							s := sil
							s.CtxKind, s.CtxDeadline, s.Event, s.Place = ck, far, "cancel", "blocked"
							scenList = append(scenList, s)
						}
						s := sil
						s.CtxKind, s.CtxDeadline = "withdeadline", 5*time.Second
						scenList = append(scenList, s)
						for _, ck := range ctxAll {
							s := sil
							s.CtxKind, s.CtxDeadline, s.Timeout = ck, 10*time.Second, 3*time.Second
							scenList = append(scenList, s)
						}
						s = sil
						s.CtxKind, s.CtxDeadline, s.Timeout = "withdeadline", time.Second, 3*time.Second
						scenList = append(scenList, s)
						if wbuf == 4096 && j >= 0 {
							// the same endings on a connection whose Close() reports an error: the context's error is what
							// Dial returns
							for _, ck := range []string{"withcancel", "withdeadline"} {
								s := sil
								s.CtxKind, s.CtxDeadline, s.Event, s.Place, s.CloseFails = ck, far, "cancel", "blocked", true
								scenList = append(scenList, s)
							}
							s := sil
							s.CtxKind, s.CtxDeadline, s.Timeout, s.CloseFails = "withcancel", 10*time.Second, 3*time.Second, true
							scenList = append(scenList, s)
						}
						if wbuf == 4096 && !tls && j >= 0 {
							// the same endings with a WrapConn LAYER that owns its deadlines between the library and the
							// transport: the context's end must reach the connection Dial is blocked on
							for _, ck := range []string{"withcancel", "withdeadline"} {
								s := sil
								s.CtxKind, s.CtxDeadline, s.Event, s.Place, s.Layer = ck, far, "cancel", "blocked", true
								scenList = append(scenList, s)
							}
							s := sil
							s.CtxKind, s.CtxDeadline, s.Layer = "withdeadline", 5*time.Second, true
							scenList = append(scenList, s)
							s = sil
							s.CtxKind, s.CtxDeadline, s.Timeout, s.Layer = "withcancel", 10*time.Second, 3*time.Second, true
							scenList = append(scenList, s)
						}
					}
					// G: cancel with the watcher parked inside SetDeadline while the handshake I/O completes (101 and non-101 answers)
					for _, pk := range []string{"responsive", "non101"} {
						for i := 0; i < k; i++ {
							for _, pl := range []string{"before", "after"} {
								s := base
								s.CtxKind, s.CtxDeadline, s.Event, s.Place, s.Peer = []string{"withcancel", "withdeadline"}[i%2], far, "cancel", fmt.Sprintf("insd-%s:%d", pl, i), pk
								scenList = append(scenList, s)
								if i == k-1 {
									s.Timeout = far // the Timeout-derived context takes the same path
									scenList = append(scenList, s)
								}
							}
						}
					}
					// non-101 answers
					for _, ck := range ctxAll {
						s := base
						s.CtxKind, s.CtxDeadline, s.Peer = ck, far, "non101"
						scenList = append(scenList, s)
					}
				}
			}
		}
		// I: a large Dialer.Header: the request no longer fits the write buffer, so connection writes happen inside the
		// user's header writer; cancel before / after / with the watcher inside SetDeadline at every I/O operation
		for _, hl := range []int{6000, 6001, 6002} {
			for _, wbuf := range []int{4096, 512} {
				base := scen{CtxKind: "withcancel", Event: "none", Peer: "responsive", Chunks: 1, WBuf: wbuf, HeaderLen: hl}
				dry := runScenario(t, base)
				k := dry.ops
				base.LastOp = k - 1
				scenList = append(scenList, base)
				for i := 0; i < k; i++ {
					for _, pl := range []string{"before", "after"} {
						s := base
						s.CtxKind, s.CtxDeadline, s.Event, s.Place = []string{"withcancel", "withdeadline"}[i%2], far, "cancel", fmt.Sprintf("%s:%d", pl, i)
						scenList = append(scenList, s)
						if i%3 == 0 {
							s.Timeout = far
							scenList = append(scenList, s)
						}
					}
				}
			}
		}
		// H: the real TLS path (library's crypto/tls client against a crypto/tls server peer), TLS 1.3 and 1.2
		for _, tls12 := range []bool{false, true} {
			for _, chunks := range []int{1, 2} {
				base := scen{CtxKind: "withcancel", Event: "none", Peer: "responsive", Chunks: chunks, WBuf: 4096, RealTLS: true, TLS12: tls12}
				dry := runScenario(t, base)
				k := dry.ops
				base.LastOp = k - 1
				for _, ck := range ctxAll {
					for _, to := range []time.Duration{0, far} {
						s := base
						s.CtxKind, s.CtxDeadline, s.Timeout = ck, 2*far, to
						s.WrapConn = to != 0
						scenList = append(scenList, s)
					}
					s := base
					s.CtxKind, s.CtxDeadline, s.Peer = ck, far, "non101"
					scenList = append(scenList, s)
				}
				for i := 0; i < k+1; i++ {
					for _, pl := range []string{"before", "after"} {
						s := base
						s.CtxKind, s.CtxDeadline, s.Event, s.Place = []string{"withcancel", "withdeadline"}[i%2], far, "cancel", fmt.Sprintf("%s:%d", pl, i)
						scenList = append(scenList, s)
						s.Place = "insd-" + s.Place
						scenList = append(scenList, s)
					}
				}
				for j := 0; j < dry.peerWrites; j++ { // silent before each of the server's writes (TLS flights, tickets, response chunks)
					sil := base
					sil.Peer = fmt.Sprintf("silent:%d", j)
					s := sil
					s.Event, s.Place = "cancel", "blocked"
					scenList = append(scenList, s)
					s.WrapConn = true // (with an application wrapper around the TLS connection: nothing about cancellation changes)
					scenList = append(scenList, s)
					s = sil
					s.CtxKind, s.CtxDeadline = "withdeadline", 5*time.Second
					scenList = append(scenList, s)
					s.WrapConn = true
					scenList = append(scenList, s)
					for _, ck := range ctxAll {
						s := sil
						s.CtxKind, s.CtxDeadline, s.Timeout = ck, 10*time.Second, 3*time.Second
						scenList = append(scenList, s)
						// the connect itself takes two of the three seconds: the limit covers dial AND handshake
						s.DialDelay = 2 * time.Second
						scenList = append(scenList, s)
					}
				}
			}
		}
		// C: slow peer (one chunk per virtual second) against deadlines and timeouts on either side of completion
		for _, chunks := range []int{2, 5} {
			base := scen{Event: "none", Peer: "responsive", Chunks: chunks, ChunkDelay: time.Second, WBuf: 4096}
			dry := runScenario(t, scen{CtxKind: "withcancel", Event: "none", Peer: "responsive", Chunks: chunks, WBuf: 4096})
			base.LastOp = dry.ops - 1
			for _, lim := range []time.Duration{500 * time.Millisecond, 1500 * time.Millisecond, time.Duration(chunks)*time.Second - 500*time.Millisecond, 100 * time.Second} {
				s := base
				s.CtxKind, s.CtxDeadline = "withdeadline", lim
				scenList = append(scenList, s)
				for _, ck := range ctxAll {
					s := base
					s.CtxKind, s.CtxDeadline, s.Timeout = ck, 200*time.Second, lim
					scenList = append(scenList, s)
				}
			}
		}
		// D: expiry in the dial phase
		for _, ck := range ctxAll {
			s := scen{CtxKind: ck, CtxDeadline: time.Hour, Event: "none", Place: "dialphase", Peer: "responsive", Chunks: 1, WBuf: 4096, DialDelay: 10 * time.Second, Timeout: time.Second}
			scenList = append(scenList, s)
			s.Timeout, s.DialDelay = 30*time.Second, time.Second
			scenList = append(scenList, s)
		}
		for _, ck := range []string{"withcancel", "withdeadline"} {
			s := scen{CtxKind: ck, CtxDeadline: time.Hour, Event: "cancel", CancelAt: time.Second, Place: "dialphase", Peer: "responsive", Chunks: 1, WBuf: 4096, DialDelay: 10 * time.Second}
			scenList = append(scenList, s)
		}
		scenList = append(scenList, scen{CtxKind: "withdeadline", CtxDeadline: time.Second, Event: "none", Place: "dialphase", Peer: "responsive", Chunks: 1, WBuf: 4096, DialDelay: 10 * time.Second})
		// C: contexts that end WITH A CAUSE: cancelled with a cause while blocked on a silent peer / at every I/O
		// operation of a one-chunk handshake / in the dial phase; a deadline-with-cause expiring against a silent
		// peer and a slow one, alone and with a longer Dialer.Timeout. "The error is the context's error": ctx.Err().
		{
			base := scen{CtxKind: "cancelcause", CtxDeadline: time.Hour, Event: "none", Peer: "responsive", Chunks: 2, WBuf: 4096}
			dry := runScenario(t, base)
			base.LastOp = dry.ops - 1
			scenList = append(scenList, base)
			for i := 0; i < dry.ops; i++ {
				for _, pl := range []string{"before", "after"} {
					s := base
					s.Event, s.Place = "cancel", fmt.Sprintf("%s:%d", pl, i)
					scenList = append(scenList, s)
				}
			}
			for _, to := range []time.Duration{0, time.Hour} {
				scenList = append(scenList, scen{CtxKind: "cancelcause", CtxDeadline: time.Hour, Timeout: to, Event: "cancel", Place: "blocked", Peer: "silent:0", Chunks: 1, WBuf: 4096})
				scenList = append(scenList, scen{CtxKind: "cancelcause", CtxDeadline: time.Hour, Timeout: to, Event: "cancel", Place: "blocked", Peer: "silent:0", Chunks: 1, WBuf: 4096, TLS: true})
				scenList = append(scenList, scen{CtxKind: "cancelcause", CtxDeadline: time.Hour, Timeout: to, Event: "cancel", CancelAt: time.Second, Place: "dialphase", Peer: "responsive", Chunks: 1, WBuf: 4096, DialDelay: 10 * time.Second})
				scenList = append(scenList, scen{CtxKind: "timeoutcause", CtxDeadline: 5 * time.Second, Timeout: to, Event: "none", Place: "blocked", Peer: "silent:0", Chunks: 1, WBuf: 4096})
				scenList = append(scenList, scen{CtxKind: "timeoutcause", CtxDeadline: 5 * time.Second, Timeout: to, Event: "none", Peer: "responsive", Chunks: 3, ChunkDelay: 3 * time.Second, WBuf: 4096})
				scenList = append(scenList, scen{CtxKind: "timeoutcause", CtxDeadline: time.Second, Timeout: to, Event: "none", Place: "dialphase", Peer: "responsive", Chunks: 1, WBuf: 4096, DialDelay: 10 * time.Second})
			}
		}
		// S: cancel while a non-poisoning deadline call of Dial's goroutine is in flight (gate sd0), silent peer
		for _, ck := range []string{"withcancel", "withdeadline", "foreign"} {
			for _, to := range []time.Duration{0, time.Hour} {
				for _, tls := range []bool{false, true} {
					scenList = append(scenList, scen{CtxKind: ck, CtxDeadline: 2 * time.Hour, Timeout: to, Event: "cancel", Place: "sd0", Peer: "silent:0", Chunks: 1, WBuf: 4096, TLS: tls})
				}
			}
		}
		// T: a Dialer.Timeout that has already elapsed (negative), silent peer / slow connect, every context kind
		for _, ck := range ctxAll {
			for _, to := range []time.Duration{-time.Nanosecond, -time.Second} {
				scenList = append(scenList, scen{CtxKind: ck, CtxDeadline: time.Hour, Timeout: to, Event: "none", Place: "blocked", Peer: "silent:0", Chunks: 1, WBuf: 4096})
				scenList = append(scenList, scen{CtxKind: ck, CtxDeadline: time.Hour, Timeout: to, Event: "none", Place: "dialphase", Peer: "responsive", Chunks: 1, WBuf: 4096, DialDelay: 10 * time.Second})
			}
		}
		// N: a transport WITHOUT deadline support (every SetDeadline call is refused): the response arrives in
		// instalments at 1 s, 2 s, (3 s); nothing happens / the context is cancelled / its deadline expires /
		// Dialer.Timeout fires at 1.5 s, between two instalments. Dial cannot be interrupted there, but what it
		// owes at its return is the same: success only if the context never ended, otherwise the context's error
		// and a closed connection.
		for _, ck := range ctxAll {
			for _, chunks := range []int{2, 3} {
				b := scen{CtxKind: ck, CtxDeadline: time.Hour, Event: "none", Peer: "responsive", Chunks: chunks, ChunkDelay: time.Second, WBuf: 4096, NoDeadlines: true}
				scenList = append(scenList, b)
				s := b
				s.Timeout = 1500 * time.Millisecond
				scenList = append(scenList, s)
				s = b
				s.Timeout = time.Hour
				scenList = append(scenList, s)
				if ck == "withcancel" || ck == "withdeadline" {
					s = b
					s.Event, s.Place, s.CancelAt = "cancel", "dialphase", 1500*time.Millisecond
					scenList = append(scenList, s)
					s.TLS = true
					scenList = append(scenList, s)
				}
				if ck == "withdeadline" {
					s = b
					s.CtxDeadline = 1500 * time.Millisecond
					scenList = append(scenList, s)
					s.Timeout = time.Hour
					scenList = append(scenList, s)
				}
			}
		}
	})
	return scenList
}

// --------------------------------------------------------- unforced race

type logConn struct {
	net.Conn
	mu       sync.Mutex
	events   []string
	returned bool
	late     []string
	rdlSet   bool
	closed   bool
}

func (l *logConn) ev(e string) {
	l.mu.Lock()
	l.events = append(l.events, e)
	if l.returned {
		l.late = append(l.late, e)
	}
	l.mu.Unlock()
}
func (l *logConn) SetDeadline(t time.Time) error {
	l.ev(fmt.Sprintf("SetDeadline zero=%v", t.IsZero()))
	l.mu.Lock()
	l.rdlSet = !t.IsZero()
	l.mu.Unlock()
	return l.Conn.SetDeadline(t)
}
func (l *logConn) Close() error {
	l.ev("Close")
	l.mu.Lock()
	l.closed = true
	l.mu.Unlock()
	return l.Conn.Close()
}
func (l *logConn) Read(p []byte) (int, error)  { l.ev("Read"); return l.Conn.Read(p) }
func (l *logConn) Write(p []byte) (int, error) { l.ev("Write"); return l.Conn.Write(p) }

var raceOutcomes [3]atomic.Int64 // success, ctx error, other error

func subRace() mon.Sub {
	return mon.Sub{
		Name: "unforced-race", Required: true,
		N: func(t string) int {
			if t == "thorough" {
				return 20000
			}
			return 400
		},
		Do: func(c *mon.C) {
			for k := 0; k < 50; k++ {
				c.Count(1)
				cc, sc := fakeconn.BufPipe()
				go func() {
					_, err := ws.Upgrader{}.Upgrade(sc)
					if err != nil {
						sc.Close()
					}
				}()
				lc := &logConn{Conn: cc}
				ctx, cancel := context.WithCancel(context.Background())
				spins := c.Rng.Intn(4000)
				if k%5 == 0 {
					spins = c.Rng.Intn(60000)
				}
				go func() {
					x := 0
					for i := 0; i < spins; i++ {
						x += i
					}
					_ = x
					cancel()
				}()
				d := ws.Dialer{NetDial: func(ctx context.Context, n, a string) (net.Conn, error) { return lc, nil }}
				if k%3 == 0 {
					d.Timeout = time.Hour
				}
				conn, br, _, err := d.Dial(ctx, "ws://race.example/")
				lc.mu.Lock()
				lc.returned = true
				closed, dl := lc.closed, lc.rdlSet
				lc.mu.Unlock()
				if br != nil {
					ws.PutReader(br)
				}
				det := func() map[string]interface{} {
					lc.mu.Lock()
					defer lc.mu.Unlock()
					return map[string]interface{}{"err": fmt.Sprint(err), "events": append([]string(nil), lc.events...), "late": append([]string(nil), lc.late...), "cancel_after_spins": spins}
				}
				switch {
				case err == nil:
					raceOutcomes[0].Add(1)
					if conn == nil || closed {
						c.Fail("race/success-closed", "Dial returned nil but the connection is closed", det())
						return
					}
					if dl {
						c.Fail("race/success-deadline-left", "Dial returned nil but left a deadline set", det())
						return
					}
				default:
					if errors.Is(err, context.Canceled) {
						raceOutcomes[1].Add(1)
					} else {
						raceOutcomes[2].Add(1)
					}
					if !closed {
						c.Fail("race/failure-not-closed", "Dial returned an error without closing the connection: "+err.Error(), det())
						return
					}
				}
				for i := 0; i < 50; i++ {
					runtime.Gosched()
				}
				cancel()
				for i := 0; i < 50; i++ {
					runtime.Gosched()
				}
				lc.mu.Lock()
				late := append([]string(nil), lc.late...)
				lc.mu.Unlock()
				if len(late) > 0 {
					c.Fail("race/touched-after-return", "the connection was used after Dial returned: "+late[0], det())
					return
				}
				cc.Close()
				sc.Close()
				c.Classf("race err=%v", err != nil)
			}
		},
	}
}

// subRaceTCP: the unforced race over REAL sockets (loopback TCP, the operating system's deadlines, the library's
// default net.Dialer when NetDial is nil): a listener per dial, the library's own Upgrader behind it, cancellation
// after a PRNG-chosen spin. Observed at the PEER: after a failed Dial every connection the listener accepted sees its
// end (EOF / reset) - the client closed it; after a successful Dial the greeting the server sends is readable (no
// expired deadline was left behind). "Never saw the end" is decided by a 30 s watchdog on a microsecond-scale event.
func subRaceTCP() mon.Sub {
	return mon.Sub{
		Name: "unforced-race-tcp",
		N: func(t string) int {
			if t == "thorough" {
				return 4000
			}
			return 100
		},
		Do: func(c *mon.C) {
			for k := 0; k < 10; k++ {
				c.Count(1)
				l, err := net.Listen("tcp", "127.0.0.1:0")
				if err != nil {
					c.Inconclusive("no loopback listener: " + err.Error())
					return
				}
				type acc struct{ gone chan struct{} }
				var mu sync.Mutex
				var accepted []*acc
				go func() {
					for {
						sc, err := l.Accept()
						if err != nil {
							return
						}
						a := &acc{gone: make(chan struct{})}
						mu.Lock()
						accepted = append(accepted, a)
						mu.Unlock()
						go func() {
							defer close(a.gone)
							defer sc.Close()
							sc.SetDeadline(time.Now().Add(60 * time.Second))
							if _, err := (ws.Upgrader{}).Upgrade(sc); err != nil {
								// the handshake did not finish: wait for the client to go away
								io.Copy(io.Discard, sc)
								return
							}
							ws.WriteFrame(sc, ws.NewTextFrame([]byte("hello")))
							io.Copy(io.Discard, sc)
						}()
					}
				}()
				ctx, cancel := context.WithCancel(context.Background())
				spins := c.Rng.Intn(200000)
				if k%4 == 0 {
					spins = c.Rng.Intn(3000000)
				}
				go func() {
					x := 0
					for i := 0; i < spins; i++ {
						x += i
					}
					_ = x
					cancel()
				}()
				d := ws.Dialer{}
				if k%3 == 0 {
					d.Timeout = time.Hour
				}
				conn, br, _, derr := d.Dial(ctx, "ws://"+l.Addr().String()+"/race")
				det := map[string]interface{}{"err": fmt.Sprint(derr), "cancel_after_spins": spins, "timeout_set": d.Timeout != 0}
				if derr == nil {
					raceTCP[0].Add(1)
					// a live connection: the server's greeting arrives (a deadline left in the past would fail this at once)
					conn.SetReadDeadline(time.Now().Add(30 * time.Second))
					var r io.Reader = conn
					if br != nil {
						r = io.MultiReader(br, conn)
					}
					f, rerr := ws.ReadFrame(r)
					if rerr != nil || string(f.Payload) != "hello" {
						c.Fail("race-tcp/success-unusable", fmt.Sprintf("Dial returned nil but the server's greeting cannot be read from the connection: %v", rerr), det)
						return
					}
					if br != nil {
						ws.PutReader(br)
					}
					conn.Close()
				} else {
					if errors.Is(derr, context.Canceled) {
						raceTCP[1].Add(1)
					} else {
						raceTCP[2].Add(1)
					}
					// (Dial hands back the connection object it closed together with the error: the statement asks
					// for the Close, not for a nil value - my first version demanded nil here, a false alarm, §8)
				}
				cancel()
				for i := 0; i < 20; i++ {
					runtime.Gosched()
				}
				l.Close()
				mu.Lock()
				accs := append([]*acc(nil), accepted...)
				mu.Unlock()
				for _, a := range accs {
					select {
					case <-a.gone:
					case <-time.After(30 * time.Second):
						c.Fail("race-tcp/failure-not-closed", fmt.Sprintf("Dial returned (err=%v) but the peer still holds an open connection 30 s later: the client never closed it", derr), det)
						return
					}
				}
				if derr != nil && len(accs) > 0 {
					raceTCP[3].Add(1)
				}
				c.Classf("race-tcp err=%v accepted=%d", derr != nil, len(accs))
			}
		},
	}
}

var raceTCP [4]atomic.Int64 // success, ctx error, other error, failed after the peer had accepted the connection

func TestMonitor(t *testing.T) {
	spec := &mon.Spec{
		Property: "C20",
		Level:    "exploration",
		Rule: "forced orders in VIRTUAL time (testing/synctest bubble, go1.26.8, -race): a fake net.Conn with real deadline semantics, gates that park any I/O operation before it starts or after it finished, a scripted peer (responsive in 1/2/5 chunks, slow = one chunk per virtual second, silent from chunk j, non-101) and a full event log. Scenario list (fixed, ~900): cancel forced before and after EVERY I/O operation of the handshake (operation count taken from a dry run; write buffers giving 1-3 writes; ws and wss with a TLSClient stub) for cancel and deadline contexts; cancel while blocked on a silent peer; context deadline and Dialer.Timeout shorter/longer than the other or alone for Background/TODO/WithValue/WithCancel/WithDeadline contexts against silent and slow peers; expiry in the dial phase; cancel after Dial returned; non-101 answers; no event at all; cancel at every I/O operation with the watcher goroutine parked INSIDE its SetDeadline call (a slow system call) while the handshake I/O runs to its end with a 101 or a non-101 answer: Dial must still be waiting for it. " +
			"Oracle per scenario: nil error => live conn, deadlines cleared; error => obtained conn closed; no conn method after return (3 virtual hours later); context ended before the I/O finished (forced) => errors.Is(err, ctx.Err()); return no later than min(context end, start+Timeout) on silent/slow peers; no spurious failure; no goroutine left blocked in the bubble (synctest deadlock detector). Plus sequences under the real scheduler (dial-sequences: a Dial that was refused with a complete 400 while its context was being cancelled, then a Dial against a silent peer that only cancel / context deadline / Dialer.Timeout can end: it returns and closes its connection; a 60 s watchdog decides 'never returned'). Plus the unforced race under the real scheduler (cancel after a PRNG-chosen spin), invariants only, outcome histogram in the evidence; the same race over real loopback TCP sockets with the library's default net.Dialer, observed at the peer (a failed Dial's connection sees its end, a successful Dial's connection delivers the server's greeting). distinct = (context kind, event@place, peer, timeout, outcome).",
		Assumptions: []string{"virtual time: no wall-clock value decides anything", "when cancellation races with completion (after the last I/O operation) either outcome is accepted, only the invariants are checked"},
		HangSeconds: 300,
		Subs: []mon.Sub{
			// (first: it runs before any synctest bubble exists in this process - an object a bubble leaves in a
			// package-level pool cannot be used outside of it, which the runtime punishes with a fatal error)
			subSequences(),
			{
				Name: "forced-orders", Serial: true, Exhaustive: true, Required: true,
				N: func(string) int { return len(buildScenarios(t)) },
				Do: func(c *mon.C) {
					s := buildScenarios(t)[c.I]
					o := runScenario(t, s)
					if s.RealTLS {
						c.Run.AddExtra("real_tls_scenarios", 1)
						if (strings.HasPrefix(s.Place, "before:") || strings.HasPrefix(s.Place, "after:")) && !o.gateParked {
							c.Run.AddExtra("real_tls_scenarios_whose_gated_operation_was_not_reached", 1)
						}
					}
					if strings.HasPrefix(s.Place, "insd-") {
						if o.watcherParked {
							c.Run.AddExtra("scenarios_with_watcher_parked_inside_SetDeadline", 1)
						} else {
							c.Run.AddExtra("insd_scenarios_where_the_watcher_never_reached_SetDeadline", 1)
						}
					}
					if judge(c, s, o) {
						c.Sample(map[string]interface{}{"scenario": s.String(), "err": fmt.Sprint(o.res.err), "returned_at_virtual": o.res.returnedAt.String(), "conn_events": len(o.log)})
					}
				},
			},
			subRace(),
			subRaceTCP(),
		},
		Finish: func(r *mon.Run) {
			r.Extra("tcp_race_outcomes_success", raceTCP[0].Load())
			r.Extra("tcp_race_outcomes_context_error", raceTCP[1].Load())
			r.Extra("tcp_race_outcomes_other_error", raceTCP[2].Load())
			r.Extra("tcp_race_failed_dials_whose_connection_the_peer_had_accepted_and_saw_closed", raceTCP[3].Load())
			r.Extra("race_outcomes_success", raceOutcomes[0].Load())
			r.Extra("race_outcomes_context_error", raceOutcomes[1].Load())
			r.Extra("race_outcomes_other_error", raceOutcomes[2].Load())
		},
	}
	mon.MainInTest(spec, t, []string{"-test.run=^TestMonitor$", "-test.timeout=0"})
}
