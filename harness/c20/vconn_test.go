package c20

import (
	"errors"
	"fmt"
	"io"
	"net"
	"os"
	"sync"
	"time"
)

// event is one entry of the connection's log.
type event struct {
	Seq  int
	Kind string // Read | Write | SetDeadline | SetReadDeadline | SetWriteDeadline | Close
	Arg  string
	At   time.Duration // virtual time since scenario start
}

// vconn is a net.Conn with real deadline semantics (a deadline in the past
// fails the operation with a timeout net.Error; blocked reads are woken by
// SetDeadline and Close), a scripted peer, gates that park an I/O operation
// before it starts or after it finished, and a full event log. It only blocks
// on sync.Cond and channels, so it is durable under testing/synctest.
type vconn struct {
	mu   sync.Mutex
	cond *sync.Cond

	start      time.Time
	inbox      [][]byte // chunks from the peer, one Read consumes at most one
	peerEOF    bool
	closed     bool
	rdl, wdl   time.Time
	written    []byte
	log        []event
	ops        int
	gates      map[string]chan struct{}
	parked     map[string]bool
	onWritten  func(c *vconn) // peer script; called with mu held after every write
	wake       *time.Timer
	forced     bool
	timeouts   int  // consecutive Reads answered with a timeout
	spun       bool // the dialer kept reading on an expired deadline
	peerWrites int  // real-TLS peer: Write calls of the server so far
	// stallWrites: the peer does not even drain what is sent (an unbuffered transport, a full
	// send buffer): every Write blocks until the write deadline or Close ends it
	stallWrites bool
	// noDeadlines: a transport without deadline support (a tunnel, a channel-backed conn): every SetDeadline
	// call answers with an error and changes nothing
	noDeadlines bool
	closeFails  bool
}

var errNoDeadlines = errors.New("vconn: deadlines are not supported by this transport")

func newVconn() *vconn {
	c := &vconn{start: time.Now(), gates: map[string]chan struct{}{}, parked: map[string]bool{}}
	c.cond = sync.NewCond(&c.mu)
	return c
}

type timeoutError struct{}

func (timeoutError) Error() string        { return "vconn: i/o timeout" }
func (timeoutError) Timeout() bool        { return true }
func (timeoutError) Temporary() bool      { return true }
func (timeoutError) Is(target error) bool { return target == os.ErrDeadlineExceeded }

var _ net.Error = timeoutError{}

func (c *vconn) logf(kind, format string, a ...interface{}) {
	c.log = append(c.log, event{Seq: len(c.log), Kind: kind, Arg: fmt.Sprintf(format, a...), At: time.Since(c.start)})
}

// gate installs a gate; the operation parks there until release is called.
func (c *vconn) gate(name string) {
	c.mu.Lock()
	c.gates[name] = make(chan struct{})
	c.mu.Unlock()
}

func (c *vconn) release(name string) {
	c.mu.Lock()
	g := c.gates[name]
	delete(c.gates, name)
	c.mu.Unlock()
	if g != nil {
		close(g)
	}
}

func (c *vconn) isParked(name string) bool {
	c.mu.Lock()
	defer c.mu.Unlock()
	return c.parked[name]
}

// pass parks at the gate if one is installed (mu must NOT be held).
func (c *vconn) pass(name string) {
	c.mu.Lock()
	g := c.gates[name]
	if g != nil {
		c.parked[name] = true
	}
	c.mu.Unlock()
	if g != nil {
		<-g
	}
}

func expired(dl time.Time) bool { return !dl.IsZero() && !time.Now().Before(dl) }

func (c *vconn) Read(p []byte) (n int, err error) {
	c.mu.Lock()
	k := c.ops
	c.ops++
	c.logf("Read", "op=%d start", k)
	c.mu.Unlock()
	c.pass(fmt.Sprintf("before:%d", k))
	c.mu.Lock()
	for {
		if c.closed {
			err = io.ErrClosedPipe
			break
		}
		if expired(c.rdl) {
			err = timeoutError{}
			// a caller that keeps retrying on an expired deadline never lets the bubble go idle (virtual time
			// stands still): after 2000 timeouts in a row the connection breaks for good and records the spin
			if c.timeouts++; c.timeouts > 2000 {
				c.spun = true
				c.closed = true
				c.forced = true
			}
			break
		}
		c.timeouts = 0
		if len(c.inbox) > 0 {
			n = copy(p, c.inbox[0])
			if n == len(c.inbox[0]) {
				c.inbox = c.inbox[1:]
			} else {
				c.inbox[0] = c.inbox[0][n:]
			}
			break
		}
		if c.peerEOF {
			err = io.EOF
			break
		}
		c.cond.Wait()
	}
	c.logf("Read", "op=%d end n=%d err=%v", k, n, err)
	c.mu.Unlock()
	c.pass(fmt.Sprintf("after:%d", k))
	return n, err
}

func (c *vconn) Write(p []byte) (n int, err error) {
	c.mu.Lock()
	k := c.ops
	c.ops++
	c.logf("Write", "op=%d start len=%d", k, len(p))
	c.mu.Unlock()
	c.pass(fmt.Sprintf("before:%d", k))
	c.mu.Lock()
	for c.stallWrites && !c.closed && !expired(c.wdl) {
		c.cond.Wait()
	}
	switch {
	case c.closed:
		err = io.ErrClosedPipe
	case expired(c.wdl):
		err = timeoutError{}
	default:
		c.written = append(c.written, p...)
		n = len(p)
		if c.onWritten != nil {
			c.onWritten(c)
		}
	}
	c.logf("Write", "op=%d end n=%d err=%v", k, n, err)
	c.mu.Unlock()
	c.pass(fmt.Sprintf("after:%d", k))
	return n, err
}

// deliver hands a chunk from the peer to the dialer (mu must be held).
func (c *vconn) deliver(chunk []byte) {
	c.inbox = append(c.inbox, chunk)
	c.cond.Broadcast()
}

func (c *vconn) setDeadlines(kind string, t time.Time, r, w bool) error {
	arg := "zero"
	if !t.IsZero() {
		arg = fmt.Sprintf("%v", t.Sub(c.start))
	}
	if expired(t) {
		// a deadline in the past is how the context watcher aborts I/O: the gate "sd" (if
		// installed) parks the caller INSIDE the call, before the deadline takes effect
		c.mu.Lock()
		_, gated := c.gates["sd"]
		if gated {
			c.logf(kind, "%s start (parked inside the call)", arg)
		}
		c.mu.Unlock()
		if gated {
			c.pass("sd")
			arg += " end"
		}
	}
	if !expired(t) {
		// a deadline call that is NOT the watcher's poison (clearing the deadlines, arming a timeout) may be a slow
		// call too: the gate "sd0" parks its caller inside, before it takes effect
		c.mu.Lock()
		_, gated := c.gates["sd0"]
		if gated {
			c.logf(kind, "%s start (parked inside the call)", arg)
		}
		c.mu.Unlock()
		if gated {
			c.pass("sd0")
			arg += " end"
		}
	}
	c.mu.Lock()
	defer c.mu.Unlock()
	if c.noDeadlines {
		c.logf(kind, "%s (refused: no deadline support)", arg)
		return errNoDeadlines
	}
	c.logf(kind, "%s", arg)
	if r {
		c.rdl = t
	}
	if w {
		c.wdl = t
	}
	if c.wake != nil {
		c.wake.Stop()
		c.wake = nil
	}
	if !t.IsZero() && time.Now().Before(t) {
		c.wake = time.AfterFunc(time.Until(t), func() {
			c.mu.Lock()
			c.cond.Broadcast()
			c.mu.Unlock()
		})
	}
	c.cond.Broadcast()
	return nil
}

func (c *vconn) SetDeadline(t time.Time) error { return c.setDeadlines("SetDeadline", t, true, true) }
func (c *vconn) SetReadDeadline(t time.Time) error {
	return c.setDeadlines("SetReadDeadline", t, true, false)
}
func (c *vconn) SetWriteDeadline(t time.Time) error {
	return c.setDeadlines("SetWriteDeadline", t, false, true)
}

func (c *vconn) Close() error {
	c.mu.Lock()
	c.logf("Close", "")
	c.closed = true
	c.cond.Broadcast()
	c.mu.Unlock()
	if c.closeFails {
		// (a transport whose Close reports something: a TLS connection after a timed-out write, a buffering layer that
		// flushes on Close, a reset peer. It is closed all the same.)
		return errors.New("vconn: close reported a flush failure")
	}
	return nil
}

// forceClose is the controller's emergency exit (not logged as a library call).
func (c *vconn) forceClose() {
	c.mu.Lock()
	c.closed = true
	c.forced = true
	for n, g := range c.gates {
		close(g)
		delete(c.gates, n)
	}
	c.cond.Broadcast()
	c.mu.Unlock()
}

func (c *vconn) LocalAddr() net.Addr  { return &net.TCPAddr{} }
func (c *vconn) RemoteAddr() net.Addr { return &net.TCPAddr{} }

type snapshot struct {
	events       int
	closedByDial bool
	rdl, wdl     time.Time
	ops          int
	peerWrites   int
	spun         bool
}

func (c *vconn) snap() snapshot {
	c.mu.Lock()
	defer c.mu.Unlock()
	s := snapshot{events: len(c.log), rdl: c.rdl, wdl: c.wdl, ops: c.ops, peerWrites: c.peerWrites, spun: c.spun}
	for _, e := range c.log {
		if e.Kind == "Close" {
			s.closedByDial = true
		}
	}
	return s
}

func (c *vconn) logStrings() []string {
	c.mu.Lock()
	defer c.mu.Unlock()
	var out []string
	for _, e := range c.log {
		out = append(out, fmt.Sprintf("#%d t=%v %s %s", e.Seq, e.At, e.Kind, e.Arg))
	}
	return out
}
