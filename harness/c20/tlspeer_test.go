package c20

import (
	"bufio"
	"crypto/ecdsa"
	"crypto/elliptic"
	"crypto/rand"
	"crypto/tls"
	"crypto/x509"
	"crypto/x509/pkix"
	"io"
	"math/big"
	"net"
	"net/http"
	"strings"
	"sync"
	"time"

	"verifharness/ref"
)

// A real crypto/tls server as the peer of the fake connection: the wss path of
// Dial with the library's own TLS client (no TLSClient stub), so that
// cancellation lands inside the TLS handshake flights as well as inside the
// HTTP exchange, and the errors crypto/tls hands back after the watcher
// poisoned the deadline are the real ones.

var (
	certOnce sync.Once
	peerCert tls.Certificate
)

func serverCert() tls.Certificate {
	certOnce.Do(func() {
		key, err := ecdsa.GenerateKey(elliptic.P256(), rand.Reader)
		if err != nil {
			panic(err)
		}
		tpl := &x509.Certificate{
			SerialNumber: big.NewInt(20), Subject: pkix.Name{CommonName: "c20.example"}, DNSNames: []string{"c20.example"},
			NotBefore: time.Unix(0, 0), NotAfter: time.Date(2200, 1, 1, 0, 0, 0, 0, time.UTC), KeyUsage: x509.KeyUsageDigitalSignature, ExtKeyUsage: []x509.ExtKeyUsage{x509.ExtKeyUsageServerAuth},
		}
		der, err := x509.CreateCertificate(rand.Reader, tpl, tpl, &key.PublicKey, key)
		if err != nil {
			panic(err)
		}
		peerCert = tls.Certificate{Certificate: [][]byte{der}, PrivateKey: key}
	})
	return peerCert
}

// peerConn is the server's end of a vconn: it reads what the dialer wrote and
// delivers what it writes as one chunk per Write call.
type peerConn struct {
	c          *vconn
	off        int
	writes     int
	silentFrom int // the server goes silent (blocks until the connection is closed) before its silentFrom-th write; <0 never
}

func (p *peerConn) Read(b []byte) (int, error) {
	p.c.mu.Lock()
	defer p.c.mu.Unlock()
	for p.off >= len(p.c.written) {
		if p.c.closed {
			return 0, io.EOF
		}
		p.c.cond.Wait()
	}
	n := copy(b, p.c.written[p.off:])
	p.off += n
	return n, nil
}

func (p *peerConn) Write(b []byte) (int, error) {
	p.c.mu.Lock()
	defer p.c.mu.Unlock()
	if p.silentFrom >= 0 && p.writes >= p.silentFrom {
		for !p.c.closed {
			p.c.cond.Wait()
		}
	}
	if p.c.closed {
		return 0, io.ErrClosedPipe
	}
	p.writes++
	p.c.peerWrites++
	p.c.deliver(append([]byte(nil), b...))
	return len(b), nil
}

func (p *peerConn) Close() error                       { return nil }
func (p *peerConn) LocalAddr() net.Addr                { return &net.TCPAddr{} }
func (p *peerConn) RemoteAddr() net.Addr               { return &net.TCPAddr{} }
func (p *peerConn) SetDeadline(t time.Time) error      { return nil }
func (p *peerConn) SetReadDeadline(t time.Time) error  { return nil }
func (p *peerConn) SetWriteDeadline(t time.Time) error { return nil }

// tlsPeer starts the TLS server goroutine for c. It ends when the connection is
// closed (by Dial, or by the controller at the end of the scenario).
func tlsPeer(c *vconn, s scen) {
	pc := &peerConn{c: c, silentFrom: -1}
	if strings.HasPrefix(s.Peer, "silent:") {
		var j int
		for _, ch := range s.Peer[len("silent:"):] {
			j = j*10 + int(ch-'0')
		}
		pc.silentFrom = j
	}
	c.mu.Lock()
	c.onWritten = func(c *vconn) { c.cond.Broadcast() }
	c.mu.Unlock()
	cfg := &tls.Config{Certificates: []tls.Certificate{serverCert()}, MinVersion: tls.VersionTLS12}
	if s.TLS12 {
		cfg.MaxVersion = tls.VersionTLS12
	}
	go func() {
		srv := tls.Server(pc, cfg)
		if err := srv.Handshake(); err != nil {
			return
		}
		req, err := http.ReadRequest(bufio.NewReader(srv))
		if err != nil {
			return
		}
		resp := "HTTP/1.1 101 Switching Protocols\r\nUpgrade: websocket\r\nConnection: Upgrade\r\nSec-WebSocket-Accept: " + ref.Accept(req.Header.Get("Sec-Websocket-Key")) + "\r\n\r\n"
		if s.Peer == "non101" {
			resp = "HTTP/1.1 403 Forbidden\r\nContent-Length: 0\r\n\r\n"
		}
		n := s.Chunks
		if n < 1 {
			n = 1
		}
		per := (len(resp) + n - 1) / n
		for off := 0; off < len(resp); off += per {
			end := off + per
			if end > len(resp) {
				end = len(resp)
			}
			if _, err := srv.Write([]byte(resp[off:end])); err != nil {
				return
			}
		}
		// stay until the connection goes away (reads the close_notify, if any)
		io.Copy(io.Discard, srv)
	}()
}
