package c20

import (
	"bytes"
	"context"
	"fmt"
	"io"
	"net"
	"runtime"
	"sync"
	"sync/atomic"
	"time"

	"github.com/gobwas/ws"

	"verifharness/mon"
)

// cancelOnResponse is the client end of a pipe to a peer that answers the
// upgrade request with a complete non-101 response. The Read that returns the
// end of that response cancels the dial context first and waits until the
// watcher has reacted (a deadline in the past was set), so that Dial sees BOTH:
// a context that ended during the handshake and a complete, parseable answer.
type cancelOnResponse struct {
	net.Conn
	cancel  context.CancelFunc
	mu      sync.Mutex
	seen    []byte
	past    atomic.Bool
	reacted bool
	closed  atomic.Bool
}

func (c *cancelOnResponse) Read(p []byte) (int, error) {
	n, err := c.Conn.Read(p)
	c.mu.Lock()
	c.seen = append(c.seen, p[:n]...)
	whole := bytes.Contains(c.seen, []byte("\r\n\r\nnope"))
	c.mu.Unlock()
	if whole && !c.reacted {
		c.cancel()
		for i := 0; i < 200000 && !c.past.Load(); i++ {
			runtime.Gosched()
		}
		c.reacted = c.past.Load()
	}
	return n, err
}

func (c *cancelOnResponse) SetDeadline(t time.Time) error {
	if !t.IsZero() && t.Before(time.Now()) {
		c.past.Store(true)
	}
	return c.Conn.SetDeadline(t)
}

func (c *cancelOnResponse) Close() error { c.closed.Store(true); return c.Conn.Close() }

type closeFlag struct {
	net.Conn
	closed atomic.Bool
	wrote  atomic.Bool
}

func (c *closeFlag) Write(p []byte) (int, error) {
	n, err := c.Conn.Write(p)
	c.wrote.Store(true)
	return n, err
}
func (c *closeFlag) Close() error { c.closed.Store(true); return c.Conn.Close() }

var seqFailed atomic.Bool

// subSequences: what one Dial leaves behind must not matter to the next. A Dial
// whose context ended while a complete refusal arrived (so that its error is
// NOT a timeout) is followed by a Dial against a silent peer that only its
// context (cancel, deadline or Dialer.Timeout) can end. Real scheduler, real
// time; the only clock reading that decides anything is a generous watchdog on
// "never returned" (a hang is reported after 20 s and confirmed after 40 s more).
func subSequences() mon.Sub {
	return mon.Sub{
		Name: "dial-sequences", Required: true, Serial: true,
		N: func(t string) int {
			if t == "thorough" {
				return 400
			}
			return 24
		},
		Do: func(c *mon.C) {
			if seqFailed.Load() {
				return // (a hang costs a minute of watchdog: one report is enough)
			}
			// half of the cases on a single P: what a Dial leaves in a per-P cache (sync.Pool) is then
			// certainly what the next Dial finds
			if c.I%2 == 0 {
				defer runtime.GOMAXPROCS(runtime.GOMAXPROCS(1))
			}
			for round := 0; round < 4; round++ {
				c.Count(2)
				// ---- first dial: refused, context ended during the handshake
				cc, sc := net.Pipe()
				go func() {
					buf := make([]byte, 4096)
					var got []byte
					for !bytes.Contains(got, []byte("\r\n\r\n")) {
						n, err := sc.Read(buf)
						got = append(got, buf[:n]...)
						if err != nil {
							return
						}
					}
					sc.Write([]byte("HTTP/1.1 400 Bad Request\r\nContent-Length: 5\r\n\r\nnope!"))
					io.Copy(io.Discard, sc)
				}()
				ctx1, cancel1 := context.WithCancel(context.Background())
				first := &cancelOnResponse{Conn: cc, cancel: cancel1}
				d1 := ws.Dialer{NetDial: func(context.Context, string, string) (net.Conn, error) { return first, nil }}
				if (c.I+round)%2 == 1 {
					d1.Timeout = time.Hour
				}
				// both dials run on ONE goroutine (a reconnect loop): whatever the first leaves in a per-P cache
				// is what the second finds
				cc2, sc2 := net.Pipe()
				go io.Copy(io.Discard, sc2) // takes the request, never answers
				second := &closeFlag{Conn: cc2}
				mode := (c.I + round) % 3
				var ctx2 context.Context
				var cancel2 context.CancelFunc
				d2 := ws.Dialer{NetDial: func(context.Context, string, string) (net.Conn, error) { return second, nil }}
				switch mode {
				case 0:
					ctx2, cancel2 = context.WithCancel(context.Background())
				case 1:
					ctx2, cancel2 = context.WithCancel(context.Background()) // (deadline armed when the dial starts)
				default:
					ctx2, cancel2 = context.WithCancel(context.Background())
					d2.Timeout = 150 * time.Millisecond
				}
				firstDone := make(chan error, 1)
				done := make(chan error, 1)
				go func() {
					_, _, _, err := d1.Dial(ctx1, "ws://seq.example/first")
					firstDone <- err
					ctx := ctx2
					if mode == 1 {
						var cancel context.CancelFunc
						ctx, cancel = context.WithTimeout(ctx2, 150*time.Millisecond)
						defer cancel()
					}
					_, _, _, err = d2.Dial(ctx, "ws://seq.example/second")
					done <- err
				}()
				var err1 error
				select {
				case err1 = <-firstDone:
				case <-time.After(60 * time.Second):
					cc.Close()
					seqFailed.Store(true)
					c.Fail("sequence/first-not-returned", "a Dial that was refused while its context was cancelled did not return within a minute", map[string]interface{}{"round": round})
					return
				}
				cancel1()
				sc.Close()
				det := map[string]interface{}{"round": round, "first_dial_error": fmt.Sprint(err1), "watcher_reacted_before_the_response_was_returned": first.reacted}
				if err1 == nil || !first.closed.Load() {
					c.Fail("sequence/first-dial", fmt.Sprintf("a refused handshake returned %v / connection closed: %v", err1, first.closed.Load()), det)
					return
				}
				det["second_dial"] = []string{"cancelled once the request is out", "context deadline 150 ms", "Dialer.Timeout 150 ms"}[mode]
				if mode == 0 {
					for i := 0; i < 2000000 && !second.wrote.Load(); i++ {
						runtime.Gosched()
					}
					cancel2()
				}
				var err2 error
				returned := false
				select {
				case err2 = <-done:
					returned = true
				case <-time.After(20 * time.Second):
					select {
					case err2 = <-done:
						returned = true
					case <-time.After(40 * time.Second):
					}
				}
				cancel2()
				sc2.Close()
				if !returned {
					cc2.Close()
					seqFailed.Store(true)
					c.Fail("sequence/not-returned", "a Dial against a silent peer did not return within a minute of its context ending; the Dial before it had ended with a refusal while its context was cancelled", det)
					return
				}
				det["second_dial_error"] = fmt.Sprint(err2)
				if err2 == nil || !second.closed.Load() {
					c.Fail("sequence/second-dial", fmt.Sprintf("the dial against a silent peer returned %v / connection closed: %v", err2, second.closed.Load()), det)
					return
				}
			}
			c.Classf("mode=%d", c.I%3)
			c.Sample(map[string]interface{}{"pairs": 4})
		},
	}
}
