#!/usr/bin/env python3
"""Independent DEFLATE oracle for C12 (CPython's zlib, not Go's compress/flate).

serve: line protocol on stdin/stdout
  inflate <hex>                      -> ok <hex of inflated bytes> <hex of unused trailing data> <end> | err <message>
      end = final (a BFINAL=1 block ended the stream) | boundary (the input ends exactly on a block boundary: a final
      empty stored block fed to a COPY of the decoder ends the stream) | midblock (it ends inside a block)
  deflate <level> <strategy> <memlevel> <final> <chunk>...
      chunk = <hex>:<f>  (f = 0 no flush, 1 Z_SYNC_FLUSH, 2 Z_FULL_FLUSH after the chunk)
      final = 1 Z_SYNC_FLUSH | 2 Z_FULL_FLUSH | 4 Z_FINISH (a BFINAL=1 block, RFC 7692 7.2.3.4) at the end
                                     -> ok <hex of raw deflate stream ending in 00 00 ff ff>
selftest: exercises both commands once.
"""
import sys, zlib, binascii

FL = {0: None, 1: zlib.Z_SYNC_FLUSH, 2: zlib.Z_FULL_FLUSH, 4: zlib.Z_FINISH}


def inflate(data):
    d = zlib.decompressobj(-15)
    out = d.decompress(data)
    if d.eof:
        end = "final"
    else:
        probe = d.copy()
        try:
            extra = probe.decompress(b"\x01\x00\x00\xff\xff")
            end = "boundary" if probe.eof and not extra else "midblock"
        except zlib.error:
            end = "midblock"
    return out, d.unused_data, end


def deflate(level, strategy, memlevel, final, chunks):
    c = zlib.compressobj(level, zlib.DEFLATED, -15, memlevel, strategy)
    out = b""
    for data, f in chunks:
        out += c.compress(data)
        if FL[f] is not None:
            out += c.flush(FL[f])
    out += c.flush(FL[final])
    return out


def handle(line):
    parts = line.split()
    if not parts:
        return "err empty"
    try:
        if parts[0] == "inflate":
            data = binascii.unhexlify(parts[1]) if len(parts) > 1 else b""
            out, unused, end = inflate(data)
            return "ok %s %s %s" % (binascii.hexlify(out).decode() or "-", binascii.hexlify(unused).decode() or "-", end)
        if parts[0] == "deflate":
            level, strategy, memlevel, final = map(int, parts[1:5])
            chunks = []
            for ch in parts[5:]:
                h, f = ch.split(":")
                chunks.append((binascii.unhexlify(h) if h != "-" else b"", int(f)))
            out = deflate(level, strategy, memlevel, final, chunks)
            return "ok %s" % (binascii.hexlify(out).decode() or "-")
        return "err unknown command"
    except Exception as e:  # noqa
        return "err %s: %s" % (type(e).__name__, str(e).replace("\n", " "))


def main():
    if len(sys.argv) > 1 and sys.argv[1] == "selftest":
        raw = deflate(6, 0, 8, 1, [(b"hello hello hello", 0)])
        assert raw.endswith(b"\x00\x00\xff\xff"), raw
        out, _, end = inflate(raw)
        assert out == b"hello hello hello" and end == "boundary", end
        assert inflate(b"\x00\x00\xff\xff")[2] == "midblock"
        assert inflate(b"\x01\x00\x00\xff\xff")[2] == "final"
        assert inflate(b"\x00\x00\x00\xff\xff")[2] == "boundary"
        print("selftest ok, zlib", zlib.ZLIB_RUNTIME_VERSION)
        return
    for line in sys.stdin:
        sys.stdout.write(handle(line) + "\n")
        sys.stdout.flush()


if __name__ == "__main__":
    main()
