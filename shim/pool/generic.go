// Package pool is an INSTRUMENTED copy of github.com/gobwas/pool v0.2.1 used
// only by the /verif monitors (swapped in through a go.mod replace, like a
// sanitizer's allocator). With every knob at its zero value it behaves exactly
// like the original (a sync.Pool per size class). The knobs:
//
//   - Poison: Put overwrites every []byte reachable from the object (the whole
//     capacity of a pbytes slice; the buffer of a *bufio.Reader / *bufio.Writer;
//     the []byte fields of any other pooled struct, e.g. *wsutil.Writer) with a
//     recognisable pattern and remembers it; Get (and VerifyQuarantine) checks
//     the pattern is still intact, so a write through a stale reference is
//     caught, and a read through a stale reference sees the pattern.
//   - Reuse: ReuseLIFO keeps objects on a deterministic LIFO stack so that the
//     very next Get of the class returns the object that was just Put;
//     ReuseNever drops objects (keeping the last few quarantined for the
//     write-after-put check); ReuseSync is the original sync.Pool.
//   - Yield: runtime.Gosched() inside Put/Get to widen interleavings.
//
// Alarms (double put, write after put) are collected and read by the monitor
// with TakeAlarms().
package pool

import (
	"bytes"
	"fmt"
	"reflect"
	"runtime"
	"sync"
	"sync/atomic"
	"unsafe"

	"github.com/gobwas/pool/internal/pmath"
)

var DefaultPool = New(128, 65536)

// Get pulls object whose generic size is at least of given size. It also
// returns a real size of x for further pass to Put(). It returns -1 as real
// size for nil x. Size >-1 does not mean that x is non-nil, so checks must be
// done.
//
// Note that size could be ceiled to the next power of two.
//
// Get is a wrapper around DefaultPool.Get().
func Get(size int) (interface{}, int) { return DefaultPool.Get(size) }

// Put takes x and its size for future reuse.
// Put is a wrapper around DefaultPool.Put().
func Put(x interface{}, size int) { DefaultPool.Put(x, size) }

// Pool contains logic of reusing objects distinguishable by size in generic
// way.
type Pool struct {
	pool map[int]*class
	size func(int) int
}

type class struct {
	sp    sync.Pool
	mu    sync.Mutex
	stack []*entry
}

type entry struct {
	x       interface{}
	pat     byte
	poison  bool
	putGoID int64
	putSite string
}

// New creates new Pool that reuses objects which size is in logarithmic range
// [min, max].
//
// Note that it is a shortcut for Custom() constructor with Options provided by
// WithLogSizeMapping() and WithLogSizeRange(min, max) calls.
func New(min, max int) *Pool {
	return Custom(
		WithLogSizeMapping(),
		WithLogSizeRange(min, max),
	)
}

// Custom creates new Pool with given options.
func Custom(opts ...Option) *Pool {
	p := &Pool{
		pool: make(map[int]*class),
		size: pmath.Identity,
	}

	c := (*poolConfig)(p)
	for _, opt := range opts {
		opt(c)
	}

	return p
}

// ---------------------------------------------------------------- shim state

// Reuse modes.
const (
	ReuseSync int32 = iota
	ReuseLIFO
	ReuseNever
)

var (
	shimPoison atomic.Bool
	shimReuse  atomic.Int32
	shimYield  atomic.Bool
	shimTrack  atomic.Bool // record goroutine ids (cross-goroutine hand-offs)

	shimMu     sync.Mutex
	inPool     = map[uintptr]*entry{}
	alarms     []string
	quarantine []*entry // ReuseNever: last few dropped objects
	patSeq     uint32

	statPuts, statGets, statReuse, statHandoff, statDropped, statChecked atomic.Int64
)

// Configure sets the shim knobs. Safe to call between cases.
func Configure(poison bool, reuse int32, yield bool, track bool) {
	shimPoison.Store(poison)
	shimReuse.Store(reuse)
	shimYield.Store(yield)
	shimTrack.Store(track)
}

// Stats is what the shim observed since process start.
type Stats struct {
	Puts, Gets, Reused, CrossGoroutineHandoffs, Dropped, PatternChecks int64
}

func ReadStats() Stats {
	return Stats{statPuts.Load(), statGets.Load(), statReuse.Load(), statHandoff.Load(), statDropped.Load(), statChecked.Load()}
}

// TakeAlarms returns and clears the collected alarms.
func TakeAlarms() []string {
	shimMu.Lock()
	defer shimMu.Unlock()
	a := alarms
	alarms = nil
	return a
}

func alarm(format string, args ...interface{}) {
	shimMu.Lock()
	alarmLocked(format, args...)
	shimMu.Unlock()
}

// alarmLocked requires shimMu to be held.
func alarmLocked(format string, args ...interface{}) {
	if len(alarms) < 64 {
		alarms = append(alarms, fmt.Sprintf(format, args...))
	}
}

// VerifyQuarantine checks that no object currently owned by the pools (LIFO
// stacks and the ReuseNever quarantine) was modified since it was Put. It
// returns the number of objects checked.
func VerifyQuarantine() int {
	// The whole walk happens under shimMu, which Get and Put also take while
	// they move an object in or out of the pool: an object is never checked
	// while somebody legitimately owns it.
	shimMu.Lock()
	defer shimMu.Unlock()
	n := 0
	for _, e := range inPool {
		checkEntry(e, "quarantine")
		n++
	}
	for _, e := range quarantine {
		checkEntry(e, "quarantine")
		n++
	}
	return n
}

// DrainAll forgets every pooled object (so that the next case starts clean).
func DrainAll() {
	ps := allPools()
	shimMu.Lock()
	inPool = map[uintptr]*entry{}
	quarantine = nil
	for _, p := range ps {
		for _, c := range p.pool {
			c.stack = nil
		}
	}
	shimMu.Unlock()
}

var (
	poolsMu sync.Mutex
	pools   []*Pool
)

func allPools() []*Pool {
	poolsMu.Lock()
	defer poolsMu.Unlock()
	return append([]*Pool(nil), pools...)
}

func goid() int64 {
	var buf [40]byte
	n := runtime.Stack(buf[:], false)
	// "goroutine 123 ["
	var id int64
	for i := len("goroutine "); i < n; i++ {
		c := buf[i]
		if c < '0' || c > '9' {
			break
		}
		id = id*10 + int64(c-'0')
	}
	return id
}

func callSite() string {
	pcs := make([]uintptr, 12)
	n := runtime.Callers(3, pcs)
	fr := runtime.CallersFrames(pcs[:n])
	s := ""
	for {
		f, more := fr.Next()
		if f.Function != "" {
			if s != "" {
				s += " < "
			}
			s += f.Function
		}
		if !more {
			break
		}
	}
	return s
}

// identity returns a stable address identifying the pooled object.
func identity(x interface{}) uintptr {
	switch v := x.(type) {
	case []byte:
		v = v[:cap(v)]
		if len(v) == 0 {
			return 0
		}
		return uintptr(unsafe.Pointer(unsafe.SliceData(v)))
	}
	rv := reflect.ValueOf(x)
	if rv.Kind() == reflect.Ptr && !rv.IsNil() {
		return rv.Pointer()
	}
	return 0
}

// byteSlices returns every []byte reachable directly from x: x itself when it
// is a []byte (full capacity), otherwise the []byte fields (exported or not) of
// the struct x points to.
func byteSlices(x interface{}) [][]byte {
	switch v := x.(type) {
	case []byte:
		return [][]byte{v[:cap(v)]}
	}
	rv := reflect.ValueOf(x)
	if rv.Kind() != reflect.Ptr || rv.IsNil() {
		return nil
	}
	ev := rv.Elem()
	if ev.Kind() != reflect.Struct {
		return nil
	}
	var out [][]byte
	for i := 0; i < ev.NumField(); i++ {
		f := ev.Field(i)
		if f.Kind() == reflect.Slice && f.Type().Elem().Kind() == reflect.Uint8 {
			// Read through unsafe: the field may be unexported.
			p := (*[]byte)(unsafe.Pointer(f.UnsafeAddr()))
			b := *p
			b = b[:cap(b)]
			if len(b) > 0 {
				out = append(out, b)
			}
		}
	}
	return out
}

var patBlocks [256][]byte

func init() {
	for i := range patBlocks {
		patBlocks[i] = make([]byte, 4096)
		for j := range patBlocks[i] {
			patBlocks[i][j] = byte(i)
		}
	}
}

func fill(b []byte, pat byte) {
	blk := patBlocks[pat]
	for len(b) > 0 {
		n := copy(b, blk)
		b = b[n:]
	}
}

// firstMismatch returns the offset of the first byte != pat, or -1.
func firstMismatch(b []byte, pat byte) int {
	blk := patBlocks[pat]
	off := 0
	for len(b) > 0 {
		n := len(b)
		if n > len(blk) {
			n = len(blk)
		}
		if !bytes.Equal(b[:n], blk[:n]) {
			for i := 0; i < n; i++ {
				if b[i] != pat {
					return off + i
				}
			}
		}
		b = b[n:]
		off += n
	}
	return -1
}

func poisonEntry(e *entry) {
	e.poison = true
	e.pat = 0xA5 ^ byte(atomic.AddUint32(&patSeq, 1)*7)
	for _, b := range byteSlices(e.x) {
		fill(b, e.pat)
	}
}

// checkEntry requires shimMu to be held.
func checkEntry(e *entry, when string) {
	if !e.poison {
		return
	}
	statChecked.Add(1)
	for k, b := range byteSlices(e.x) {
		if i := firstMismatch(b, e.pat); i >= 0 {
			alarmLocked("write-after-put: object %T slice#%d offset %d holds %#02x, pattern %#02x (detected at %s); put by: %s", e.x, k, i, b[i], e.pat, when, e.putSite)
			// re-poison so the same write is reported once.
			fill(b, e.pat)
			return
		}
	}
}

// Get pulls object whose generic size is at least of given size.
// It also returns a real size of x for further pass to Put() even if x is nil.
// Note that size could be ceiled to the next power of two.
//
// Shim: one coarse lock (shimMu) serialises every move of an object into or
// out of a pool together with its pattern check, so the monitor's own state is
// updated atomically with the state it shadows.
func (p *Pool) Get(size int) (interface{}, int) {
	n := p.size(size)
	c := p.pool[n]
	if c == nil {
		return nil, size
	}
	if shimYield.Load() {
		runtime.Gosched()
	}
	statGets.Add(1)
	reuse := shimReuse.Load()
	if reuse == ReuseNever {
		return nil, n
	}
	var e *entry
	if reuse == ReuseSync {
		if v := c.sp.Get(); v != nil {
			e = v.(*entry)
		}
	}
	shimMu.Lock()
	if reuse == ReuseLIFO {
		if k := len(c.stack); k > 0 {
			e = c.stack[k-1]
			c.stack = c.stack[:k-1]
		}
	}
	if e == nil {
		shimMu.Unlock()
		return nil, n
	}
	checkEntry(e, "get")
	if id := identity(e.x); id != 0 {
		delete(inPool, id)
	}
	shimMu.Unlock()
	statReuse.Add(1)
	if shimTrack.Load() && e.putGoID != 0 && e.putGoID != goid() {
		statHandoff.Add(1)
	}
	return e.x, n
}

// Put takes x and its size for future reuse.
func (p *Pool) Put(x interface{}, size int) {
	c := p.pool[size]
	if c == nil {
		return
	}
	if shimYield.Load() {
		runtime.Gosched()
	}
	statPuts.Add(1)
	e := &entry{x: x}
	poison := shimPoison.Load()
	if poison {
		e.putSite = callSite()
	}
	if shimTrack.Load() {
		e.putGoID = goid()
	}
	id := identity(x)
	reuse := shimReuse.Load()
	shimMu.Lock()
	if id != 0 && (poison || reuse != ReuseSync) {
		if prev, dup := inPool[id]; dup {
			alarmLocked("double-put: object %T put again while still owned by the pool; first put by: %s; second put by: %s", x, prev.putSite, callSite())
			shimMu.Unlock()
			return
		}
		if reuse != ReuseNever {
			inPool[id] = e
		}
	}
	if poison {
		poisonEntry(e)
	}
	switch reuse {
	case ReuseLIFO:
		c.stack = append(c.stack, e)
		shimMu.Unlock()
	case ReuseNever:
		statDropped.Add(1)
		if poison {
			quarantine = append(quarantine, e)
			if len(quarantine) > 256 {
				checkEntry(quarantine[0], "quarantine-evict")
				quarantine = quarantine[1:]
			}
		}
		shimMu.Unlock()
	default:
		shimMu.Unlock()
		c.sp.Put(e)
	}
}

type poolConfig Pool

// AddSize adds size n to the map.
func (p *poolConfig) AddSize(n int) {
	p.pool[n] = new(class)
	poolsMu.Lock()
	found := false
	for _, q := range pools {
		if q == (*Pool)(p) {
			found = true
		}
	}
	if !found {
		pools = append(pools, (*Pool)(p))
	}
	poolsMu.Unlock()
}

// SetSizeMapping sets up incoming size mapping function.
func (p *poolConfig) SetSizeMapping(size func(int) int) {
	p.size = size
}
