// +build !pool_sanitize

package pbytes

import "github.com/gobwas/pool"

// Pool contains logic of reusing byte slices of various size.
type Pool struct {
	pool *pool.Pool
}

// New creates new Pool that reuses slices which size is in logarithmic range
// [min, max].
//
// Note that it is a shortcut for Custom() constructor with Options provided by
// pool.WithLogSizeMapping() and pool.WithLogSizeRange(min, max) calls.
func New(min, max int) *Pool {
	return &Pool{pool.New(min, max)}
}

// New creates new Pool with given options.
func Custom(opts ...pool.Option) *Pool {
	return &Pool{pool.Custom(opts...)}
}

// Get returns probably reused slice of bytes with at least capacity of c and
// exactly len of n.
func (p *Pool) Get(n, c int) []byte {
	if n > c {
		panic("requested length is greater than capacity")
	}

	v, x := p.pool.Get(c)
	if v != nil {
		bts := v.([]byte)
		bts = bts[:n]
		return bts
	}

	return make([]byte, n, x)
}

// Put returns given slice to reuse pool.
// It does not reuse bytes whose size is not power of two or is out of pool
// min/max range.
func (p *Pool) Put(bts []byte) {
	p.pool.Put(bts, cap(bts))
}

// GetCap returns probably reused slice of bytes with at least capacity of n.
func (p *Pool) GetCap(c int) []byte {
	return p.Get(0, c)
}

// GetLen returns probably reused slice of bytes with at least capacity of n
// and exactly len of n.
func (p *Pool) GetLen(n int) []byte {
	return p.Get(n, n)
}
