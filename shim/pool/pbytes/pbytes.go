// Package pbytes contains tools for pooling byte pool.
// Note that by default it reuse slices with capacity from 128 to 65536 bytes.
package pbytes

// DefaultPool is used by pacakge level functions.
var DefaultPool = New(128, 65536)

// Get returns probably reused slice of bytes with at least capacity of c and
// exactly len of n.
// Get is a wrapper around DefaultPool.Get().
func Get(n, c int) []byte { return DefaultPool.Get(n, c) }

// GetCap returns probably reused slice of bytes with at least capacity of n.
// GetCap is a wrapper around DefaultPool.GetCap().
func GetCap(c int) []byte { return DefaultPool.GetCap(c) }

// GetLen returns probably reused slice of bytes with at least capacity of n
// and exactly len of n.
// GetLen is a wrapper around DefaultPool.GetLen().
func GetLen(n int) []byte { return DefaultPool.GetLen(n) }

// Put returns given slice to reuse pool.
// Put is a wrapper around DefaultPool.Put().
func Put(p []byte) { DefaultPool.Put(p) }
