// Package pbufio contains tools for pooling bufio.Reader and bufio.Writers.
package pbufio

import (
	"bufio"
	"io"

	"github.com/gobwas/pool"
)

var (
	DefaultWriterPool = NewWriterPool(256, 65536)
	DefaultReaderPool = NewReaderPool(256, 65536)
)

// GetWriter returns bufio.Writer whose buffer has at least size bytes.
// Note that size could be ceiled to the next power of two.
// GetWriter is a wrapper around DefaultWriterPool.Get().
func GetWriter(w io.Writer, size int) *bufio.Writer { return DefaultWriterPool.Get(w, size) }

// PutWriter takes bufio.Writer for future reuse.
// It does not reuse bufio.Writer which underlying buffer size is not power of
// PutWriter is a wrapper around DefaultWriterPool.Put().
func PutWriter(bw *bufio.Writer) { DefaultWriterPool.Put(bw) }

// GetReader returns bufio.Reader whose buffer has at least size bytes. It returns
// its capacity for further pass to Put().
// Note that size could be ceiled to the next power of two.
// GetReader is a wrapper around DefaultReaderPool.Get().
func GetReader(w io.Reader, size int) *bufio.Reader { return DefaultReaderPool.Get(w, size) }

// PutReader takes bufio.Reader and its size for future reuse.
// It does not reuse bufio.Reader if size is not power of two or is out of pool
// min/max range.
// PutReader is a wrapper around DefaultReaderPool.Put().
func PutReader(bw *bufio.Reader) { DefaultReaderPool.Put(bw) }

// WriterPool contains logic of *bufio.Writer reuse with various size.
type WriterPool struct {
	pool *pool.Pool
}

// NewWriterPool creates new WriterPool that reuses writers which size is in
// logarithmic range [min, max].
func NewWriterPool(min, max int) *WriterPool {
	return &WriterPool{pool.New(min, max)}
}

// CustomWriterPool creates new WriterPool with given options.
func CustomWriterPool(opts ...pool.Option) *WriterPool {
	return &WriterPool{pool.Custom(opts...)}
}

// Get returns bufio.Writer whose buffer has at least size bytes.
func (wp *WriterPool) Get(w io.Writer, size int) *bufio.Writer {
	v, n := wp.pool.Get(size)
	if v != nil {
		bw := v.(*bufio.Writer)
		bw.Reset(w)
		return bw
	}
	return bufio.NewWriterSize(w, n)
}

// Put takes ownership of bufio.Writer for further reuse.
func (wp *WriterPool) Put(bw *bufio.Writer) {
	// Should reset even if we do Reset() inside Get().
	// This is done to prevent locking underlying io.Writer from GC.
	bw.Reset(nil)
	wp.pool.Put(bw, writerSize(bw))
}

// ReaderPool contains logic of *bufio.Reader reuse with various size.
type ReaderPool struct {
	pool *pool.Pool
}

// NewReaderPool creates new ReaderPool that reuses writers which size is in
// logarithmic range [min, max].
func NewReaderPool(min, max int) *ReaderPool {
	return &ReaderPool{pool.New(min, max)}
}

// CustomReaderPool creates new ReaderPool with given options.
func CustomReaderPool(opts ...pool.Option) *ReaderPool {
	return &ReaderPool{pool.Custom(opts...)}
}

// Get returns bufio.Reader whose buffer has at least size bytes.
func (rp *ReaderPool) Get(r io.Reader, size int) *bufio.Reader {
	v, n := rp.pool.Get(size)
	if v != nil {
		br := v.(*bufio.Reader)
		br.Reset(r)
		return br
	}
	return bufio.NewReaderSize(r, n)
}

// Put takes ownership of bufio.Reader for further reuse.
func (rp *ReaderPool) Put(br *bufio.Reader) {
	// Should reset even if we do Reset() inside Get().
	// This is done to prevent locking underlying io.Reader from GC.
	br.Reset(nil)
	rp.pool.Put(br, readerSize(br))
}
