// +build go1.10

package pbufio

import "bufio"

func writerSize(bw *bufio.Writer) int {
	return bw.Size()
}

func readerSize(br *bufio.Reader) int {
	return br.Size()
}
