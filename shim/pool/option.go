package pool

import "github.com/gobwas/pool/internal/pmath"

// Option configures pool.
type Option func(Config)

// Config describes generic pool configuration.
type Config interface {
	AddSize(n int)
	SetSizeMapping(func(int) int)
}

// WithSizeLogRange returns an Option that will add logarithmic range of
// pooling sizes containing [min, max] values.
func WithLogSizeRange(min, max int) Option {
	return func(c Config) {
		pmath.LogarithmicRange(min, max, func(n int) {
			c.AddSize(n)
		})
	}
}

// WithSize returns an Option that will add given pooling size to the pool.
func WithSize(n int) Option {
	return func(c Config) {
		c.AddSize(n)
	}
}

func WithSizeMapping(sz func(int) int) Option {
	return func(c Config) {
		c.SetSizeMapping(sz)
	}
}

func WithLogSizeMapping() Option {
	return WithSizeMapping(pmath.CeilToPowerOfTwo)
}

func WithIdentitySizeMapping() Option {
	return WithSizeMapping(pmath.Identity)
}
