// Package pool contains helpers for pooling structures distinguishable by
// size.
//
// Quick example:
//
//   import "github.com/gobwas/pool"
//
//   func main() {
//      // Reuse objects in logarithmic range from 0 to 64 (0,1,2,4,6,8,16,32,64).
//      p := pool.New(0, 64)
//
//      buf, n := p.Get(10) // Returns buffer with 16 capacity.
//      if buf == nil {
//          buf = bytes.NewBuffer(make([]byte, n))
//      }
//      defer p.Put(buf, n)
//
//      // Work with buf.
//   }
//
// There are non-generic implementations for pooling:
// - pool/pbytes for []byte reuse;
// - pool/pbufio for *bufio.Reader and *bufio.Writer reuse;
//
package pool
