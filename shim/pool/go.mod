module github.com/gobwas/pool

go 1.21
