package pmath

const (
	bitsize       = 32 << (^uint(0) >> 63)
	maxint        = int(1<<(bitsize-1) - 1)
	maxintHeadBit = 1 << (bitsize - 2)
)

// LogarithmicRange iterates from ceiled to power of two min to max,
// calling cb on each iteration.
func LogarithmicRange(min, max int, cb func(int)) {
	if min == 0 {
		min = 1
	}
	for n := CeilToPowerOfTwo(min); n <= max; n <<= 1 {
		cb(n)
	}
}

// IsPowerOfTwo reports whether given integer is a power of two.
func IsPowerOfTwo(n int) bool {
	return n&(n-1) == 0
}

// Identity is identity.
func Identity(n int) int {
	return n
}

// CeilToPowerOfTwo returns the least power of two integer value greater than
// or equal to n.
func CeilToPowerOfTwo(n int) int {
	if n&maxintHeadBit != 0 && n > maxintHeadBit {
		panic("argument is too large")
	}
	if n <= 2 {
		return n
	}
	n--
	n = fillBits(n)
	n++
	return n
}

// FloorToPowerOfTwo returns the greatest power of two integer value less than
// or equal to n.
func FloorToPowerOfTwo(n int) int {
	if n <= 2 {
		return n
	}
	n = fillBits(n)
	n >>= 1
	n++
	return n
}

func fillBits(n int) int {
	n |= n >> 1
	n |= n >> 2
	n |= n >> 4
	n |= n >> 8
	n |= n >> 16
	n |= n >> 32
	return n
}
